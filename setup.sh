#!/bin/bash
# offline build of the SSA dumper (x/tools v0.29.0 from the module cache)
set -e
cd "$(dirname "$0")/engine"
export GOFLAGS=-mod=mod GOPROXY=off GOSUMDB=off GOTOOLCHAIN=local
mkdir -p ../bin
go build -o ../bin/ssa2json ./cmd/ssa2json
