package field

// Replay/differential driver injected by /verif with `go test -overlay` (never committed to /repo).
// Reads a JSON script ($VERIF_OPS), executes the requested operations of the real compiled
// package on raw limb values held in named slots (same slot name = aliased storage), and
// prints the resulting slot contents and return values as JSON ($VERIF_OUT).

import (
	"encoding/hex"
	"encoding/json"
	"fmt"
	"os"
	"strconv"
	"testing"
)

type vOp struct {
	Op   string            `json:"op"`
	Args []string          `json:"args"` // slot names (elements / byte buffers) or literals
	Init map[string]string `json:"init"` // slot -> "l0,l1,l2,l3,l4" or "hex:.."
}

func vParseElem(s string) *Element {
	var l [5]uint64
	n := 0
	cur := ""
	for _, c := range s + "," {
		if c == ',' {
			v, err := strconv.ParseUint(cur, 10, 64)
			if err != nil {
				panic(err)
			}
			l[n] = v
			n++
			cur = ""
		} else {
			cur += string(c)
		}
	}
	return &Element{l[0], l[1], l[2], l[3], l[4]}
}

func vFmt(e *Element) string {
	return fmt.Sprintf("%d,%d,%d,%d,%d", e.l0, e.l1, e.l2, e.l3, e.l4)
}

func TestVerifDriver(t *testing.T) {
	data, err := os.ReadFile(os.Getenv("VERIF_OPS"))
	if err != nil {
		t.Fatal(err)
	}
	var ops []vOp
	if err := json.Unmarshal(data, &ops); err != nil {
		t.Fatal(err)
	}
	var results []map[string]interface{}
	for _, op := range ops {
		res := map[string]interface{}{}
		func() {
			defer func() {
				if r := recover(); r != nil {
					res["panic"] = fmt.Sprint(r)
				}
			}()
			el := map[string]*Element{}
			bufs := map[string][]byte{}
			for k, v := range op.Init {
				if len(v) >= 4 && v[:4] == "hex:" {
					b, err := hex.DecodeString(v[4:])
					if err != nil {
						panic(err)
					}
					bufs[k] = vCarve(b)
				} else {
					el[k] = vParseElem(v)
				}
			}
			E := func(i int) *Element {
				e, ok := el[op.Args[i]]
				if !ok {
					panic("no element slot " + op.Args[i])
				}
				return e
			}
			I := func(i int) int {
				v, err := strconv.ParseInt(op.Args[i], 10, 64)
				if err != nil {
					panic(err)
				}
				return int(v)
			}
			var ret *Element
			switch op.Op {
			case "Add":
				ret = E(0).Add(E(1), E(2))
			case "Subtract":
				ret = E(0).Subtract(E(1), E(2))
			case "Multiply":
				ret = E(0).Multiply(E(1), E(2))
			case "Negate":
				ret = E(0).Negate(E(1))
			case "Square":
				ret = E(0).Square(E(1))
			case "Invert":
				ret = E(0).Invert(E(1))
			case "Pow22523":
				ret = E(0).Pow22523(E(1))
			case "Absolute":
				ret = E(0).Absolute(E(1))
			case "Set":
				ret = E(0).Set(E(1))
			case "Zero":
				ret = E(0).Zero()
			case "One":
				ret = E(0).One()
			case "Mult32":
				ret = E(0).Mult32(E(1), uint32(I(2)))
			case "Select":
				ret = E(0).Select(E(1), E(2), I(3))
			case "Swap":
				E(0).Swap(E(1), I(2))
			case "SetBytes":
				r, err := E(0).SetBytes(bufs[op.Args[1]])
				res["err"] = err != nil
				res["retnil"] = r == nil
				if r != nil {
					ret = r
				}
			case "SetWideBytes":
				r, err := E(0).SetWideBytes(bufs[op.Args[1]])
				res["err"] = err != nil
				res["retnil"] = r == nil
				if r != nil {
					ret = r
				}
			case "Bytes":
				res["bytes"] = hex.EncodeToString(E(0).Bytes())
			case "Equal":
				res["int"] = E(0).Equal(E(1))
			case "IsNegative":
				res["int"] = E(0).IsNegative()
			case "SqrtRatio":
				r, w := E(0).SqrtRatio(E(1), E(2))
				ret = r
				res["int"] = w
			case "feMulGeneric":
				feMulGeneric(E(0), E(1), E(2))
			case "feSquareGeneric":
				feSquareGeneric(E(0), E(1))
			case "feMul":
				feMul(E(0), E(1), E(2))
			case "feSquare":
				feSquare(E(0), E(1))
			case "carryPropagate":
				ret = E(0).carryPropagate()
			case "carryPropagateGeneric":
				ret = E(0).carryPropagateGeneric()
			case "reduce":
				ret = E(0).reduce()
			default:
				panic("unknown op " + op.Op)
			}
			if ret != nil {
				res["ret_is_recv"] = ret == E(0)
			}
			slots := map[string]string{}
			for k, e := range el {
				slots[k] = vFmt(e)
			}
			for k, b := range bufs {
				slots[k] = "hex:" + hex.EncodeToString(b)
				if !vTailIntact(b) {
					slots[k+"#tail"] = "modified"
				}
			}
			res["slots"] = slots
		}()
		results = append(results, res)
	}
	out, _ := json.Marshal(results)
	if err := os.WriteFile(os.Getenv("VERIF_OUT"), out, 0o644); err != nil {
		t.Fatal(err)
	}
}


// vCarve returns b as a slice carved out of a larger buffer: 8 guard bytes in front, 72 bytes of spare capacity behind
// (like h[:32] of a 64-byte digest), all filled with 0xEE so that writes outside the slice can be detected.
func vCarve(b []byte) []byte {
	if b == nil {
		return nil
	}
	big := make([]byte, 8+len(b)+72)
	for i := range big {
		big[i] = 0xEE
	}
	copy(big[8:], b)
	return big[8 : 8+len(b) : len(big)]
}

func vTailIntact(b []byte) bool {
	if b == nil {
		return true
	}
	full := b[:cap(b)]
	for i := len(b); i < len(full); i++ {
		if full[i] != 0xEE {
			return false
		}
	}
	return true
}
