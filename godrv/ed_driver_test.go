package edwards25519

// Replay/differential driver injected by /verif with `go test -overlay` (never committed to /repo).
// Executes a JSON script of operations ($VERIF_OPS) of the real compiled package on raw values held in
// named slots (same slot name = aliased storage) and writes slot contents and return values ($VERIF_OUT).
//
// slot initialisers:  "w:a,b,c,d"   Scalar with raw Montgomery limbs
//                     "pt:x;y;z;t"  Point with raw limbs (each coordinate l0,l1,l2,l3,l4), "pt:zero" zero value
//                     "fe:l0,..,l4" field element, "hex:.." byte slice

import (
	"encoding/hex"
	"encoding/json"
	"fmt"
	"os"
	"strconv"
	"strings"
	"testing"
	"unsafe"

	"filippo.io/edwards25519/field"
)

type vOp struct {
	Op   string            `json:"op"`
	Args []string          `json:"args"`
	Init map[string]string `json:"init"`
}

func vU64s(s string) []uint64 {
	var out []uint64
	for _, f := range strings.Split(s, ",") {
		v, err := strconv.ParseUint(strings.TrimSpace(f), 10, 64)
		if err != nil {
			panic(err)
		}
		out = append(out, v)
	}
	return out
}

func vSetFE(e *field.Element, s string) {
	l := vU64s(s)
	p := (*[5]uint64)(unsafe.Pointer(e))
	copy(p[:], l)
}

func vFE(e *field.Element) string {
	p := (*[5]uint64)(unsafe.Pointer(e))
	return fmt.Sprintf("%d,%d,%d,%d,%d", p[0], p[1], p[2], p[3], p[4])
}

func vPt(p *Point) string {
	return "pt:" + vFE(&p.x) + ";" + vFE(&p.y) + ";" + vFE(&p.z) + ";" + vFE(&p.t)
}

func TestVerifDriver(t *testing.T) {
	if unsafe.Sizeof(field.Element{}) != 40 {
		t.Fatal("field.Element layout changed")
	}
	data, err := os.ReadFile(os.Getenv("VERIF_OPS"))
	if err != nil {
		t.Fatal(err)
	}
	var ops []vOp
	if err := json.Unmarshal(data, &ops); err != nil {
		t.Fatal(err)
	}
	var results []map[string]interface{}
	for _, op := range ops {
		res := map[string]interface{}{}
		sc := map[string]*Scalar{}
		pt := map[string]*Point{}
		fe := map[string]*field.Element{}
		bufs := map[string][]byte{}
		dump := func() {
			slots := map[string]string{}
			for k, s := range sc {
				slots[k] = fmt.Sprintf("w:%d,%d,%d,%d", s.s[0], s.s[1], s.s[2], s.s[3])
			}
			for k, p := range pt {
				slots[k] = vPt(p)
			}
			for k, e := range fe {
				slots[k] = "fe:" + vFE(e)
			}
			for k, b := range bufs {
				slots[k] = "hex:" + hex.EncodeToString(b)
				if !vTailIntact(b) {
					slots[k+"#tail"] = "modified"
				}
			}
			res["slots"] = slots
		}
		func() {
			defer func() {
				if r := recover(); r != nil {
					res["panic"] = fmt.Sprint(r)
					dump()
				}
			}()
			for k, v := range op.Init {
				switch {
				case strings.HasPrefix(v, "w:"):
					l := vU64s(v[2:])
					s := &Scalar{}
					copy(s.s[:], l)
					sc[k] = s
				case v == "pt:zero":
					pt[k] = &Point{}
				case strings.HasPrefix(v, "pt:"):
					cs := strings.Split(v[3:], ";")
					p := &Point{}
					vSetFE(&p.x, cs[0])
					vSetFE(&p.y, cs[1])
					vSetFE(&p.z, cs[2])
					vSetFE(&p.t, cs[3])
					pt[k] = p
				case strings.HasPrefix(v, "fe:"):
					e := &field.Element{}
					vSetFE(e, v[3:])
					fe[k] = e
				case strings.HasPrefix(v, "hex:"):
					b, err := hex.DecodeString(v[4:])
					if err != nil {
						panic(err)
					}
					bufs[k] = vCarve(b)
				case v == "nilbuf":
					bufs[k] = nil
				default:
					panic("bad init " + v)
				}
			}
			S := func(i int) *Scalar {
				s, ok := sc[op.Args[i]]
				if !ok {
					panic("no scalar slot " + op.Args[i])
				}
				return s
			}
			Pt := func(i int) *Point {
				p, ok := pt[op.Args[i]]
				if !ok {
					panic("no point slot " + op.Args[i])
				}
				return p
			}
			FE := func(i int) *field.Element {
				e, ok := fe[op.Args[i]]
				if !ok {
					panic("no element slot " + op.Args[i])
				}
				return e
			}
			Bf := func(i int) []byte {
				b, ok := bufs[op.Args[i]]
				if !ok {
					panic("no buffer slot " + op.Args[i])
				}
				return b
			}
			I := func(i int) int {
				v, err := strconv.ParseInt(op.Args[i], 10, 64)
				if err != nil {
					panic(err)
				}
				return int(v)
			}
			SL := func(i int) []*Scalar {
				var out []*Scalar
				if op.Args[i] == "" {
					return out
				}
				for _, n := range strings.Split(op.Args[i], "|") {
					out = append(out, sc[n])
				}
				return out
			}
			PL := func(i int) []*Point {
				var out []*Point
				if op.Args[i] == "" {
					return out
				}
				for _, n := range strings.Split(op.Args[i], "|") {
					out = append(out, pt[n])
				}
				return out
			}
			var rs *Scalar
			var rp *Point
			switch op.Op {
			// ---- scalars
			case "S.Add":
				rs = S(0).Add(S(1), S(2))
			case "S.Subtract":
				rs = S(0).Subtract(S(1), S(2))
			case "S.Multiply":
				rs = S(0).Multiply(S(1), S(2))
			case "S.MultiplyAdd":
				rs = S(0).MultiplyAdd(S(1), S(2), S(3))
			case "S.Negate":
				rs = S(0).Negate(S(1))
			case "S.Invert":
				rs = S(0).Invert(S(1))
			case "S.Set":
				rs = S(0).Set(S(1))
			case "S.Equal":
				res["int"] = S(0).Equal(S(1))
			case "S.Bytes":
				res["bytes"] = hex.EncodeToString(S(0).Bytes())
			case "S.SetCanonicalBytes":
				r, err := S(0).SetCanonicalBytes(Bf(1))
				res["err"] = err != nil
				res["retnil"] = r == nil
				rs = r
			case "S.SetUniformBytes":
				r, err := S(0).SetUniformBytes(Bf(1))
				res["err"] = err != nil
				res["retnil"] = r == nil
				rs = r
			case "S.SetBytesWithClamping":
				r, err := S(0).SetBytesWithClamping(Bf(1))
				res["err"] = err != nil
				res["retnil"] = r == nil
				rs = r
			case "S.signedRadix16":
				d := S(0).signedRadix16()
				ds := make([]int, 64)
				for i := range d {
					ds[i] = int(d[i])
				}
				res["digits"] = ds
			case "S.nonAdjacentForm":
				d := S(0).nonAdjacentForm(uint(I(1)))
				ds := make([]int, 256)
				for i := range d {
					ds[i] = int(d[i])
				}
				res["digits"] = ds
			case "fiatScalarMul":
				fiatScalarMul(&S(0).s, &S(1).s, &S(2).s)
			case "fiatScalarAdd":
				fiatScalarAdd(&S(0).s, &S(1).s, &S(2).s)
			case "fiatScalarSub":
				fiatScalarSub(&S(0).s, &S(1).s, &S(2).s)
			case "fiatScalarOpp":
				fiatScalarOpp(&S(0).s, &S(1).s)
			case "fiatScalarToMontgomery":
				fiatScalarToMontgomery(&S(0).s, (*fiatScalarNonMontgomeryDomainFieldElement)(&S(1).s))
			case "fiatScalarFromMontgomery":
				fiatScalarFromMontgomery((*fiatScalarNonMontgomeryDomainFieldElement)(&S(0).s), &S(1).s)
			case "isReduced":
				res["bool"] = isReduced(Bf(0))
			// ---- points
			case "P.Add":
				rp = Pt(0).Add(Pt(1), Pt(2))
			case "P.Subtract":
				rp = Pt(0).Subtract(Pt(1), Pt(2))
			case "P.Negate":
				rp = Pt(0).Negate(Pt(1))
			case "P.MultByCofactor":
				rp = Pt(0).MultByCofactor(Pt(1))
			case "P.Set":
				rp = Pt(0).Set(Pt(1))
			case "P.Equal":
				res["int"] = Pt(0).Equal(Pt(1))
			case "P.Bytes":
				res["bytes"] = hex.EncodeToString(Pt(0).Bytes())
			case "P.BytesMontgomery":
				res["bytes"] = hex.EncodeToString(Pt(0).BytesMontgomery())
			case "P.SetBytes":
				r, err := Pt(0).SetBytes(Bf(1))
				res["err"] = err != nil
				res["retnil"] = r == nil
				rp = r
			case "P.ScalarMult":
				rp = Pt(0).ScalarMult(S(1), Pt(2))
			case "P.ScalarBaseMult":
				rp = Pt(0).ScalarBaseMult(S(1))
			case "P.VarTimeDoubleScalarBaseMult":
				rp = Pt(0).VarTimeDoubleScalarBaseMult(S(1), Pt(2), S(3))
			case "P.MultiScalarMult", "P.VarTimeMultiScalarMult":
				// the slices are carved out of larger arrays (spare capacity, like a caller's batch[:n]) and compared
				// element by element (pointer identity) afterwards, including the spare part
				sl, pl := SL(1), PL(2)
				sbig := append(append([]*Scalar{}, sl...), &Scalar{}, &Scalar{})
				pbig := append(append([]*Point{}, pl...), NewIdentityPoint(), NewIdentityPoint())
				scopy := append([]*Scalar{}, sbig...)
				pcopy := append([]*Point{}, pbig...)
				if op.Op == "P.MultiScalarMult" {
					rp = Pt(0).MultiScalarMult(sbig[:len(sl)], pbig[:len(pl)])
				} else {
					rp = Pt(0).VarTimeMultiScalarMult(sbig[:len(sl)], pbig[:len(pl)])
				}
				for i := range sbig {
					if sbig[i] != scopy[i] {
						res["slices_modified"] = fmt.Sprintf("scalars[%d] was replaced", i)
					}
				}
				for i := range pbig {
					if pbig[i] != pcopy[i] {
						res["slices_modified"] = fmt.Sprintf("points[%d] was replaced", i)
					}
				}
			case "P.ExtendedCoordinates":
				X, Y, Z, T := Pt(0).ExtendedCoordinates()
				res["coords"] = []string{vFE(X), vFE(Y), vFE(Z), vFE(T)}
				res["distinct"] = X != Y && Y != Z && Z != T && X != &Pt(0).x && Y != &Pt(0).y && Z != &Pt(0).z && T != &Pt(0).t
			case "P.SetExtendedCoordinates":
				r, err := Pt(0).SetExtendedCoordinates(FE(1), FE(2), FE(3), FE(4))
				res["err"] = err != nil
				res["retnil"] = r == nil
				rp = r
			case "NewIdentityPoint":
				pt[op.Args[0]] = NewIdentityPoint()
			case "NewGeneratorPoint":
				pt[op.Args[0]] = NewGeneratorPoint()
			default:
				panic("unknown op " + op.Op)
			}
			if rs != nil {
				res["ret_is_recv"] = rs == S(0)
			}
			if rp != nil {
				res["ret_is_recv"] = rp == Pt(0)
			}
			dump()
		}()
		results = append(results, res)
	}
	out, _ := json.Marshal(results)
	if err := os.WriteFile(os.Getenv("VERIF_OUT"), out, 0o644); err != nil {
		t.Fatal(err)
	}
}


// vCarve returns b as a slice carved out of a larger buffer: 8 guard bytes in front, 72 bytes of spare capacity behind
// (like h[:32] of a 64-byte digest), all filled with 0xEE so that writes outside the slice can be detected.
func vCarve(b []byte) []byte {
	if b == nil {
		return nil
	}
	big := make([]byte, 8+len(b)+72)
	for i := range big {
		big[i] = 0xEE
	}
	copy(big[8:], b)
	return big[8 : 8+len(b) : len(big)]
}

func vTailIntact(b []byte) bool {
	if b == nil {
		return true
	}
	full := b[:cap(b)]
	for i := len(b); i < len(full); i++ {
		if full[i] != 0xEE {
			return false
		}
	}
	return true
}
