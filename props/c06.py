"""C06 - Point.Equal decides point equality exactly."""
import time, z3
from sym import kernels as K, l1 as L1m, exec as X, certs, ptreplay, ref
from sym.poly import Poly, z3_identity_unsat
from sym.check import Ob
from .common import setup, run_kernels
from .c02 import field_contracts


def equal_battery(seed, extra_pairs=()):
    import random
    from sym import native
    rng = random.Random(seed)
    pts = ptreplay.bank(rng, 10)
    ops, meta = [], []
    # pairs of different points on which a polynomial tested by the body vanishes (witness search), in a few representations
    for p, q in extra_pairs:
        for _ in range(3):
            ops.append({"op": "P.Equal", "args": ["a", "b"], "init": {"a": ptreplay.mk_point(p, rng), "b": ptreplay.mk_point(q, rng)}})
            meta.append((p, q))
    for i, p in enumerate(pts):
        for q in (p, ref.ed_neg(p), pts[(i + 3) % len(pts)], ((-p[0]) % ref.P, (-p[1]) % ref.P) if ref.ed_on_curve(((-p[0]) % ref.P, (-p[1]) % ref.P)) else p,
                  (p[0], (-p[1]) % ref.P) if ref.ed_on_curve((p[0], (-p[1]) % ref.P)) else p):
            ops.append({"op": "P.Equal", "args": ["a", "b"], "init": {"a": ptreplay.mk_point(p, rng), "b": ptreplay.mk_point(q, rng)}})
            meta.append((p, q))
        ops.append({"op": "P.Equal", "args": ["a", "a"], "init": {"a": ptreplay.mk_point(p, rng)}})
        meta.append((p, p))
    res = native.run_ops("", ops)
    for (p, q), r, o in zip(meta, res, ops):
        if "panic" in r:
            return dict(what="Equal panics on valid points: %s" % r["panic"], op="P.Equal", init=o["init"])
        if r["int"] != (1 if p == q else 0):
            return dict(what="Equal(%s, %s) = %s" % (p, q, r["int"]), op="P.Equal", init=o["init"], args=o["args"])
        if any(r["slots"][k] != v for k, v in o["init"].items()):
            return dict(what="Equal modified an operand", op="P.Equal", init=o["init"])
    return None


def k_equal(l1, alias):
    chk, prog = l1.chk, l1.prog
    fname = prog.find("Point).Equal")
    chk.used(prog, fname, "ring mode (Element.Equal = congruence atom, contract K-sel/C10)")
    label = "Point.Equal[%s]" % alias
    path = l1.path()
    P1 = l1.p3("1")
    P2 = l1.p3("2") if alias == "distinct" else P1
    p = l1.obj(path, "Point", P1.coords(), "v")
    q = p if alias != "distinct" else l1.obj(path, "Point", P2.coords(), "u")
    paths = l1.ex.call(fname, [p, q], path)
    chk.add(Ob("%s: single path, no panic for valid operands" % label, "unsat" if len(paths) == 1 and paths[0].outcome[0] == "ret" else "sat", 0, [fname], "structure"))
    r = paths[0]
    res = r.outcome[1][0]
    hyps = [h for h in r.dstate.get("hyp", []) if h[0] == "eq"]
    if alias != "distinct":
        chk.add(Ob("%s: a point equals itself (result is the constant 1)" % label, "unsat" if (type(res) is int and res == 1) else "sat", 0, [fname], "ring mode"))
        return
    X1, Y1, Z1, T1 = P1.coords()
    X2, Y2, Z2, T2 = P2.coords()
    specs = {"x": X1 * Z2 - X2 * Z1, "y": Y1 * Z2 - Y2 * Z1}
    found = {}
    for h in hyps:
        for nm, sp in specs.items():
            if h[1] == sp or h[1] == -sp:
                found[nm] = h[2]
    ok = len(hyps) == 2 and len(found) == 2
    chk.add(Ob("%s: exactly the two cross-products X1*Z2 - X2*Z1 and Y1*Z2 - Y2*Z1 are tested for zero" % label, "unsat" if ok else "sat", 0, [fname], "ring mode", detail=str([repr(h[1])[:80] for h in hyps])))
    if not ok:
        # the body tests something else: pairs of DIFFERENT valid points on which a tested polynomial vanishes are the
        # candidates for a wrong 'equal' (computed exactly: elimination with the curve equation + roots in GF(p))
        from sym import witness
        dv = l1.base.global_val(K.E + "d")
        dval = sum(int(l) << (51 * k) for k, l in enumerate(dv)) % ref.P
        try:
            prs = witness.pair_witnesses([h[1] for h in hyps], dval, chk.seed)
        except Exception as e:
            prs = []
            chk.note_inconclusive("pair witness search failed: %r" % (e,))
        chk.extra["equal_pair_witnesses"] = [[list(a_), list(b_)] for a_, b_ in prs][:24]
    if ok:
        t0 = time.time()
        s = z3.Solver()
        for c in r.pc:
            s.add(c)
        want = z3.If(z3.And(found["x"], found["y"]), z3.BitVecVal(1, 64), z3.BitVecVal(0, 64))
        s.add((res if not type(res) is int else z3.BitVecVal(res, 64)) != want)
        chk.add(Ob("%s: returns exactly 1 iff both cross-products vanish mod p, else exactly 0" % label, str(s.check()), time.time() - t0, [fname], "BV over congruence atoms"))
        # same affine point <=> both cross products vanish:  X1*Z2 - X2*Z1 = Z1*Z2*(x1 - x2) with x_i = X_i/Z_i
        x1, x2 = Poly.var("x1"), Poly.var("x2")
        rr, _ = z3_identity_unsat([[x1 * Z1 * Z2 - x2 * Z2 * Z1]], [[Z1, Z2, x1 - x2]])
        chk.add(Ob("%s: cross-product = Z1*Z2*(x1-x2) for X_i = x_i*Z_i (so, Z_i != 0: zero iff same affine coordinate)" % label, rr, time.time() - t0, [fname], "polynomial identity (z3)"))
    chk.fact("%s: operands not written" % label, not any(w[0] == "w" and w[1] in (p.obj, q.obj) for w in r.log), [fname])


def run(chk):
    prog, base = setup(chk)
    from .common import state_shape
    state_shape(chk, prog)
    chk.bounds = ["no bound: symbolic projective coordinates of two valid points; every limb representation via the field contracts"]
    chk.outside = ["GF(p) has no zero divisors; Element.Equal <=> congruence mod p is the C10 contract (re-discharged here: reduce, Bytes, ConstantTimeCompare)"]
    chk.assumptions = ["field calls replaced by ring operations / congruence atoms (contracts discharged in this run)"]
    items = list(field_contracts(base, chk))
    items += [("reduce", lambda: K.k_reduce(base, chk)), ("Bytes", lambda: K.k_bytes(base, chk)), ("Equal/IsNegative", lambda: K.k_equal_isneg(base, chk))]
    l1 = L1m.L1(base, chk)
    items += [("Equal distinct", lambda: k_equal(l1, "distinct")), ("Equal v=u", lambda: k_equal(l1, "v=u"))]
    run_kernels(chk, items)
    L1m.settle(chk, [o for o in chk.obs if o.name.startswith("Point.Equal[")],
               lambda: equal_battery(chk.seed, [(tuple(a_), tuple(b_)) for a_, b_ in chk.extra.get("equal_pair_witnesses", [])]), "Point.Equal")
    chk.samples = [o.j() for o in chk.obs if o.name.startswith("Point.Equal[")][:5]


def safety_net(chk):
    from sym import ptreplay
    return equal_battery(chk.seed) or ptreplay.battery_receiver_history(chk.seed)
