"""C02 - Add, Subtract, Negate, MultByCofactor are the complete Edwards group law."""
from sym import kernels as K, l1 as L1m
from sym.check import Ob
from .common import setup, run_kernels


def field_contracts(base, chk):
    """L0 contracts the ring abstraction rests on (each field call is the exact ring operation on every
    representation within the invariant and returns within it)"""
    return [
        ("Add", lambda: K.k_add(base, chk)), ("Subtract", lambda: K.k_sub(base, chk)), ("Negate", lambda: K.k_sub(base, chk, True)),
        ("feMul", lambda: K.k_mul(base, chk, "feMul")), ("feSquare", lambda: K.k_mul(base, chk, "feSquare")),
        ("carryPropagate", lambda: K.k_carry(base, chk, K.F + "carryPropagate")),
        ("wrappers", lambda: K.k_wrappers(base, chk)),
    ]


def run(chk):
    prog, base = setup(chk)
    from .common import state_shape
    state_shape(chk, prog)
    chk.bounds = ["no bound on inputs: all valid points in every projective representation (symbolic X,Y,Z,T with Z != 0, curve equation and XY = ZT as hypotheses), every limb representation within the invariant (via the field contracts)",
                  "aliasing patterns: distinct, zero-value receiver, v=p, v=q, p=q, v=p=q"]
    chk.outside = ["Bernstein-Lange completeness: the step 'a vanishing denominator would make d a square' is paper reasoning; its two polynomial lemmas and the Euler criterion for the real d are checked",
                   "GF(p) is a field (p prime): a product is zero only if a factor is"]
    chk.assumptions = ["certificate search (multivariate division) is untrusted; the solver validates each identity M*G = sum q_j*h_j over Z[...]", "field calls replaced by ring operations (contracts discharged in this run)"]
    run_kernels(chk, field_contracts(base, chk))
    l1 = L1m.L1(base, chk)
    items = [("lemmas", l1.lemmas)]
    from sym import ptreplay, ref
    groups = {"Add": [], "Subtract": [], "Negate": []}
    for al in ("distinct", "zero receiver", "v=p", "v=q", "p=q", "v=p=q"):
        items.append(("Add " + al, lambda al=al: groups["Add"].extend(L1m.api_add_sub(l1, False, al)[0])))
        items.append(("Subtract " + al, lambda al=al: groups["Subtract"].extend(L1m.api_add_sub(l1, True, al)[0])))
    for al in ("distinct", "zero receiver", "v=p"):
        items.append(("Negate " + al, lambda al=al: groups["Negate"].extend(L1m.api_negate(l1, al))))
    def cofactor(state):
        from sym import l2 as L2m, groupmode as GM, exec as X
        import time as _t
        h = L2m.L2(base, chk)
        path = h.path()
        t0 = _t.time()
        fname = prog.find("Point).MultByCofactor")
        chk.used(prog, fname, "group mode on top of the doubling / conversion contracts")
        pnt = h.point(path, "P")
        v = {"zero": lambda: h.point(path, None), "other": lambda: h.point(path, "R"), "alias": lambda: pnt}[state]()
        paths = h.ex.call(fname, [v, pnt], path)
        h.check_result("MultByCofactor[receiver=%s]" % state, fname, paths, v, {"P": 8}, t0, [pnt.obj] if v != pnt else [])
    for st in ("zero", "other", "alias"):
        items.append(("MultByCofactor " + st, lambda st=st: cofactor(st)))
    n0 = [0]
    items.append(("internal", lambda: (n0.__setitem__(0, len(chk.obs)), L1m.internal_contracts(l1))))
    items.append(("completeness", lambda: L1m.completeness(l1)))
    items.append(("selector primitives", lambda: L1m.selector_contracts(l1)))
    run_kernels(chk, items)
    by = lambda pre: [o for o in chk.obs if o.name.startswith(pre)]
    L1m.settle(chk, by("Point.Add["), lambda: ptreplay.battery_binary("P.Add", chk.seed, lambda p, q: ref.ed_add(p, q)), "Point.Add")
    L1m.settle(chk, by("Point.Subtract["), lambda: ptreplay.battery_binary("P.Subtract", chk.seed, lambda p, q: ref.ed_add(p, ref.ed_neg(q))), "Point.Subtract")
    L1m.settle(chk, by("Point.Negate["), lambda: ptreplay.battery_unary("P.Negate", chk.seed, lambda p: ref.ed_neg(p)), "Point.Negate")
    L1m.settle(chk, by("MultByCofactor["), lambda: ptreplay.battery_unary("P.MultByCofactor", chk.seed, lambda p: ref.ed_mul(8, p)), "Point.MultByCofactor")
    internal = [o for o in chk.obs if o.mode.startswith("ring mode") and not o.ok() and not o.name.startswith("Point.")]

    def internal_battery():
        return (ptreplay.battery_unary("P.MultByCofactor", chk.seed, lambda p: ref.ed_mul(8, p))
                or ptreplay.battery_scalarmult(chk.seed))
    L1m.settle(chk, internal, internal_battery, "point formulas (internal)")
    chk.samples = [o.j() for o in chk.obs if "x-coordinate" in o.name][:4]


def safety_net(chk):
    from sym import ptreplay, ref
    return (ptreplay.battery_binary("P.Add", chk.seed, lambda p, q: ref.ed_add(p, q)) or ptreplay.battery_binary("P.Subtract", chk.seed, lambda p, q: ref.ed_add(p, ref.ed_neg(q)))
            or ptreplay.battery_unary("P.Negate", chk.seed, lambda p: ref.ed_neg(p)) or ptreplay.battery_unary("P.MultByCofactor", chk.seed, lambda p: ref.ed_mul(8, p))
            or ptreplay.battery_receiver_history(chk.seed))
