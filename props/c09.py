"""C09 - field arithmetic is GF(2^255-19) for every reachable representation."""
import z3, time
from sym import kernels as K, exec as X
from sym.check import Ob
from .common import setup, run_kernels


def absolute_battery(seed):
    from sym import native, ref
    import random
    rng = random.Random(seed)
    cands = ref.limb_candidates(rng, 64)
    for k_ in range(0, 19):          # p+k in the tight form, and 2^255-1 .. values just above p
        cands.append([2**51 - 19 + k_, 2**51 - 1, 2**51 - 1, 2**51 - 1, 2**51 - 1])
    cands += [[0, 0, 0, 2**51, 2**51 - 1], [2**51, 2**51 - 1, 2**51 - 1, 2**51 - 1, 2**51 - 1], [1, 0, 0, 0, 0], [2, 0, 0, 0, 0]]
    ops = []
    for c in cands:
        ops.append({"op": "Absolute", "args": ["v", "u"], "init": {"v": "7,7,7,7,7", "u": ref.fmt_limbs(c)}})
        ops.append({"op": "Absolute", "args": ["u", "u"], "init": {"u": ref.fmt_limbs(c)}})
    res = native.run_ops("field", ops)
    for o, r in zip(ops, res):
        c = ref.parse_limbs(o["init"]["u"])
        val = ref.fe_val(c) % K.P
        want = val if val % 2 == 0 else K.P - val
        got = ref.fe_val(ref.parse_limbs(r["slots"][o["args"][0]])) % K.P
        if got != want:
            return dict(what="Absolute(%s)%s = %d, expected %d" % (c, " (v=u)" if o["args"][0] == "u" else "", got, want), op="Absolute", args=o["args"], init=o["init"])
        if o["args"][0] != "u" and r["slots"]["u"] != o["init"]["u"]:
            return dict(what="Absolute modified its argument", op="Absolute", args=o["args"], init=o["init"])
    return None


def k_absolute(base, chk, alias=False):
    """Absolute executed end to end in Int-LF (Negate, IsNegative -> Bytes -> reduce + serialisation, Select with a fork
    on the sign bit): on every path the result is +-u (mod p) and IsNegative(result), re-executed from its SSA, is 0"""
    from sym.dom_lf import LF, LFCond
    prog = base.prog
    fname = prog.find("Element).Absolute")
    label = "Absolute[v=u]" if alias else "Absolute"
    k = K.LFK(base, chk, fname, label=label)
    for f in ("Element).IsNegative", "Element).Bytes", "Element).bytes", "Element).reduce", "Element).Negate", "Element).Select"):
        chk.used(prog, prog.find(f), "Int-LF (inlined)")
    u, ul = k.elem("u")
    v = u if alias else k.out_elem()[0]
    paths = k.ex.call(fname, [v, u], k.path)
    bad = [p for p in paths if p.outcome[0] != "ret"]
    chk.add(Ob("%s: returns normally on every path (%d paths; the fork is on the sign bit)" % (label, len(paths)), "unsat" if paths and not bad else "sat", 0, [fname], "Int-LF", detail=str([p.outcome for p in bad][:2])))
    isneg = prog.find("Element).IsNegative")
    for i, p in enumerate(p for p in paths if p.outcome[0] == "ret"):
        out = k.limbs(p, v)
        t0 = time.time()
        r1 = k.dom.prove_congr(p, K.fval(out), K.fval(ul), K.P, "plus")
        r2 = "unsat" if r1 == "unsat" else k.dom.prove_congr(p, K.fval(out), -K.fval(ul), K.P, "minus")
        chk.add(Ob("%s [path %d]: result = u or result = -u (mod p)" % (label, i), "unsat" if "unsat" in (r1, r2) else "sat", time.time() - t0, [fname], "Int-LF"))
        for j_, o in enumerate(out):
            k.goal(p, "le", "[path %d] out.l%d within the invariant" % (i, j_), o, K.B)
        # non-negativity: the real IsNegative on the result
        t0 = time.time()
        p2 = p.clone()
        p2.outcome = None
        p2.frames = []
        verdict = "unsat"
        for q in k.ex.call(isneg, [v], p2):
            if q.outcome[0] != "ret":
                verdict = "error"
                continue
            b = q.outcome[1][0]
            if isinstance(b, int):
                if b != 0:
                    verdict = "sat"
            else:
                r = k.dom.check(q, [LFCond("!=", LF.of(b))], "parity")
                if r != "unsat":
                    verdict = r
        chk.add(Ob("%s [path %d]: the result is non-negative (IsNegative(result) = 0, i.e. its fully reduced value is even)" % (label, i), verdict, time.time() - t0, [fname, isneg], "Int-LF"))
        chk.fact("%s [path %d]: returns the receiver%s" % (label, i, "" if alias else "; argument not written"),
                 p.outcome[1][0] == v and (alias or not any(w[0] == "w" and w[1] == u.obj for w in p.log)), [fname])
    bad_obs = [o for o in chk.obs if o.name.startswith(label) and not o.ok()]
    if bad_obs:
        from sym import l1 as L1m
        L1m.settle(chk, bad_obs, lambda: absolute_battery(chk.seed), "Element.Absolute")


def k_constants(base, chk):
    """constructor outputs and package constants satisfy the invariant and have the right values"""
    t0 = time.time()
    vals = {n: base.global_val(K.F + n) for n in ("feZero", "feOne", "sqrtM1")}
    s = z3.Solver()
    sq = sum(int(l) << (51 * i) for i, l in enumerate(vals["sqrtM1"]))
    conds = [all(0 <= int(l) <= K.M51 for v in vals.values() for l in v), list(vals["feZero"]) == [0] * 5, list(vals["feOne"]) == [1, 0, 0, 0, 0]]
    chk.fact("constants feZero, feOne, sqrtM1: limbs < 2^51, values 0 and 1", all(conds), [K.F + "init"], "concrete (init executed by the engine)")
    r = z3.Int("r")
    s.add(r == sq, (r * r + 1) % K.P != 0)
    chk.add(Ob("sqrtM1^2 = -1 mod p", str(s.check()), time.time() - t0, [K.F + "init"], "LIA (concrete)"))
    # Zero / One
    for nm, want in (("Zero", [0] * 5), ("One", [1, 0, 0, 0, 0])):
        fname = base.prog.find("Element)." + nm)
        k = K.BVK(base, chk, fname)
        v, vl = k.elem("v")
        (p,) = k.run([v])
        out = k.ex.load(p, v)
        k.prove(p, "sets limbs %s for any prior contents, returns receiver" % want, list(out) == want and p.outcome[1][0] == v)
        k.settle()
    fname = base.prog.find("Element).Set")
    k = K.BVK(base, chk, fname)
    v, vl = k.elem("v")
    a, al = k.elem("a")
    (p,) = k.run([v, a])
    out = k.ex.load(p, v)
    k.prove(p, "copies all five limbs", z3.And([out[i] == al[i] for i in range(5)]))
    k.settle()


def run(chk):
    prog, base = setup(chk)
    from .common import state_shape
    state_shape(chk, prog)
    from .common import platform_independence
    platform_independence(chk, prog)
    from .common import api_surface, ELEMENT_API
    api_surface(chk, prog, 'Element', ELEMENT_API, 'the value/invariant contracts of this check')
    chk.bounds = ["all limb vectors with every limb <= B = 2^51+2^38 (closed representation invariant); carryPropagate: any 64-bit limbs; Mult32: any y < 2^32",
                  "Invert/Pow22523: real loop trip counts, 254+11 / 251+11 field calls"]
    chk.outside = ["limb vectors above B (unreachable: every constructor and operation returns limbs <= B given limbs <= B)", "fe_arm64.s (other architecture)",
                   "z^(p-2) = 1/z (Fermat, p prime) is textbook and not decided by the solver"]
    chk.assumptions = ["bits.Mul64/Add64/Sub64 modelled exactly", "Int-LF relaxes products of two symbolic limbs to McCormick-bounded atoms (unsat is sound; sat is replayed)",
                       "amd64 assembly semantics for MOVQ MULQ IMUL3Q ADDQ ADCQ SHLQ SHRQ ANDQ RET"]
    items = [
        ("carryPropagateGeneric", lambda: K.k_carry(base, chk, K.F + "carryPropagateGeneric")),
        ("carryPropagate", lambda: K.k_carry(base, chk, K.F + "carryPropagate")),
        ("Add", lambda: K.k_add(base, chk)), ("Subtract", lambda: K.k_sub(base, chk)), ("Negate", lambda: K.k_sub(base, chk, True)),
        ("feMulGeneric", lambda: K.k_mul(base, chk, "feMulGeneric")), ("feSquareGeneric", lambda: K.k_mul(base, chk, "feSquareGeneric")),
        ("feMul", lambda: K.k_mul(base, chk, "feMul")), ("feSquare", lambda: K.k_mul(base, chk, "feSquare")),
        ("Mult32", lambda: K.k_mult32(base, chk)), ("reduce", lambda: K.k_reduce(base, chk)),
        ("Invert", lambda: K.k_chain(base, chk, "Invert")), ("Pow22523", lambda: K.k_chain(base, chk, "Pow22523")),
        ("Absolute", lambda: k_absolute(base, chk)), ("constants", lambda: k_constants(base, chk)),
        ("SetBytes", lambda: K.k_setbytes(base, chk)), ("SetWideBytes", lambda: K.k_setwide(base, chk)),
        ("Select/Swap", lambda: K.k_select_swap(base, chk)),
        ("wrappers", lambda: K.k_wrappers(base, chk)),
    ]
    run_kernels(chk, items)
    from sym import validate
    validate.field_kernels(base, chk, 200 if chk.tier == "thorough" else 16)
    # closure of the invariant: the largest output bound of any operation is <= B
    chk.add(Ob("invariant closed: max output bound 2^51+19*2^13-1 (carry chains) and B (Mult32) <= B", "unsat" if 2**51 + 19 * 2**13 - 1 <= K.B else "sat", 0, [], "arithmetic"))
    chk.samples = [o.j() for o in chk.obs if "value" in o.name][:6]


def safety_net(chk):
    from .c11 import alias_battery
    from sym import ptreplay
    return alias_battery(chk.seed) or absolute_battery(chk.seed) or ptreplay.battery_value_history(chk.seed, "element")
