"""C09 - field arithmetic is GF(2^255-19) for every reachable representation."""
import z3, time
from sym import kernels as K, exec as X
from sym.check import Ob
from .common import setup, run_kernels


def k_absolute(base, chk):
    """Absolute = Select(Negate(u), u, IsNegative(u)) executed from SSA (BV, Negate/IsNegative summarised by their contracts)"""
    fname = base.prog.find("Element).Absolute")
    k = K.BVK(base, chk, fname)
    calls = []

    def neg(ex, path, args):
        v, a = args
        limbs = [z3.BitVec("neg.l%d" % i, 64) for i in range(5)]
        calls.append(("Negate", ex.load(path, a)))
        ex.store(path, v, tuple(limbs))
        path.dstate["neg"] = limbs
        return v

    def isneg(ex, path, args):
        (v,) = args
        calls.append(("IsNegative", ex.load(path, v)))
        b = z3.BitVec("isneg", 64)
        path.pc.append(z3.Or(b == 0, b == 1))
        path.dstate["isneg"] = b
        return b
    k.ex.summaries[base.prog.find("Element).Negate")] = neg
    k.ex.summaries[base.prog.find("Element).IsNegative")] = isneg
    u, ul = k.elem("u")
    v, vl = k.elem("v")
    (p,) = k.run([v, u])
    out = k.ex.load(p, v)
    b, ng = p.dstate["isneg"], p.dstate["neg"]
    k.prove(p, "result = -u when u is negative (odd reduced value), u otherwise", z3.And([z3.If(b == 1, out[i] == ng[i], out[i] == ul[i]) for i in range(5)]))
    k.prove(p, "Negate and IsNegative are applied to u itself", all(tuple(map(str, c[1])) == tuple(map(str, ul)) for c in calls) and sorted(c[0] for c in calls) == ["IsNegative", "Negate"])
    k.prove(p, "returns the receiver, argument not written", p.outcome[1][0] == v and not any(w[0] == "w" and w[1] == u.obj for w in p.log))
    # parity lemma: x odd in [1,p-1]  =>  p-x even and in [1,p-1]   (so the selected root is non-negative)
    t0 = time.time()
    x = z3.Int("x")
    s = z3.Solver()
    s.add(x >= 0, x <= K.P - 1, x % 2 == 1, z3.Not(z3.And((K.P - x) % 2 == 0, K.P - x >= 1, K.P - x <= K.P - 1)))
    chk.add(Ob("Absolute: parity lemma (x odd, 0<=x<p => p-x even, in range)", str(s.check()), time.time() - t0, [fname], "LIA"))

    def replay(models, seed):
        from sym import native, ref
        import random
        rng = random.Random(seed)
        cands = ref.limb_candidates(rng, 64)
        res = native.run_ops("field", [{"op": "Absolute", "args": ["v", "u"], "init": {"v": "7,7,7,7,7", "u": ref.fmt_limbs(c)}} for c in cands])
        for c, r in zip(cands, res):
            val = ref.fe_val(c) % K.P
            want = val if val % 2 == 0 else K.P - val
            got = ref.fe_val(ref.parse_limbs(r["slots"]["v"])) % K.P
            if got != want:
                return dict(what="Absolute(%s) = %d, expected %d" % (c, got, want), op="Absolute", inputs=dict(u=c))
        return None
    k.settle(replay)


def k_constants(base, chk):
    """constructor outputs and package constants satisfy the invariant and have the right values"""
    t0 = time.time()
    vals = {n: base.global_val(K.F + n) for n in ("feZero", "feOne", "sqrtM1")}
    s = z3.Solver()
    sq = sum(int(l) << (51 * i) for i, l in enumerate(vals["sqrtM1"]))
    conds = [all(0 <= int(l) <= K.M51 for v in vals.values() for l in v), list(vals["feZero"]) == [0] * 5, list(vals["feOne"]) == [1, 0, 0, 0, 0]]
    chk.fact("constants feZero, feOne, sqrtM1: limbs < 2^51, values 0 and 1", all(conds), [K.F + "init"], "concrete (init executed by the engine)")
    r = z3.Int("r")
    s.add(r == sq, (r * r + 1) % K.P != 0)
    chk.add(Ob("sqrtM1^2 = -1 mod p", str(s.check()), time.time() - t0, [K.F + "init"], "LIA (concrete)"))
    # Zero / One
    for nm, want in (("Zero", [0] * 5), ("One", [1, 0, 0, 0, 0])):
        fname = base.prog.find("Element)." + nm)
        k = K.BVK(base, chk, fname)
        v, vl = k.elem("v")
        (p,) = k.run([v])
        out = k.ex.load(p, v)
        k.prove(p, "sets limbs %s for any prior contents, returns receiver" % want, list(out) == want and p.outcome[1][0] == v)
        k.settle()
    fname = base.prog.find("Element).Set")
    k = K.BVK(base, chk, fname)
    v, vl = k.elem("v")
    a, al = k.elem("a")
    (p,) = k.run([v, a])
    out = k.ex.load(p, v)
    k.prove(p, "copies all five limbs", z3.And([out[i] == al[i] for i in range(5)]))
    k.settle()


def run(chk):
    prog, base = setup(chk)
    chk.bounds = ["all limb vectors with every limb <= B = 2^51+2^38 (closed representation invariant); carryPropagate: any 64-bit limbs; Mult32: any y < 2^32",
                  "Invert/Pow22523: real loop trip counts, 254+11 / 251+11 field calls"]
    chk.outside = ["limb vectors above B (unreachable: every constructor and operation returns limbs <= B given limbs <= B)", "fe_arm64.s (other architecture)",
                   "z^(p-2) = 1/z (Fermat, p prime) is textbook and not decided by the solver"]
    chk.assumptions = ["bits.Mul64/Add64/Sub64 modelled exactly", "Int-LF relaxes products of two symbolic limbs to McCormick-bounded atoms (unsat is sound; sat is replayed)",
                       "amd64 assembly semantics for MOVQ MULQ IMUL3Q ADDQ ADCQ SHLQ SHRQ ANDQ RET"]
    items = [
        ("carryPropagateGeneric", lambda: K.k_carry(base, chk, K.F + "carryPropagateGeneric")),
        ("carryPropagate", lambda: K.k_carry(base, chk, K.F + "carryPropagate")),
        ("Add", lambda: K.k_add(base, chk)), ("Subtract", lambda: K.k_sub(base, chk)), ("Negate", lambda: K.k_sub(base, chk, True)),
        ("feMulGeneric", lambda: K.k_mul(base, chk, "feMulGeneric")), ("feSquareGeneric", lambda: K.k_mul(base, chk, "feSquareGeneric")),
        ("feMul", lambda: K.k_mul(base, chk, "feMul")), ("feSquare", lambda: K.k_mul(base, chk, "feSquare")),
        ("Mult32", lambda: K.k_mult32(base, chk)), ("reduce", lambda: K.k_reduce(base, chk)),
        ("Invert", lambda: K.k_chain(base, chk, "Invert")), ("Pow22523", lambda: K.k_chain(base, chk, "Pow22523")),
        ("Absolute", lambda: k_absolute(base, chk)), ("constants", lambda: k_constants(base, chk)),
        ("SetBytes", lambda: K.k_setbytes(base, chk)), ("SetWideBytes", lambda: K.k_setwide(base, chk)),
        ("Select/Swap", lambda: K.k_select_swap(base, chk)),
        ("wrappers", lambda: K.k_wrappers(base, chk)),
    ]
    run_kernels(chk, items)
    from sym import validate
    validate.field_kernels(base, chk, 200 if chk.tier == "thorough" else 16)
    # closure of the invariant: the largest output bound of any operation is <= B
    chk.add(Ob("invariant closed: max output bound 2^51+19*2^13-1 (carry chains) and B (Mult32) <= B", "unsat" if 2**51 + 19 * 2**13 - 1 <= K.B else "sat", 0, [], "arithmetic"))
    chk.samples = [o.j() for o in chk.obs if "value" in o.name][:6]
