"""API sweep: run every exported function/method once with symbolic arguments in the cheapest adequate
abstraction and return its finished paths + bookkeeping for effects-style checks (C18, C19, C03)."""
import z3
from sym import kernels as K, l1 as L1m, l2 as L2m, exec as X, dom_lf, scalarmode, absmodes, ringmode
from sym.poly import Poly
from sym.absmodes import Abs
from sym.dom_lf import LF, LFCond

E, F = K.E, K.F
PT, ST, ET = "*" + E + "Point", "*" + E + "Scalar", "*" + F + "Element"

GROUP = {"Add", "Subtract", "MultByCofactor", "ScalarMult", "ScalarBaseMult", "VarTimeDoubleScalarBaseMult", "MultiScalarMult", "VarTimeMultiScalarMult", "Set"}
RING_PT = {"Negate", "Equal", "Bytes", "BytesMontgomery", "SetBytes", "SetExtendedCoordinates", "ExtendedCoordinates"}


def api_functions(prog):
    out = []
    for n, f in sorted(prog.funcs.items()):
        if f.get("external") or not f.get("exported"):
            continue
        if n.startswith("(*filippo.io/edwards25519.Point).") or n.startswith("(*filippo.io/edwards25519.Scalar).") or n.startswith("(*filippo.io/edwards25519/field.Element).") \
                or (n.startswith("filippo.io/edwards25519.") and "$" not in n and "(" not in n):
            out.append(n)
    return out


class Run:
    def __init__(self, fname, flavor, ex, paths, args, pre_objs, desc):
        self.fname, self.flavor, self.ex, self.paths, self.args, self.pre_objs, self.desc = fname, flavor, ex, paths, args, pre_objs, desc


def shared_applicable(prog, fname):
    """does the function take two non-receiver arguments (or slice elements) of the same pointer type?"""
    f = prog.fn(fname)
    ps = [p["type"] for p in f["params"]][1 if f["hasrecv"] else 0:]
    return any(t.startswith("[]*") for t in ps) or any(t.startswith("*") and ps.count(t) > 1 for t in ps)


def run_api(base, chk, fname, nslice=2, log_reads=False, leak=False, variant="distinct"):
    """variant 'shared': all non-receiver arguments of one pointer type (and all elements of a pointer slice) are the
    same object - the aliasing among arguments that callers produce by passing one value twice"""
    prog = base.prog
    f = prog.fn(fname)
    short = f["short"]
    cache = {}

    def mk(i, t, make):
        if variant != "shared" or (i == 0 and f["hasrecv"]):
            return make()
        if t not in cache:
            cache[t] = make()
        return cache[t]
    if fname.startswith("(*filippo.io/edwards25519.Point).") and short in GROUP or fname in (E + "NewIdentityPoint", E + "NewGeneratorPoint"):
        h = L2m.L2(base, chk)
        ex = h.ex
        ex.log_reads = log_reads
        path = h.path()
        pre = set(path.heap)
        args = []
        for i, p in enumerate(f["params"]):
            t = p["type"]
            if t == PT:
                args.append(mk(i, t, lambda: h.point(path, "R" if i == 0 else "P%d" % i)))
            elif t == ST:
                args.append(mk(i, t, lambda: h.scalar(path, "k%d" % i)[0]))
            elif t == "[]" + ST:
                args.append(h.ptr_slice(path, [mk(1, ST, lambda: h.scalar(path, "ks%d" % j)[0]) for j in range(nslice)], "Scalar")[0])
            elif t == "[]" + PT:
                args.append(h.ptr_slice(path, [mk(1, PT, lambda: h.point(path, "Q%d" % j)) for j in range(nslice)], "Point")[0])
            else:
                raise X.ExecError("sweep: param type %s of %s" % (t, fname))
        pre2 = set(path.heap)
        paths = ex.call(fname, args, path)
        return Run(fname, "group", ex, paths, args, pre2, "group mode" + (", shared arguments" if variant == "shared" else ""))
    if fname.startswith("(*filippo.io/edwards25519.Scalar).") or fname == E + "NewScalar":
        dom = dom_lf.LFDomain()
        ex = base.executor(dom)
        ex.log_reads = log_reads
        st = scalarmode.install(ex, dom)
        path = X.Path()
        path.heap = {k: X.clone_cells(v) for k, v in ex.base_heap.items()}
        args = []
        for i, p in enumerate(f["params"]):
            t = p["type"]
            if t == ST:
                args.append(mk(i, t, lambda: X.Ptr(ex.new_obj(path, prog.T(E + "Scalar"), name="s%d" % i, init=[scalarmode.SAbs(dom.input("s%d" % i, 0, K.L - 1), False, "mont")]))))
            elif t == "[]byte" or t == "[]uint8":
                n = {"SetUniformBytes": 64}.get(short, 32)
                bs = [dom.input("x[%d]" % j, 0, 255) for j in range(n)]
                oid = ex.new_obj(path, ("array", n + 72, prog.T("uint8")), name="x", init=list(bs) + [0xEE] * 72)
                args.append(X.SliceV(oid, (), 0, n, n + 72))
                if short == "SetCanonicalBytes":
                    path.pc.append(LFCond("<=", K.bval(bs) - (K.L - 1)))
                    ex.summaries[E + "isReduced"] = lambda ex_, p_, a_: True
            else:
                raise X.ExecError("sweep: param type %s of %s" % (t, fname))
        if short in ("Invert", "Equal"):
            cnt = [0]

            def fresh_out(ex_, p_, a_):
                for q in a_[1:]:
                    if isinstance(q, X.Ptr):
                        ex_.load(p_, q)
                cnt[0] += 1
                ex_.store(p_, a_[0], scalarmode.SAbs(dom.input("t%d" % cnt[0], 0, K.L - 1), False, "mont"))
            ex.summaries[E + "fiatScalarMul"] = fresh_out
            ex.summaries[E + "fiatScalarSub"] = fresh_out

            def nonzero(ex_, p_, a_):
                ex_.load(p_, a_[1])
                cnt[0] += 1
                ex_.store(p_, a_[0], dom.input("nz%d" % cnt[0], 0, 2**64 - 1))
            ex.summaries[E + "fiatScalarNonzero"] = nonzero
        pre2 = set(path.heap)
        if short == "Equal":
            return run_scalar_equal_bv(base, chk, fname, log_reads)
        paths = ex.call(fname, args, path)
        return Run(fname, "scalar", ex, paths, args, pre2, "scalar ring mode")
    # ring mode: Element methods and field-level Point methods
    l1 = L1m.L1(base, chk)
    ex, ring = l1.ex, l1.ring
    ex.log_reads = log_reads
    EM = "(*filippo.io/edwards25519/field.Element)."

    def opaque_fn(name, nres=0):
        def s(ex_, path, a):
            for p in a[1:]:
                if isinstance(p, X.Ptr):
                    ring.get(path, p)
            ring.put(path, a[0], Poly.var(ring.fresh(name)))
            if nres:
                b = z3.BitVec(ring.fresh("ws"), 64)
                path.pc.append(z3.Or(b == 0, b == 1))
                return (a[0], b)
            return a[0]
        return s
    if short != "Pow22523":
        ex.summaries[EM + "Pow22523"] = opaque_fn("pow")
    if short != "SqrtRatio":
        ex.summaries[EM + "SqrtRatio"] = opaque_fn("sqrt", 1)
    if short == "SqrtRatio" or short == "Pow22523" or short == "Invert" or short == "Absolute":
        # run the real body on top of the other summaries (Invert: real chain is long but cheap in ring mode? use summary for Invert callee only)
        pass
    if fname == EM + "Invert":
        del ex.summaries[EM + "Invert"]
        ex.summaries[EM + "Multiply"] = opaque_fn("m")
        ex.summaries[EM + "Square"] = opaque_fn("s")
    if fname == EM + "Pow22523":
        ex.summaries[EM + "Multiply"] = opaque_fn("m")
        ex.summaries[EM + "Square"] = opaque_fn("s")
    for nm in ("Equal", "IsNegative", "Bytes", "SetBytes", "Select", "Swap", "Mult32", "Add", "Subtract", "Negate", "Multiply", "Square", "Set", "Zero", "One"):
        if fname == EM + nm:
            # the method under test itself must run from its SSA: use limb-level execution instead
            return run_api_bv(base, chk, fname, log_reads, leak, variant)
    if fname in (EM + "SetWideBytes", EM + "Absolute", EM + "SqrtRatio", EM + "Invert", EM + "Pow22523") or fname.startswith("(*filippo.io/edwards25519.Point)."):
        path = l1.path()
        args = []
        for i, p in enumerate(f["params"]):
            t = p["type"]
            if t == PT:
                args.append(mk(i, t, lambda: l1.obj(path, "Point", [Poly.var("%s%d" % (c, i)) for c in "XYZT"], "p%d" % i)))
            elif t == ET:
                args.append(mk(i, t, lambda: X.Ptr(ex.new_obj(path, prog.T(F + "Element"), name="e%d" % i, init=Abs(Poly.var("e%d" % i), False)))))
            elif t in ("[]byte", "[]uint8"):
                n = 64 if short == "SetWideBytes" else 32
                bs = [z3.BitVec("x[%d]" % j, 8) for j in range(n)]
                oid = ex.new_obj(path, ("array", n + 72, prog.T("uint8")), name="x", init=list(bs) + [0xEE] * 72)
                args.append(X.SliceV(oid, (), 0, n, n + 72))
            else:
                raise X.ExecError("sweep: param type %s of %s" % (t, fname))
        if short == "SetWideBytes":
            return run_api_bv(base, chk, fname, log_reads, leak)
        pre2 = set(path.heap)
        paths = ex.call(fname, args, path)
        return Run(fname, "ring", ex, paths, args, pre2, "ring mode")
    raise X.ExecError("sweep: no harness for " + fname)


def run_api_bv(base, chk, fname, log_reads=False, leak=False, variant="distinct"):
    """limb-level (BV) execution of an Element method with callees Bytes/reduce summarised"""
    prog = base.prog
    f = prog.fn(fname)
    cache = {}
    k = K.BVK(base, chk, fname)
    ex = k.ex
    ex.log_reads = log_reads
    short = f["short"]
    if short in ("Equal", "IsNegative"):
        ex.summaries[prog.find("Element).Bytes")] = K.bytes_summary(k)
    if short in ("Bytes",):
        ex.summaries[prog.find("Element).reduce")] = K.reduce_summary(k)
    if short in ("Multiply", "Square"):
        def mulsum(ex_, path, a):
            for p in a[1:]:
                ex_.load(path, p)
            ex_.store(path, a[0], tuple(z3.BitVec("prod.l%d" % i, 64) for i in range(5)))
        ex.summaries[F + "feMul"] = mulsum
        ex.summaries[F + "feSquare"] = mulsum
    args = []
    for i, p in enumerate(f["params"]):
        t = p["type"]
        if t == ET:
            if variant == "shared" and i > 0:
                if t not in cache:
                    cache[t] = k.elem("e%d" % i)[0]
                args.append(cache[t])
            else:
                args.append(k.elem("e%d" % i)[0])
        elif t in ("[]byte", "[]uint8"):
            n = 64 if short == "SetWideBytes" else 32
            args.append(k.byte_slice("x", n)[0])
        elif t == "int":
            c = k.bv("cond", 64)
            k.path.pc.append(z3.Or(c == 0, c == 1))
            args.append(c)
        elif t == "uint32":
            args.append(k.bv("y", 32))
        else:
            raise X.ExecError("sweep: param type %s of %s" % (t, fname))
    pre2 = set(k.path.heap)
    paths = k.run(args)
    return Run(fname, "bv", ex, paths, args, pre2, "bit-vector limbs")


def run_scalar_equal_bv(base, chk, fname, log_reads=False):
    prog = base.prog
    k = K.BVK(base, chk, fname)
    ex = k.ex
    ex.log_reads = log_reads

    def f_sub(ex_, path, a):
        ex_.load(path, a[1])
        ex_.load(path, a[2])
        ex_.store(path, a[0], tuple(z3.BitVec("diff[%d]" % i, 64) for i in range(4)))
    ex.summaries[E + "fiatScalarSub"] = f_sub
    STy = prog.T(E + "Scalar")
    args = [X.Ptr(ex.new_obj(k.path, STy, init=[[k.bv("%s[%d]" % (n, i), 64) for i in range(4)]])) for n in ("s", "t")]
    pre2 = set(k.path.heap)
    paths = k.run(args)
    return Run(fname, "bv", ex, paths, args, pre2, "bit-vector limbs")
