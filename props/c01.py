"""C01 - scalar multiplication is the exact integer multiple, receiver-independent."""
import time
from sym import kernels as K, l1 as L1m, l2 as L2m, groupmode as GM, exec as X, ptreplay
from sym.dom_lf import LF
from sym.check import Ob
from .common import setup, run_kernels
from .c02 import field_contracts

E = K.E


def recv_obj(h, path, state, alias_target=None):
    if state == "zero":
        return h.point(path, None, "receiver(zero value)")
    if state == "identity":
        oid = h.ex.new_obj(path, h.prog.T(E + "Point"), name="receiver(identity)", init=GM.vec({}))
        return X.Ptr(oid)
    if state == "other":
        return h.point(path, "R", "receiver(arbitrary valid point R)")
    if state == "alias":
        return alias_target
    raise ValueError(state)


def run_one(base, chk, routine, state, n=None, dup=False):
    h = L2m.L2(base, chk)
    prog = base.prog
    path = h.path()
    t0 = time.time()
    label = "%s[receiver=%s%s%s]" % (routine, state, "" if n is None else ",n=%d" % n,
                                     {False: "", True: ",points[0]==points[1]", "k": ",scalars[0]==scalars[%d] (same *Scalar)" % ((n or 1) - 1), "kp": ",scalars[0]==scalars[1] and points[0]==points[1]"}[dup])
    fname = prog.find("Point)." + routine)
    chk.used(prog, fname, "group mode (formulas, recoders and selectors replaced by their contracts)")
    if routine == "ScalarMult":
        x, k = h.scalar(path, "k")
        q = h.point(path, "Q")
        v = recv_obj(h, path, state, q)
        args, want, unw = [v, x, q], {"Q": k}, [x.obj] + ([q.obj] if v != q else [])
    elif routine == "ScalarBaseMult":
        x, k = h.scalar(path, "k")
        v = recv_obj(h, path, state)
        args, want, unw = [v, x], {"B": k}, [x.obj]
    elif routine == "VarTimeDoubleScalarBaseMult":
        a, ka = h.scalar(path, "a")
        b, kb = h.scalar(path, "b")
        q = h.point(path, "A")
        v = recv_obj(h, path, state, q)
        args, want, unw = [v, a, q, b], {"A": ka, "B": kb}, [a.obj, b.obj] + ([q.obj] if v != q else [])
    else:
        sc = [h.scalar(path, "k%d" % i) for i in range(n)]
        pts = [h.point(path, "Q%d" % i) for i in range(n)]
        if dup is True or dup == "kp":
            pts[1] = pts[0]
        if dup == "kp":
            sc[1] = sc[0]
        if dup == "k":
            sc[n - 1] = sc[0]
        ss, so = h.ptr_slice(path, [s[0] for s in sc], "Scalar")
        ps_, po = h.ptr_slice(path, pts, "Point")
        v = recv_obj(h, path, "alias" if state == "alias_last" else state, (pts[-1] if state == "alias_last" else pts[0]) if n else None)
        want = {}
        for i in range(n):
            g = "Q0" if (dup in (True, "kp") and i == 1) else "Q%d" % i
            want[g] = LF.of(want.get(g, 0)) + sc[i][1]
        args = [v, ss, ps_]
        unw = [so, po] + sorted({s[0].obj for s in sc}) + sorted({p.obj for p in pts if p != v})
    paths = h.ex.call(fname, args, path)
    h.check_result(label, fname, paths, v, want, t0, unw)
    chk.extra.setdefault("group_mode_stats", {})[label] = dict(h.grp.stats, merges=h.ex.merges, seconds=round(time.time() - t0, 1))


def run(chk):
    prog, base = setup(chk)
    from .common import state_shape
    state_shape(chk, prog)
    thorough = chk.tier == "thorough"
    maxn = 4 if thorough else 2
    chk.bounds = ["all scalars k_j in [0,l) (symbolic integers), all points (abstract generators of a free abelian group: torsion components and every projective representation are covered by construction)",
                  "term count n in 0..%d for MultiScalarMult / VarTimeMultiScalarMult (larger n outside the claim)" % maxn,
                  "receiver states: zero value, identity, arbitrary valid point R, aliased to an input; duplicate point objects in the slice",
                  "constant-time loops fully unrolled (64 digits); VarTime loops: 256 iterations with symbolic NAF digits, branches merged at the post-dominator with solver-decided equality"]
    chk.outside = ["n > %d" % maxn, "group-law facts (each formula represents the group operation on valid inputs) are the L1 contracts discharged in this run plus the trusted lemmas listed under C02"]
    chk.assumptions = ["Scalar.Bytes = canonical little-endian value < l (C08) inside the recoder contracts", "formulas/conversions summarised as group operations (L1 certificates below)",
                       "signedRadix16 / nonAdjacentForm / SelectInto summarised by contracts R-16 / R-naf / T-sel discharged below from their SSA"]
    items = list(field_contracts(base, chk))
    l1 = L1m.L1(base, chk)
    items += [("L1 lemmas", l1.lemmas), ("L1 internal contracts", lambda: L1m.internal_contracts(l1)), ("completeness", lambda: L1m.completeness(l1)), ("selector primitives", lambda: L1m.selector_contracts(l1))]
    items.append(("R-16", lambda: L2m.r16_contract(base, chk)))
    items.append(("T-sel projLookupTable", lambda: L2m.tsel_ct_contract(base, chk, "projLookupTable")))
    items.append(("T-sel affineLookupTable", lambda: L2m.tsel_ct_contract(base, chk, "affineLookupTable")))
    items.append(("T-sel nafLookupTable5", lambda: L2m.tsel_naf_contract(base, chk, "nafLookupTable5", 8)))
    items.append(("T-sel nafLookupTable8", lambda: L2m.tsel_naf_contract(base, chk, "nafLookupTable8", 64)))
    step = 32
    for w in (5, 8):
        for lo in range(0, 256, step):
            items.append(("R-naf(%d) pos %d..%d" % (w, lo, lo + step - 1), lambda w=w, lo=lo: L2m.naf_contract(base, chk, w, range(lo, lo + step))))
    heavy = []
    for st in ("zero", "other", "alias"):
        heavy.append(("VarTimeDoubleScalarBaseMult " + st, lambda st=st: run_one(base, chk, "VarTimeDoubleScalarBaseMult", st)))
    for n in range(maxn, -1, -1):
        for st in (("zero", "other", "alias") if n else ("zero", "other")):
            heavy.append(("VarTimeMultiScalarMult n=%d %s" % (n, st), lambda n=n, st=st: run_one(base, chk, "VarTimeMultiScalarMult", st, n)))
    if maxn >= 2:
        heavy.append(("VarTimeMultiScalarMult alias_last", lambda: run_one(base, chk, "VarTimeMultiScalarMult", "alias_last", 2)))
        heavy.append(("MultiScalarMult alias_last", lambda: run_one(base, chk, "MultiScalarMult", "alias_last", maxn)))
        heavy.append(("VarTimeMultiScalarMult dup", lambda: run_one(base, chk, "VarTimeMultiScalarMult", "other", 2, True)))
        heavy.append(("MultiScalarMult dup", lambda: run_one(base, chk, "MultiScalarMult", "zero", 2, True)))
        heavy.append(("VarTimeMultiScalarMult dupk", lambda: run_one(base, chk, "VarTimeMultiScalarMult", "other", 2, "k")))
        heavy.append(("VarTimeMultiScalarMult dupkp", lambda: run_one(base, chk, "VarTimeMultiScalarMult", "zero", 2, "kp")))
    light = []
    if maxn >= 2:
        light.append(("MultiScalarMult dupk", lambda: run_one(base, chk, "MultiScalarMult", "other", maxn, "k")))
        light.append(("MultiScalarMult dupkp", lambda: run_one(base, chk, "MultiScalarMult", "zero", 2, "kp")))
    for st in ("zero", "identity", "other", "alias"):
        light.append(("ScalarMult " + st, lambda st=st: run_one(base, chk, "ScalarMult", st)))
    for st in ("zero", "identity", "other"):
        light.append(("ScalarBaseMult " + st, lambda st=st: run_one(base, chk, "ScalarBaseMult", st)))
    for n in range(0, maxn + 1):
        for st in (("zero", "identity", "other", "alias") if n else ("zero", "identity", "other")):
            light.append(("MultiScalarMult n=%d %s" % (n, st), lambda n=n, st=st: run_one(base, chk, "MultiScalarMult", st, n)))
    if thorough:
        for n in (5, 6, 8):
            for st in ("zero", "other"):
                light.append(("MultiScalarMult n=%d %s" % (n, st), lambda n=n, st=st: run_one(base, chk, "MultiScalarMult", st, n)))
        chk.bounds.append("thorough: MultiScalarMult additionally for n in {5, 6, 8} terms")
    run_kernels(chk, heavy + items + light)
    from .common import settle_bounds
    settle_bounds(chk, prog, [prog.find("Point)." + r) for r in ("ScalarMult", "ScalarBaseMult", "VarTimeDoubleScalarBaseMult", "MultiScalarMult", "VarTimeMultiScalarMult")])
    from sym import validate
    validate.scalar_kernels(base, chk, 100 if chk.tier == "thorough" else 8)
    validate.field_kernels(base, chk, 100 if chk.tier == "thorough" else 8)
    # replay failed obligations per routine on the real package
    for routine in ("ScalarMult", "ScalarBaseMult", "VarTimeDoubleScalarBaseMult", "MultiScalarMult", "VarTimeMultiScalarMult"):
        obs = [o for o in chk.obs if o.name.startswith(routine + "[")]
        L1m.settle(chk, obs, lambda routine=routine: ptreplay.battery_scalarmult(chk.seed, which=("P." + routine,), maxn=maxn), "Point." + routine)
    internal = [o for o in chk.obs if (o.mode.startswith("ring mode") or "SelectInto" in o.name) and not o.ok()]
    L1m.settle(chk, internal, lambda: ptreplay.battery_scalarmult(chk.seed, maxn=maxn), "point formulas / selectors (internal)")
    chk.samples = [o.j() for o in chk.obs if "coefficient of" in o.name][:6]


def safety_net(chk):
    return ptreplay.battery_scalarmult(chk.seed, maxn=3) or ptreplay.battery_history_variants(chk.seed)
