"""C04 - point decoding accepts exactly the documented set and yields the right point."""
import time, z3
from sym import kernels as K, l1 as L1m, exec as X, certs, ptreplay, ref, ringmode
from sym.poly import Poly, z3_identity_unsat
from sym.absmodes import Abs
from sym.check import Ob
from .common import setup, run_kernels
from .c02 import field_contracts

E, F = K.E, K.F
EM = "(*filippo.io/edwards25519/field.Element)."


def decode_battery(seed):
    import random
    from sym import native
    rng = random.Random(seed)
    P = ref.P
    encs = []
    pts = ptreplay.bank(rng, 16)
    for p in pts:
        e = bytearray(ref.ed_encode(p))
        encs.append(bytes(e))
        e2 = bytearray(e)
        e2[31] ^= 0x80            # flipped sign bit
        encs.append(bytes(e2))
    for y in list(range(0, 20)) + [P - 1, P - 2]:
        for hi in (0, 1):
            for add in (0, P):
                v = y + add
                if v < 2**255:
                    encs.append((v | (hi << 255)).to_bytes(32, "little"))
    # points whose x-coordinate (or its negation) has structured 51-bit limbs: all-zero / all-ones limbs, l0 next to 0 or to
    # 2^51-19 ... - the decoder's sign handling and final reductions see exactly these limb patterns in the root it
    # computes; both sign bits each (x and -x share y)
    M = 2**51 - 1
    xs = []
    for zero_at in ((1,), (2,), (3,), (1, 2), (2, 3), (1, 2, 3), (4,), (0,), (0, 1)):
        for fill in ("rand", "ones"):
            for l0 in (None, 0, 1, 2**51 - 19, 2**51 - 18, 2**51 - 1, 17, 18, 19):
                limbs = [(M if fill == "ones" else rng.randrange(2**51)) for _ in range(5)]
                for i in zero_at:
                    limbs[i] = 0
                if l0 is not None and 0 not in zero_at:
                    limbs[0] = l0
                xs.append(sum(l << (51 * i) for i, l in enumerate(limbs)) % P)
    seen = 0
    for x in xs:
        # y^2 = (1 + x^2) / (1 - d x^2)
        y2 = (1 + x * x) * ref.inv(1 - ref.D * x * x) % P
        y = ref.sqrt(y2)
        if y is None or not x:
            continue
        seen += 1
        for xx in (x, P - x):
            encs.append(ref.ed_encode((xx, y)))
        if seen >= 48:
            break
    for _ in range(60):
        encs.append(bytes(rng.randrange(256) for _ in range(32)))
    for l in (0, 1, 31, 33, 64):
        encs.append(bytes([1] + [0] * (l - 1)) if l else b"")
    prior = ptreplay.mk_point(ref.BASE, rng)
    ops = [{"op": "P.SetBytes", "args": ["v", "x"], "init": {"v": prior, "x": "hex:" + e.hex()}} for e in encs]
    res = native.run_ops("", ops)
    for e, r in zip(encs, res):
        if "panic" in r:
            return dict(what="SetBytes(%s) panics: %s" % (e.hex(), r["panic"]), op="P.SetBytes", inputs=dict(x=e.hex()))
        want = ref.ed_decode(e)
        if r["slots"]["x"] != "hex:" + e.hex():
            return dict(what="SetBytes modified its input", op="P.SetBytes", inputs=dict(x=e.hex()))
        if want is None:
            if not r.get("err") or not r.get("retnil") or r["slots"]["v"] != prior:
                return dict(what="SetBytes(%s) must be rejected atomically; got err=%s" % (e.hex(), r.get("err")), op="P.SetBytes", inputs=dict(x=e.hex()))
        else:
            if r.get("err") or not r.get("ret_is_recv"):
                return dict(what="SetBytes(%s) rejected, expected %s" % (e.hex(), want), op="P.SetBytes", inputs=dict(x=e.hex()))
            got = ptreplay.affine_of(r["slots"]["v"])
            if got != want:
                return dict(what="SetBytes(%s) = %s, expected %s" % (e.hex(), got, want), op="P.SetBytes", inputs=dict(x=e.hex()))
    return None


def k_setbytes(l1):
    chk, prog, d = l1.chk, l1.prog, l1.d
    fname = prog.find("Point).SetBytes")
    chk.used(prog, fname, "ring mode (Element.SetBytes -> decoded-value symbol, SqrtRatio -> its C16 contract)")
    ring, ex = l1.ring, l1.ex
    calls = []

    def sqrt_ratio(ex_, path, a):
        r_, u_, v_ = a
        up, vp = ring.get(path, u_), ring.get(path, v_)
        ws = path.dstate.get("ws")
        if ws is None:
            b = z3.Bool("wasSquare")
            raise X.ForkRequest(b, refine=lambda p, br: p.dstate.__setitem__("ws", 1 if br else 0))
        name = ring.fresh("root")
        calls.append((up, vp, name, ws))
        path.dstate.setdefault("hyp", []).append(("sqrtratio", up, vp, name, ws))
        ring.put(path, r_, Poly.var(name))
        return (r_, ws)
    ex.summaries[EM + "SqrtRatio"] = sqrt_ratio
    path = l1.path()
    bs = [z3.BitVec("x[%d]" % i, 8) for i in range(32)]
    boid = ex.new_obj(path, ("array", 72, prog.T("uint8")), name="x", init=list(bs) + [0xEE] * 40)
    v = l1.junk_obj(path, "Point", "R")
    paths = ex.call(fname, [v, X.SliceV(boid, (), 0, 32, 72)], path)
    bad = [p for p in paths if p.outcome[0] != "ret"]
    chk.add(Ob("Point.SetBytes: never panics on 32 bytes (%d paths)" % len(paths), "unsat" if not bad else "sat", 0, [fname], "ring mode"))
    acc = [p for p in paths if p.outcome[0] == "ret" and p.outcome[1][1] is None]
    rej = [p for p in paths if p.outcome[0] == "ret" and p.outcome[1][1] is not None]
    chk.add(Ob("Point.SetBytes: 2 accepting paths (sign bit 0/1) and 1 rejecting path", "unsat" if len(acc) == 2 and len(rej) == 1 else "sat", 0, [fname], "structure"))
    for i, p in enumerate(paths):
        if p.outcome[0] != "ret":
            continue
        hy = p.dstate.get("hyp", [])
        dec = [h for h in hy if h[0] == "setbytes"]
        sr = [h for h in hy if h[0] == "sqrtratio"]
        ok = len(dec) == 1 and len(sr) == 1 and [str(b) for b in dec[0][1]] == [str(b) for b in bs]
        chk.add(Ob("Point.SetBytes [path %d]: y = field decoding of the 32 input bytes (low 255 bits); one SqrtRatio call" % i, "unsat" if ok else "sat", 0, [fname], "structure"))
        if not ok:
            continue
        y = Poly.var(dec[0][2])
        up, vp, root, ws = sr[0][1:]
        l1.goal("Point.SetBytes [path %d]" % i, "SqrtRatio numerator u = y^2 - 1", up - (y * y - 1), [], [], fname)
        l1.goal("Point.SetBytes [path %d]" % i, "SqrtRatio denominator v = d*y^2 + 1", vp - (d * y * y + 1), [], [], fname)
        accepted = p.outcome[1][1] is None
        chk.add(Ob("Point.SetBytes [path %d]: accepted iff SqrtRatio reports a square (wasSquare=%d)" % (i, ws), "unsat" if accepted == (ws == 1) else "sat", 0, [fname], "structure"))
        if accepted:
            s = Poly.var(root)
            g = vp * s * s - up          # contract of SqrtRatio on wasSquare=1: v*r^2 = u, r non-negative
            out = l1.read(p, v, "Point")
            X3, Y3, Z3, T3 = out
            st = [([g], [root, dec[0][2], "d"])]
            l1.goal("Point.SetBytes [path %d]" % i, "output on the curve: -X^2+Y^2 = Z^2+d*T^2 (given v*r^2 = u)", -(X3 ** 2) + Y3 ** 2 - Z3 ** 2 - d * T3 ** 2, st, [], fname)
            l1.goal("Point.SetBytes [path %d]" % i, "output satisfies XY = ZT, Z = 1, Y = y", (X3 * Y3 - Z3 * T3) ** 2 + (Z3 - 1) ** 2 + (Y3 - y) ** 2, [], [], fname)
            # sign: x = -r if bit 255 set else r
            sol = z3.Solver()
            for c in p.pc:
                sol.add(c)
            bit = z3.Extract(7, 7, bs[31])
            sol.push()
            sol.add(bit == 1)
            neg_feasible = sol.check() == z3.sat
            sol.pop()
            want = -s if neg_feasible else s
            sol.add(bit == (0 if neg_feasible else 1))
            other = sol.check()
            chk.add(Ob("Point.SetBytes [path %d]: this path is taken exactly for sign bit %d" % (i, 1 if neg_feasible else 0), "unsat" if str(other) == "unsat" else "sat", 0, [fname], "BV"))
            l1.goal("Point.SetBytes [path %d]" % i, "x = %s (r = the non-negative root)" % ("-r" if neg_feasible else "r"), X3 - want, [], [], fname)
            chk.add(Ob("Point.SetBytes [path %d]: returns (receiver, nil); input not written" % i, "unsat" if p.outcome[1][0] == v and not any(w[0] == "w" and w[1] == boid for w in p.log) else "sat", 0, [fname], "effects"))
        else:
            chk.add(Ob("Point.SetBytes [path %d]: reject returns (nil, error); receiver and input not written" % i,
                       "unsat" if p.outcome[1][0] is None and not any(w[0] == "w" and w[1] in (v.obj, boid) for w in p.log) else "sat", 0, [fname], "effects"))
    # arithmetic facts (z3 / concrete)
    t0 = time.time()
    x = z3.Int("x")
    so = z3.Solver()
    so.add(x >= 1, x <= K.P - 1, x % 2 == 0, z3.Not((K.P - x) % 2 == 1))
    chk.add(Ob("Point.SetBytes: parity lemma: r even, 0 < r < p  =>  -r mod p is odd (sign bit selects the parity; r = 0 stays 0 for either bit)", str(so.check()), time.time() - t0, [fname], "LIA"))
    dv = l1.base.global_val(E + "d")
    dval = sum(int(l) << (51 * k) for k, l in enumerate(dv)) % K.P
    chk.fact("Point.SetBytes: -1/d is a non-square, so d*y^2 + 1 != 0 for every y (the v = 0 branch of SqrtRatio cannot occur)", pow((-ref.inv(dval)) % K.P, (K.P - 1) // 2, K.P) == K.P - 1, [E + "init"], "concrete")


def run(chk):
    prog, base = setup(chk)
    from .common import state_shape
    state_shape(chk, prog)
    chk.bounds = ["all 2^256 strings of length 32 (symbolic bytes); every other length via one symbolic length"]
    chk.outside = ["'y is the y-coordinate of a curve point' <=> (y^2-1)/(d*y^2+1) is a square: definition of the curve, d*y^2+1 != 0 by the concrete Euler criterion"]
    chk.assumptions = ["SqrtRatio replaced by its C16 contract inside Point.SetBytes; the contract itself (exponent chain, field kernels and the case logic of the real body) is re-discharged in this run",
                       "Element.SetBytes = low 255 bits (C10 contract re-discharged here)"]
    items = list(field_contracts(base, chk))
    items += [("SetBytes(field)", lambda: K.k_setbytes(base, chk)), ("Select/Swap", lambda: K.k_select_swap(base, chk)), ("Pow22523", lambda: K.k_chain(base, chk, "Pow22523"))]
    l1 = L1m.L1(base, chk)
    PT = prog.T(E + "Point")
    items += [("Point.SetBytes", lambda: k_setbytes(l1)),
              ("len", lambda: K.k_len_reject(base, chk, prog.find("Point).SetBytes"), 32, PT, "Point.SetBytes"))]
    # the SqrtRatio contract that Point.SetBytes is analysed against is discharged in this run as well (case analysis of the
    # real body, as in C16), so that this check stands on its own
    from . import c16
    from .c09 import k_absolute
    items += c16.sqrt_case_items(base, chk) + [("Equal/IsNegative", lambda: K.k_equal_isneg(base, chk)), ("reduce", lambda: K.k_reduce(base, chk)), ("Bytes", lambda: K.k_bytes(base, chk)),
                                                ("Absolute", lambda: k_absolute(base, chk))]
    run_kernels(chk, items)
    c16.sqrt_settle(chk)
    L1m.settle(chk, [o for o in chk.obs if o.name.startswith("Point.SetBytes")], lambda: decode_battery(chk.seed), "Point.SetBytes")
    chk.samples = [o.j() for o in chk.obs if o.name.startswith("Point.SetBytes")][:6]


def safety_net(chk):
    from sym import ptreplay
    return decode_battery(chk.seed) or ptreplay.battery_decode_history(chk.seed) or ptreplay.battery_receiver_history(chk.seed)
