"""C20 - optimised (amd64 assembly) and portable field implementations agree."""
import json, time
from sym import kernels as K, ir, asm
from sym.check import Ob
from .common import setup, run_kernels


def strip(f):
    """function SSA without source positions (for cross-configuration comparison)"""
    def clean(x):
        if isinstance(x, dict):
            return {k: clean(v) for k, v in x.items() if k not in ("pos", "_fn")}
        if isinstance(x, list):
            return [clean(v) for v in x]
        return x
    return clean(f)


def run(chk):
    chk.level = "translation_validation"
    prog, base = setup(chk)
    from .common import state_shape
    state_shape(chk, prog)
    chk.bounds = ["all limb vectors with every limb <= 2^51+2^38 (the closed representation invariant of C09), both operands", "both build configurations {default amd64+gc, purego}"]
    chk.outside = ["arm64 assembly (fe_arm64.s: carryPropagate) - not the configuration of this sandbox", "limb vectors above the invariant (unreachable, C09)"]
    chk.assumptions = ["amd64 semantics of MOVQ MULQ IMUL3Q ADDQ ADCQ SUBQ SBBQ SHLQ(2/3 operands) SHRQ ANDQ ORQ XORQ NOTQ NEGQ INCQ DECQ CMPQ, counted loops (JNZ...) and RET as implemented in sym/asm.py", "Int-LF encoding (products of input limbs are shared atoms on both sides)"]
    if not base.has_asm:
        chk.note_inconclusive("default configuration has no assembly feMul (unexpected on amd64)")
        return
    items = [
        ("feMul vs feMulGeneric", lambda: K.k_mul_equiv(base, chk, False)),
        ("feSquare vs feSquareGeneric", lambda: K.k_mul_equiv(base, chk, True)),
        ("feMul", lambda: K.k_mul(base, chk, "feMul")), ("feSquare", lambda: K.k_mul(base, chk, "feSquare")),
        ("feMulGeneric", lambda: K.k_mul(base, chk, "feMulGeneric")), ("feSquareGeneric", lambda: K.k_mul(base, chk, "feSquareGeneric")),
    ]
    run_kernels(chk, items)
    from sym import validate
    validate.field_kernels(base, chk, 400 if chk.tier == "thorough" else 24)
    # shape of the assembly: straight-line, memory only through the pointer arguments at constant offsets
    for name, fn in base.asm_funcs.items():
        probs = asm.static_checks(fn, fn.get("int_args", ()))
        chk.fact("fe_amd64.s %s: straight-line subset, memory operands = constant offsets from pointer arguments (%d instructions)" % (name, len(fn["ins"])),
                 not probs, [K.F + name], detail="; ".join(probs[:3]))
    # aliasing: out==a, out==b, a==b, all three (loads/stores modelled in program order)
    run_kernels(chk, [("feMul alias " + pat, lambda pat=pat: k_alias(base, chk, pat)) for pat in ("out=a", "out=b", "a=b", "out=a=b")] + [("feSquare alias", lambda: k_alias_sq(base, chk))])
    # configuration diff
    t0 = time.time()
    prog2 = ir.load("purego")
    f1 = {p["path"]: sorted(f["file"] for f in p["files"]) for p in prog.doc["packages"]}
    f2 = {p["path"]: sorted(f["file"] for f in p["files"]) for p in prog2.doc["packages"]}
    fp = "filippo.io/edwards25519/field"
    d1 = sorted(set(f1[fp]) - set(f2[fp]))
    d2 = sorted(set(f2[fp]) - set(f1[fp]))
    same_root = f1["filippo.io/edwards25519"] == f2["filippo.io/edwards25519"]
    ok = d1 == ["fe_amd64.go", "fe_amd64.s"] and d2 == ["fe_amd64_noasm.go"] and same_root
    if ok:
        chk.fact("build configurations differ exactly in fe_amd64.go+fe_amd64.s vs fe_amd64_noasm.go", ok, [], "configuration", detail="default-only %s, purego-only %s" % (d1, d2))
    else:
        # a different split of the sources between the configurations is not a defect by itself: what matters is that every
        # function that differs is equivalent in both (decided below, function by function)
        chk.extra["configuration_files"] = dict(default_only=d1, purego_only=d2, root_same=same_root)
    hashes1 = {f["file"]: f["sha256"] for p in prog.doc["packages"] for f in p["files"]}
    hashes2 = {f["file"]: f["sha256"] for p in prog2.doc["packages"] for f in p["files"]}
    same = all(hashes1[f] == hashes2[f] for f in hashes1 if f in hashes2)
    chk.fact("all shared source files are byte-identical in both configurations", same, [], "configuration")
    diff = []
    ours = [n for n, f in prog.funcs.items() if f.get("pkg", "").startswith("filippo.io/edwards25519")]
    for n in ours:
        f = prog.funcs[n]
        if n in (K.F + "feMul", K.F + "feSquare"):
            continue
        g = prog2.funcs.get(n)
        if g is None or strip(f) != strip(g):
            diff.append(n)
    extra = [n for n, f in prog2.funcs.items() if n not in prog.funcs and f.get("pkg", "").startswith("filippo.io/edwards25519")]
    if not diff and not extra:
        chk.fact("SSA of every other function (%d) is identical under default and purego" % (len(ours) - 2), True, [], "configuration", seconds=time.time() - t0)
    else:
        chk.extra["configuration_dependent_functions"] = diff + extra
        base2_ = K.Base(prog2)
        for n in diff:
            if n in prog2.funcs:
                config_equiv(base, base2_, chk, n)
            else:
                chk.soft("%s exists only in the default configuration and is not reached from the portable code" % n.split(".")[-1], n not in _reach(prog2), [n], "configuration")
        for n in extra:
            # only in purego: covered if it is reached from a function that was proved equivalent (executed inline there)
            chk.extra.setdefault("purego_only_functions", []).append(n)
    # a 32-bit target selects the portable code as well (no purego tag needed) but with 32-bit int/uint: the SSA of every
    # function must not depend on that (e.g. through math.MaxUint, bits.UintSize, constants typed uint)
    t0 = time.time()
    try:
        prog3 = ir.load(goarch="386")
        diff3 = [n for n in ours if n not in (K.F + "feMul", K.F + "feSquare") and (n not in prog3.funcs or strip(prog2.funcs[n]) != strip(prog3.funcs[n]))]
        ob3 = chk.soft("SSA of every function is identical for GOARCH=386 (32-bit int) and the purego build on amd64: no platform-width dependent constants or code", not diff3, [], "configuration", detail=str(diff3[:5]))
        ob3.seconds = time.time() - t0
        if diff3:
            hit = config_battery(chk.seed, goarch="386")
            if hit:
                ob3.verdict = "violated"
                chk.violation("GOARCH=386", hit["what"], hit)
    except Exception as e:
        chk.note_inconclusive("GOARCH=386 configuration could not be loaded: %r" % (e,))
    from .common import platform_independence
    platform_independence(chk, prog)
    # purego feMul/feSquare are the portable routines (checked by executing the wrappers)
    base2 = K.Base(prog2)
    chk.extra["config_purego"] = {"field_mul": "portable Go (wrappers call feMulGeneric/feSquareGeneric)"}
    run_kernels(chk, [("purego feMul", lambda: k_purego(base2, chk, "feMul")), ("purego feSquare", lambda: k_purego(base2, chk, "feSquare"))])
    chk.extra["programs"] = 4
    chk.extra["disagreements_checked"] = sum(1 for o in chk.obs if "identical" in o.name)
    chk.samples = [o.j() for o in chk.obs if "identical" in o.name][:5]


def config_battery(seed, n=40, goarch=""):
    """native differential battery = the statement of C20 itself on concrete inputs: every multiplication-based public
    operation of the field package, in every aliasing pattern of receiver and operands, gives limb-identical results
    in the default (assembly) and purego builds and agrees with the big-integer product; plus feMul vs feMulGeneric /
    feSquare vs feSquareGeneric called directly in the default build."""
    from sym import native, ref
    import random
    rng = random.Random(seed)
    pool = ref.limb_candidates(rng, n)
    # limbs whose low / high 32-bit halves are all ones or zero (word-split multiplications on 32-bit targets)
    for hi in (0, 0x7ffff, 0x3ffff, rng.randrange(1 << 19)):
        for lo in (0xffffffff, 0xfffffffe, 0x80000000, 0):
            pool.append([(hi << 32) | lo] * 5)
            pool.append([(hi << 32) | lo, rng.randrange(1 << 51), (hi << 32) | lo, rng.randrange(1 << 51), (hi << 32) | lo])
    ops, meta = [], []

    def add(op, args, init, want=None):
        ops.append({"op": op, "args": args, "init": init})
        meta.append((op, args, init, want))
    for i, a in enumerate(pool):
        b = pool[(i * 7 + 3) % len(pool)]
        junk = pool[(i * 5 + 1) % len(pool)]
        A, Bv, J = ref.fmt_limbs(a), ref.fmt_limbs(b), ref.fmt_limbs(junk)
        va, vb = ref.fe_val(a), ref.fe_val(b)
        for fn in ("Multiply", "feMul", "feMulGeneric"):
            add(fn, ["v", "a", "b"], {"v": J, "a": A, "b": Bv}, va * vb)
            add(fn, ["a", "a", "b"], {"a": A, "b": Bv}, va * vb)
            add(fn, ["b", "a", "b"], {"a": A, "b": Bv}, va * vb)
            add(fn, ["v", "a", "a"], {"v": J, "a": A}, va * va)       # same operand twice, receiver holds something else
            add(fn, ["a", "a", "a"], {"a": A}, va * va)
        for fn in ("Square", "feSquare", "feSquareGeneric"):
            add(fn, ["v", "a"], {"v": J, "a": A}, va * va)
            add(fn, ["a", "a"], {"a": A}, va * va)
        for y32 in (0xffffffff, 0x80000000, 121666, 0xfffffffe, rng.randrange(2**32)):
            add("Mult32", ["v", "a", str(y32)], {"v": J, "a": A}, va * y32)
        if i < 12:
            add("Invert", ["v", "a"], {"v": J, "a": A}, pow(va, ref.P - 2, ref.P))
            add("Invert", ["a", "a"], {"a": A}, pow(va, ref.P - 2, ref.P))
            add("Pow22523", ["v", "a"], {"v": J, "a": A}, pow(va, (ref.P - 5) // 8, ref.P))
            add("SqrtRatio", ["v", "a", "b"], {"v": J, "a": A, "b": Bv})
            add("SqrtRatio", ["v", "a", "a"], {"v": J, "a": A})
            add("SqrtRatio", ["a", "a", "b"], {"a": A, "b": Bv})
    r1 = native.run_ops("field", ops)
    r2 = native.run_ops("field", ops, tags="purego") if not goarch else native.run_ops("field", ops, goarch=goarch)
    for (op, args, init, want), x, y in zip(meta, r1, r2):
        if "panic" in x or "panic" in y:
            return dict(what="%s%s panics: %s" % (op, args, x.get("panic") or y.get("panic")), op=op, args=args, init=init)
        if x["slots"] != y["slots"] or x.get("int") != y.get("int"):
            return dict(what="%s(%s): default and %s builds disagree: %s vs %s" % (op, ",".join(args), ("GOARCH=" + goarch) if goarch else "purego", x["slots"].get(args[0]), y["slots"].get(args[0])), op=op, args=args, init=init)
        if want is not None:
            got = ref.fe_val(ref.parse_limbs(x["slots"][args[0]])) % ref.P
            if got != want % ref.P:
                return dict(what="%s(%s) = %d, expected %d (mod p), both builds" % (op, ",".join(args), got, want % ref.P), op=op, args=args, init=init)
        for nm, v in init.items():
            if nm != args[0] and x["slots"].get(nm) != v.replace(" ", ""):
                pass
    # feMul vs feMulGeneric in the same build (limb identity is what the kernels prove; values are what the property states)
    byk = {}
    for (op, args, init, want), x in zip(meta, r1):
        byk.setdefault((tuple(args), json.dumps(init, sort_keys=True)), {})[op] = x["slots"][args[0]]
    for key, d in byk.items():
        for f, g in (("feMul", "feMulGeneric"), ("feSquare", "feSquareGeneric")):
            if f in d and g in d and ref.fe_val(ref.parse_limbs(d[f])) % ref.P != ref.fe_val(ref.parse_limbs(d[g])) % ref.P:
                return dict(what="%s and %s disagree for arguments %s: %s vs %s" % (f, g, key[0], d[f], d[g]), op=f, args=list(key[0]), init=json.loads(key[1]))
    return None


def safety_net(chk):
    return config_battery(chk.seed)


def _reach(prog):
    seen, work = set(), [n for n, f in prog.funcs.items() if f.get("exported") and f.get("pkg", "").startswith("filippo.io/edwards25519")]
    while work:
        x = work.pop()
        if x in seen:
            continue
        seen.add(x)
        fx = prog.funcs.get(x)
        if not fx or fx.get("external"):
            continue
        for b in fx["blocks"]:
            for ins in b["instrs"]:
                if ins["op"] == "Call" and ins["call"]["mode"] == "static":
                    work.append(ins["call"]["fn"])
    return seen


def config_equiv(base, base2, chk, fname):
    """a function whose body differs between the default and the purego configuration (beyond feMul / feSquare): both
    bodies are executed in Int-LF on the same symbolic arguments (Element limbs within the invariant; int parameters
    over a few small values) and must store the same field values, within the invariant, into every Element argument"""
    from sym import dom_lf, exec as X
    from sym.dom_lf import LF
    prog, prog2 = base.prog, base2.prog
    f = prog.fn(fname)
    short = fname.split(".")[-1]
    ET = "*" + K.F + "Element"
    ints = [i for i, p_ in enumerate(f["params"]) if prog.T(p_["type"]).u.k == "basic" and prog.T(p_["type"]).is_int()]
    if any(p_["type"] != ET and i not in ints for i, p_ in enumerate(f["params"])) or f["results"]:
        chk.soft("%s differs between the configurations and has a signature the equivalence harness covers" % short, False, [fname], "configuration")
        return
    import itertools
    bad_models = []
    for ivals in itertools.product(*[(1, 2, 3) for _ in ints]):
        dom = dom_lf.LFDomain()
        dom.share_memo = True
        exs = [base.executor(dom), base2.executor(dom)]
        limbs = {}
        outs = []
        for ci, ex in enumerate(exs):
            pth = X.Path()
            pth.heap = {k_: X.clone_cells(v_) for k_, v_ in ex.base_heap.items()}
            args = []
            it = iter(ivals)
            for i, p_ in enumerate(f["params"]):
                if i in ints:
                    args.append(next(it))
                else:
                    if i not in limbs:
                        limbs[i] = [dom.input("arg%d.l%d" % (i, j), 0, K.B) for j in range(5)]
                    args.append(X.Ptr(ex.new_obj(pth, ex.prog.T(K.F + "Element"), name="arg%d" % i, init=list(limbs[i]))))
            if ex.prog.fn(fname).get("external") and fname in ex.summaries:
                # no Go body in this configuration: the assembly routine, run by the assembly interpreter
                try:
                    ex.summaries[fname](ex, pth, args)
                    pth.outcome = ("ret", ())
                except X.ExecError as e_:
                    pth.outcome = ("error", "assembly: %s" % e_)
                paths = [pth]
                chk.functions[fname] = {"mode": "Int-LF (amd64 assembly interpreter) vs the portable body"}
            else:
                paths = ex.call(fname, args, pth)
            if len(paths) != 1 or paths[0].outcome[0] != "ret":
                chk.add(Ob("%s [%s, ints %s]: followed to its return" % (short, ("default", "purego")[ci], ivals), "error:%s" % ([q.outcome for q in paths][:1],), 0, [fname], "Int-LF"))
                return
            outs.append([paths[0].heap[a.obj][0] for a in args if isinstance(a, X.Ptr)])
            last = paths[0]
        for ai, (o1, o2) in enumerate(zip(*outs)):
            t0 = time.time()
            r = dom.prove_congr(last, K.fval(o1), K.fval(o2), K.P, "config-equiv")
            ob = chk.add(Ob("%s [ints %s]: Element argument #%d holds the same field value after the call in both configurations" % (short, ivals, ai), r, time.time() - t0, [fname], "Int-LF (default vs purego bodies, shared input atoms)"))
            for j in range(5):
                for o_, nm in ((o1, "default"), (o2, "purego")):
                    rb = dom.prove_le(last, o_[j], K.B, "config-equiv bound")
                    if rb != "unsat":
                        chk.add(Ob("%s [ints %s]: %s output limb %d of argument #%d within the invariant" % (short, ivals, nm, j, ai), rb, 0, [fname], "Int-LF"))
            if r != "unsat":
                bad_models.append(ivals)
    if bad_models:
        hit = config_fn_battery(chk, fname, f, bad_models)
        for o in chk.obs:
            if o.name.startswith(short + " [ints") and not o.ok():
                o.verdict = "violated" if hit else "sat-unreplayed"
        if hit:
            chk.violation("configuration:" + short, hit["what"], hit)


def config_fn_battery(chk, fname, f, ivals_list):
    """native differential replay of one unexported field function in both configurations: a generated test calls it on
    structured limb vectors and prints the results; the two outputs must be value-equal"""
    from sym import native, ref
    import random
    rng = random.Random(chk.seed)
    short = fname.split(".")[-1]
    prog = chk._prog
    nel = sum(1 for p_ in f["params"] if p_["type"].endswith("field.Element"))
    cands = ref.limb_candidates(rng, 60) + [ref.limbs_of(x) for x in ref.chain_preimages(rng, 120)]
    # limb vectors aimed at carry chains: limbs just below / at 2^51 and zero limbs in every position
    M = 2**51 - 1
    for i in range(5):
        for a_ in (M, M - 1, 0, 1):
            v = [rng.randrange(2**51) for _ in range(5)]
            v[i] = a_
            if i + 1 < 5:
                v[i + 1] = rng.choice([M, 0, rng.randrange(2**51)])
            cands.append(v)
    lines = []
    for iv in sorted(set(ivals_list) | {(1,) * len(ivals_list[0])}):
        for c in cands:
            lines.append((iv, c))
    body = []
    for k_, (iv, c) in enumerate(lines[:1500]):
        args = []
        it = iter(iv)
        ei = 0
        for p_ in f["params"]:
            if p_["type"].endswith("field.Element"):
                args.append("&e[%d]" % ei)
                ei += 1
            else:
                args.append(str(next(it)))
        init = "".join("e[%d] = Element{%s}; " % (j, ",".join(str(x) for x in (c if j else [7, 7, 7, 7, 7]))) for j in range(nel)) if nel > 1 else "e[0] = Element{%s}; " % ",".join(str(x) for x in c)
        body.append("{ %s%s(%s); for j := 0; j < %d; j++ { fmt.Printf(\"R %d %%d %%d,%%d,%%d,%%d,%%d\\n\", j, e[j].l0, e[j].l1, e[j].l2, e[j].l3, e[j].l4) } }" % (init, short, ", ".join(args), nel, k_))
    code = "package field\nimport (\"fmt\"; \"testing\")\nfunc TestVerif(t *testing.T) {\n var e [%d]Element\n%s\n}\n" % (max(nel, 1), "\n".join(body))
    outs = []
    for tags in ("", "purego"):
        rc, out = native.go_test(code, pkg="field", tags=tags)
        if rc != 0:
            return None
        outs.append({tuple(l.split()[1:3]): [int(x) for x in l.split()[3].split(",")] for l in out.splitlines() if l.startswith("R ")})
    for key in outs[0]:
        a_, b_ = outs[0][key], outs[1].get(key)
        if b_ is None or ref.fe_val(a_) % ref.P != ref.fe_val(b_) % ref.P:
            iv, c = lines[int(key[0])]
            return dict(what="%s(ints %s) on limbs %s: default build stores %s, purego build stores %s (different field values)" % (short, iv, c, a_, b_), op=short, inputs=dict(limbs=c, ints=list(iv)))
    return None


def k_purego(base2, chk, which):
    k, p, out, al, bl = K.k_mul(base2, chk, which)
    k.label = "purego " + which


def _limb_identity_optional(chk, k, n0, p, r1, r2, what):
    """limb identity of the two routines is sufficient, not necessary (the property asks for equal values within the
    bounds): if it is not established, the limb goals are withdrawn and the weaker statement is proved instead"""
    limb_obs = chk.obs[n0:]
    if all(o.ok() for o in limb_obs):
        return
    for o in limb_obs:
        chk.obs.remove(o)
        if o in k.sat_obs:
            k.sat_obs.remove(o)
    chk.extra.setdefault("limb_identity_not_established", []).append("%s: %s" % (what, [o.verdict for o in limb_obs]))
    k.goal(p, "congr", "same value mod p in both routines (limb identity not established)", K.fval(r1), K.fval(r2), K.P)
    for i in range(5):
        k.goal(p, "le", "asm out.l%d within the invariant" % i, r1[i], K.B)
        k.goal(p, "le", "portable out.l%d within the invariant" % i, r2[i], K.B)


def k_alias(base, chk, pat):
    """assembly feMul with aliased operands equals the portable routine with the same aliasing"""
    from sym import exec as X
    k = K.LFK(base, chk, K.F + "feMul", label="feMul[%s] asm vs generic" % pat)
    k.dom.share_memo = True
    a, al = k.elem("a")
    b, bl = k.elem("b")
    o, _ = k.out_elem("out")
    if pat == "out=a":
        A = (a, a, b)
    elif pat == "out=b":
        A = (b, a, b)
    elif pat == "a=b":
        A = (o, a, a)
    else:
        A = (a, a, a)
    p1 = k.path.clone()
    k.ex.summaries[K.F + "feMul"](k.ex, p1, list(A))
    r1 = k.ex.load(p1, A[0])
    p2 = k.path.clone()
    (p2,) = k.ex.call(K.F + "feMulGeneric", list(A), p2)
    r2 = k.ex.load(p2, A[0])
    # both runs share the input atoms; the solver context is the union (paths carry only input assumptions)
    n0 = len(chk.obs)
    for i in range(5):
        k.goal(p1, "eq", "limb %d identical" % i, r1[i], r2[i])
    _limb_identity_optional(chk, k, n0, p1, r1, r2, "feMul[%s]" % pat)
    spec = k.dom.mul(p1, K.fval(al if A[1] == a else bl), K.fval(al if A[2] == a else bl))
    k.goal(p1, "congr", "aliased result = product mod p", K.fval(r1), spec, K.P)
    k.replay = lambda models, seed: config_battery(seed)
    k.settle()


def k_alias_sq(base, chk):
    k = K.LFK(base, chk, K.F + "feSquare", label="feSquare[out=a] asm vs generic")
    k.dom.share_memo = True
    a, al = k.elem("a")
    p1 = k.path.clone()
    k.ex.summaries[K.F + "feSquare"](k.ex, p1, [a, a])
    r1 = k.ex.load(p1, a)
    p2 = k.path.clone()
    (p2,) = k.ex.call(K.F + "feSquareGeneric", [a, a], p2)
    r2 = k.ex.load(p2, a)
    n0 = len(chk.obs)
    for i in range(5):
        k.goal(p1, "eq", "limb %d identical" % i, r1[i], r2[i])
    _limb_identity_optional(chk, k, n0, p1, r1, r2, "feSquare[out=a]")
    k.goal(p1, "congr", "aliased result = a^2 mod p", K.fval(r1), k.dom.mul(p1, K.fval(al), K.fval(al)), K.P)
    k.replay = lambda models, seed: config_battery(seed)
    k.settle()
