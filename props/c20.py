"""C20 - optimised (amd64 assembly) and portable field implementations agree."""
import json, time
from sym import kernels as K, ir, asm
from sym.check import Ob
from .common import setup, run_kernels


def strip(f):
    """function SSA without source positions (for cross-configuration comparison)"""
    def clean(x):
        if isinstance(x, dict):
            return {k: clean(v) for k, v in x.items() if k not in ("pos", "_fn")}
        if isinstance(x, list):
            return [clean(v) for v in x]
        return x
    return clean(f)


def run(chk):
    chk.level = "translation_validation"
    prog, base = setup(chk)
    chk.bounds = ["all limb vectors with every limb <= 2^51+2^38 (the closed representation invariant of C09), both operands", "both build configurations {default amd64+gc, purego}"]
    chk.outside = ["arm64 assembly (fe_arm64.s: carryPropagate) - not the configuration of this sandbox", "limb vectors above the invariant (unreachable, C09)"]
    chk.assumptions = ["amd64 semantics of MOVQ MULQ IMUL3Q ADDQ ADCQ SHLQ(2/3 operands) SHRQ ANDQ RET as implemented in sym/asm.py", "Int-LF encoding (products of input limbs are shared atoms on both sides)"]
    if not base.has_asm:
        chk.note_inconclusive("default configuration has no assembly feMul (unexpected on amd64)")
        return
    items = [
        ("feMul vs feMulGeneric", lambda: K.k_mul_equiv(base, chk, False)),
        ("feSquare vs feSquareGeneric", lambda: K.k_mul_equiv(base, chk, True)),
        ("feMul", lambda: K.k_mul(base, chk, "feMul")), ("feSquare", lambda: K.k_mul(base, chk, "feSquare")),
        ("feMulGeneric", lambda: K.k_mul(base, chk, "feMulGeneric")), ("feSquareGeneric", lambda: K.k_mul(base, chk, "feSquareGeneric")),
    ]
    run_kernels(chk, items)
    from sym import validate
    validate.field_kernels(base, chk, 400 if chk.tier == "thorough" else 24)
    # shape of the assembly: straight-line, memory only through the pointer arguments at constant offsets
    for name, fn in base.asm_funcs.items():
        probs = asm.static_checks(fn)
        chk.fact("fe_amd64.s %s: straight-line subset, memory operands = constant offsets from pointer arguments (%d instructions)" % (name, len(fn["ins"])),
                 not probs, [K.F + name], detail="; ".join(probs[:3]))
    # aliasing: out==a, out==b, a==b, all three (loads/stores modelled in program order)
    run_kernels(chk, [("feMul alias " + pat, lambda pat=pat: k_alias(base, chk, pat)) for pat in ("out=a", "out=b", "a=b", "out=a=b")] + [("feSquare alias", lambda: k_alias_sq(base, chk))])
    # configuration diff
    t0 = time.time()
    prog2 = ir.load("purego")
    f1 = {p["path"]: sorted(f["file"] for f in p["files"]) for p in prog.doc["packages"]}
    f2 = {p["path"]: sorted(f["file"] for f in p["files"]) for p in prog2.doc["packages"]}
    fp = "filippo.io/edwards25519/field"
    d1 = sorted(set(f1[fp]) - set(f2[fp]))
    d2 = sorted(set(f2[fp]) - set(f1[fp]))
    same_root = f1["filippo.io/edwards25519"] == f2["filippo.io/edwards25519"]
    ok = d1 == ["fe_amd64.go", "fe_amd64.s"] and d2 == ["fe_amd64_noasm.go"] and same_root
    chk.fact("build configurations differ exactly in fe_amd64.go+fe_amd64.s vs fe_amd64_noasm.go", ok, [], "configuration", detail="default-only %s, purego-only %s" % (d1, d2))
    hashes1 = {f["file"]: f["sha256"] for p in prog.doc["packages"] for f in p["files"]}
    hashes2 = {f["file"]: f["sha256"] for p in prog2.doc["packages"] for f in p["files"]}
    same = all(hashes1[f] == hashes2[f] for f in hashes1 if f in hashes2)
    chk.fact("all shared source files are byte-identical in both configurations", same, [], "configuration")
    diff = []
    ours = [n for n, f in prog.funcs.items() if f.get("pkg", "").startswith("filippo.io/edwards25519")]
    for n in ours:
        f = prog.funcs[n]
        if n in (K.F + "feMul", K.F + "feSquare"):
            continue
        g = prog2.funcs.get(n)
        if g is None or strip(f) != strip(g):
            diff.append(n)
    extra = [n for n, f in prog2.funcs.items() if n not in prog.funcs and f.get("pkg", "").startswith("filippo.io/edwards25519")]
    chk.fact("SSA of every other function (%d) is identical under default and purego" % (len(ours) - 2), not diff and not extra, [], "configuration", detail=str((diff + extra)[:5]), seconds=time.time() - t0)
    # a 32-bit target selects the portable code as well (no purego tag needed) but with 32-bit int/uint: the SSA of every
    # function must not depend on that (e.g. through math.MaxUint, bits.UintSize, constants typed uint)
    t0 = time.time()
    try:
        prog3 = ir.load(goarch="386")
        diff3 = [n for n in ours if n not in (K.F + "feMul", K.F + "feSquare") and (n not in prog3.funcs or strip(prog2.funcs[n]) != strip(prog3.funcs[n]))]
        ob3 = chk.soft("SSA of every function is identical for GOARCH=386 (32-bit int) and the purego build on amd64: no platform-width dependent constants or code", not diff3, [], "configuration", detail=str(diff3[:5]))
        ob3.seconds = time.time() - t0
        if diff3:
            hit = config_battery(chk.seed, goarch="386")
            if hit:
                ob3.verdict = "violated"
                chk.violation("GOARCH=386", hit["what"], hit)
    except Exception as e:
        chk.note_inconclusive("GOARCH=386 configuration could not be loaded: %r" % (e,))
    # purego feMul/feSquare are the portable routines (checked by executing the wrappers)
    base2 = K.Base(prog2)
    chk.extra["config_purego"] = {"field_mul": "portable Go (wrappers call feMulGeneric/feSquareGeneric)"}
    run_kernels(chk, [("purego feMul", lambda: k_purego(base2, chk, "feMul")), ("purego feSquare", lambda: k_purego(base2, chk, "feSquare"))])
    chk.extra["programs"] = 4
    chk.extra["disagreements_checked"] = sum(1 for o in chk.obs if "identical" in o.name)
    chk.samples = [o.j() for o in chk.obs if "identical" in o.name][:5]


def config_battery(seed, n=40, goarch=""):
    """native differential battery = the statement of C20 itself on concrete inputs: every multiplication-based public
    operation of the field package, in every aliasing pattern of receiver and operands, gives limb-identical results
    in the default (assembly) and purego builds and agrees with the big-integer product; plus feMul vs feMulGeneric /
    feSquare vs feSquareGeneric called directly in the default build."""
    from sym import native, ref
    import random
    rng = random.Random(seed)
    pool = ref.limb_candidates(rng, n)
    ops, meta = [], []

    def add(op, args, init, want=None):
        ops.append({"op": op, "args": args, "init": init})
        meta.append((op, args, init, want))
    for i, a in enumerate(pool):
        b = pool[(i * 7 + 3) % len(pool)]
        junk = pool[(i * 5 + 1) % len(pool)]
        A, Bv, J = ref.fmt_limbs(a), ref.fmt_limbs(b), ref.fmt_limbs(junk)
        va, vb = ref.fe_val(a), ref.fe_val(b)
        for fn in ("Multiply", "feMul", "feMulGeneric"):
            add(fn, ["v", "a", "b"], {"v": J, "a": A, "b": Bv}, va * vb)
            add(fn, ["a", "a", "b"], {"a": A, "b": Bv}, va * vb)
            add(fn, ["b", "a", "b"], {"a": A, "b": Bv}, va * vb)
            add(fn, ["v", "a", "a"], {"v": J, "a": A}, va * va)       # same operand twice, receiver holds something else
            add(fn, ["a", "a", "a"], {"a": A}, va * va)
        for fn in ("Square", "feSquare", "feSquareGeneric"):
            add(fn, ["v", "a"], {"v": J, "a": A}, va * va)
            add(fn, ["a", "a"], {"a": A}, va * va)
        if i < 12:
            add("Invert", ["v", "a"], {"v": J, "a": A}, pow(va, ref.P - 2, ref.P))
            add("Invert", ["a", "a"], {"a": A}, pow(va, ref.P - 2, ref.P))
            add("Pow22523", ["v", "a"], {"v": J, "a": A}, pow(va, (ref.P - 5) // 8, ref.P))
            add("SqrtRatio", ["v", "a", "b"], {"v": J, "a": A, "b": Bv})
            add("SqrtRatio", ["v", "a", "a"], {"v": J, "a": A})
            add("SqrtRatio", ["a", "a", "b"], {"a": A, "b": Bv})
    r1 = native.run_ops("field", ops)
    r2 = native.run_ops("field", ops, tags="purego") if not goarch else native.run_ops("field", ops, goarch=goarch)
    for (op, args, init, want), x, y in zip(meta, r1, r2):
        if "panic" in x or "panic" in y:
            return dict(what="%s%s panics: %s" % (op, args, x.get("panic") or y.get("panic")), op=op, args=args, init=init)
        if x["slots"] != y["slots"] or x.get("int") != y.get("int"):
            return dict(what="%s(%s): default and %s builds disagree: %s vs %s" % (op, ",".join(args), ("GOARCH=" + goarch) if goarch else "purego", x["slots"].get(args[0]), y["slots"].get(args[0])), op=op, args=args, init=init)
        if want is not None:
            got = ref.fe_val(ref.parse_limbs(x["slots"][args[0]])) % ref.P
            if got != want % ref.P:
                return dict(what="%s(%s) = %d, expected %d (mod p), both builds" % (op, ",".join(args), got, want % ref.P), op=op, args=args, init=init)
        for nm, v in init.items():
            if nm != args[0] and x["slots"].get(nm) != v.replace(" ", ""):
                pass
    # feMul vs feMulGeneric in the same build (limb identity is what the kernels prove; values are what the property states)
    byk = {}
    for (op, args, init, want), x in zip(meta, r1):
        byk.setdefault((tuple(args), json.dumps(init, sort_keys=True)), {})[op] = x["slots"][args[0]]
    for key, d in byk.items():
        for f, g in (("feMul", "feMulGeneric"), ("feSquare", "feSquareGeneric")):
            if f in d and g in d and ref.fe_val(ref.parse_limbs(d[f])) % ref.P != ref.fe_val(ref.parse_limbs(d[g])) % ref.P:
                return dict(what="%s and %s disagree for arguments %s: %s vs %s" % (f, g, key[0], d[f], d[g]), op=f, args=list(key[0]), init=json.loads(key[1]))
    return None


def safety_net(chk):
    return config_battery(chk.seed)


def k_purego(base2, chk, which):
    k, p, out, al, bl = K.k_mul(base2, chk, which)
    k.label = "purego " + which


def k_alias(base, chk, pat):
    """assembly feMul with aliased operands equals the portable routine with the same aliasing"""
    from sym import exec as X
    k = K.LFK(base, chk, K.F + "feMul", label="feMul[%s] asm vs generic" % pat)
    k.dom.share_memo = True
    a, al = k.elem("a")
    b, bl = k.elem("b")
    o, _ = k.out_elem("out")
    if pat == "out=a":
        A = (a, a, b)
    elif pat == "out=b":
        A = (b, a, b)
    elif pat == "a=b":
        A = (o, a, a)
    else:
        A = (a, a, a)
    p1 = k.path.clone()
    k.ex.summaries[K.F + "feMul"](k.ex, p1, list(A))
    r1 = k.ex.load(p1, A[0])
    p2 = k.path.clone()
    (p2,) = k.ex.call(K.F + "feMulGeneric", list(A), p2)
    r2 = k.ex.load(p2, A[0])
    # both runs share the input atoms; the solver context is the union (paths carry only input assumptions)
    for i in range(5):
        k.goal(p1, "eq", "limb %d identical" % i, r1[i], r2[i])
    spec = k.dom.mul(p1, K.fval(al if A[1] == a else bl), K.fval(al if A[2] == a else bl))
    k.goal(p1, "congr", "aliased result = product mod p", K.fval(r1), spec, K.P)
    k.replay = lambda models, seed: config_battery(seed)
    k.settle()


def k_alias_sq(base, chk):
    k = K.LFK(base, chk, K.F + "feSquare", label="feSquare[out=a] asm vs generic")
    k.dom.share_memo = True
    a, al = k.elem("a")
    p1 = k.path.clone()
    k.ex.summaries[K.F + "feSquare"](k.ex, p1, [a, a])
    r1 = k.ex.load(p1, a)
    p2 = k.path.clone()
    (p2,) = k.ex.call(K.F + "feSquareGeneric", [a, a], p2)
    r2 = k.ex.load(p2, a)
    for i in range(5):
        k.goal(p1, "eq", "limb %d identical" % i, r1[i], r2[i])
    k.goal(p1, "congr", "aliased result = a^2 mod p", K.fval(r1), k.dom.mul(p1, K.fval(al), K.fval(al)), K.P)
    k.replay = lambda models, seed: config_battery(seed)
    k.settle()
