"""C20 - optimised (amd64 assembly) and portable field implementations agree."""
import json, time
from sym import kernels as K, ir, asm
from sym.check import Ob
from .common import setup, run_kernels


def strip(f):
    """function SSA without source positions (for cross-configuration comparison)"""
    def clean(x):
        if isinstance(x, dict):
            return {k: clean(v) for k, v in x.items() if k not in ("pos", "_fn")}
        if isinstance(x, list):
            return [clean(v) for v in x]
        return x
    return clean(f)


def run(chk):
    chk.level = "translation_validation"
    prog, base = setup(chk)
    chk.bounds = ["all limb vectors with every limb <= 2^51+2^38 (the closed representation invariant of C09), both operands", "both build configurations {default amd64+gc, purego}"]
    chk.outside = ["arm64 assembly (fe_arm64.s: carryPropagate) - not the configuration of this sandbox", "limb vectors above the invariant (unreachable, C09)"]
    chk.assumptions = ["amd64 semantics of MOVQ MULQ IMUL3Q ADDQ ADCQ SHLQ(2/3 operands) SHRQ ANDQ RET as implemented in sym/asm.py", "Int-LF encoding (products of input limbs are shared atoms on both sides)"]
    if not base.has_asm:
        chk.note_inconclusive("default configuration has no assembly feMul (unexpected on amd64)")
        return
    items = [
        ("feMul vs feMulGeneric", lambda: K.k_mul_equiv(base, chk, False)),
        ("feSquare vs feSquareGeneric", lambda: K.k_mul_equiv(base, chk, True)),
        ("feMul", lambda: K.k_mul(base, chk, "feMul")), ("feSquare", lambda: K.k_mul(base, chk, "feSquare")),
        ("feMulGeneric", lambda: K.k_mul(base, chk, "feMulGeneric")), ("feSquareGeneric", lambda: K.k_mul(base, chk, "feSquareGeneric")),
    ]
    run_kernels(chk, items)
    from sym import validate
    validate.field_kernels(base, chk, 400 if chk.tier == "thorough" else 24)
    # shape of the assembly: straight-line, memory only through the pointer arguments at constant offsets
    for name, fn in base.asm_funcs.items():
        probs = asm.static_checks(fn)
        chk.fact("fe_amd64.s %s: straight-line subset, memory operands = constant offsets from pointer arguments (%d instructions)" % (name, len(fn["ins"])),
                 not probs, [K.F + name], detail="; ".join(probs[:3]))
    # aliasing: out==a, out==b, a==b, all three (loads/stores modelled in program order)
    for pat in ("out=a", "out=b", "a=b", "out=a=b"):
        k_alias(base, chk, pat)
    k_alias_sq(base, chk)
    # configuration diff
    t0 = time.time()
    prog2 = ir.load("purego")
    f1 = {p["path"]: sorted(f["file"] for f in p["files"]) for p in prog.doc["packages"]}
    f2 = {p["path"]: sorted(f["file"] for f in p["files"]) for p in prog2.doc["packages"]}
    fp = "filippo.io/edwards25519/field"
    d1 = sorted(set(f1[fp]) - set(f2[fp]))
    d2 = sorted(set(f2[fp]) - set(f1[fp]))
    same_root = f1["filippo.io/edwards25519"] == f2["filippo.io/edwards25519"]
    ok = d1 == ["fe_amd64.go", "fe_amd64.s"] and d2 == ["fe_amd64_noasm.go"] and same_root
    chk.fact("build configurations differ exactly in fe_amd64.go+fe_amd64.s vs fe_amd64_noasm.go", ok, [], "configuration", detail="default-only %s, purego-only %s" % (d1, d2))
    hashes1 = {f["file"]: f["sha256"] for p in prog.doc["packages"] for f in p["files"]}
    hashes2 = {f["file"]: f["sha256"] for p in prog2.doc["packages"] for f in p["files"]}
    same = all(hashes1[f] == hashes2[f] for f in hashes1 if f in hashes2)
    chk.fact("all shared source files are byte-identical in both configurations", same, [], "configuration")
    diff = []
    ours = [n for n, f in prog.funcs.items() if f.get("pkg", "").startswith("filippo.io/edwards25519")]
    for n in ours:
        f = prog.funcs[n]
        if n in (K.F + "feMul", K.F + "feSquare"):
            continue
        g = prog2.funcs.get(n)
        if g is None or strip(f) != strip(g):
            diff.append(n)
    extra = [n for n, f in prog2.funcs.items() if n not in prog.funcs and f.get("pkg", "").startswith("filippo.io/edwards25519")]
    chk.fact("SSA of every other function (%d) is identical under default and purego" % (len(ours) - 2), not diff and not extra, [], "configuration", detail=str((diff + extra)[:5]), seconds=time.time() - t0)
    # purego feMul/feSquare are the portable routines (checked by executing the wrappers)
    base2 = K.Base(prog2)
    chk.extra["config_purego"] = {"field_mul": "portable Go (wrappers call feMulGeneric/feSquareGeneric)"}
    run_kernels(chk, [("purego feMul", lambda: k_purego(base2, chk, "feMul")), ("purego feSquare", lambda: k_purego(base2, chk, "feSquare"))])
    chk.extra["programs"] = 4
    chk.extra["disagreements_checked"] = sum(1 for o in chk.obs if "identical" in o.name)
    chk.samples = [o.j() for o in chk.obs if "identical" in o.name][:5]


def k_purego(base2, chk, which):
    k, p, out, al, bl = K.k_mul(base2, chk, which)
    k.label = "purego " + which


def k_alias(base, chk, pat):
    """assembly feMul with aliased operands equals the portable routine with the same aliasing"""
    from sym import exec as X
    k = K.LFK(base, chk, K.F + "feMul", label="feMul[%s] asm vs generic" % pat)
    k.dom.share_memo = True
    a, al = k.elem("a")
    b, bl = k.elem("b")
    o, _ = k.out_elem("out")
    if pat == "out=a":
        A = (a, a, b)
    elif pat == "out=b":
        A = (b, a, b)
    elif pat == "a=b":
        A = (o, a, a)
    else:
        A = (a, a, a)
    p1 = k.path.clone()
    k.ex.summaries[K.F + "feMul"](k.ex, p1, list(A))
    r1 = k.ex.load(p1, A[0])
    p2 = k.path.clone()
    (p2,) = k.ex.call(K.F + "feMulGeneric", list(A), p2)
    r2 = k.ex.load(p2, A[0])
    # both runs share the input atoms; the solver context is the union (paths carry only input assumptions)
    for i in range(5):
        k.goal(p1, "eq", "limb %d identical" % i, r1[i], r2[i])
    spec = k.dom.mul(p1, K.fval(al if A[1] == a else bl), K.fval(al if A[2] == a else bl))
    k.goal(p1, "congr", "aliased result = product mod p", K.fval(r1), spec, K.P)
    k.replay = None
    k.settle()


def k_alias_sq(base, chk):
    k = K.LFK(base, chk, K.F + "feSquare", label="feSquare[out=a] asm vs generic")
    k.dom.share_memo = True
    a, al = k.elem("a")
    p1 = k.path.clone()
    k.ex.summaries[K.F + "feSquare"](k.ex, p1, [a, a])
    r1 = k.ex.load(p1, a)
    p2 = k.path.clone()
    (p2,) = k.ex.call(K.F + "feSquareGeneric", [a, a], p2)
    r2 = k.ex.load(p2, a)
    for i in range(5):
        k.goal(p1, "eq", "limb %d identical" % i, r1[i], r2[i])
    k.goal(p1, "congr", "aliased result = a^2 mod p", K.fval(r1), k.dom.mul(p1, K.fval(al), K.fval(al)), K.P)
    k.settle()
