"""C10 - field encodings and predicates depend only on the value mod p."""
from sym import kernels as K
from sym.check import Ob
from .common import setup, run_kernels


def run(chk):
    prog, base = setup(chk)
    from .common import state_shape
    state_shape(chk, prog)
    from .common import platform_independence
    platform_independence(chk, prog)
    from .common import api_surface, ELEMENT_API
    api_surface(chk, prog, 'Element', ELEMENT_API, 'this check or is value-only (C09)')
    chk.bounds = ["Bytes/Equal/IsNegative (through reduce): all limb vectors with limbs < 2^52 (the documented bound; a superset of the reachable representations of C09)", "SetBytes: all 2^256 strings; SetWideBytes: all 2^512 strings; every other length (symbolic)",
                  "Select/Swap: all 64-bit limb contents, cond in {0,1}"]
    chk.outside = ["cond values other than 0/1 (documented precondition)"]
    chk.assumptions = ["reduce contract (limbs<2^51, value<p, congruent) discharged in Int-LF and used as summary in the BV serialisation check",
                       "Bytes summarised as 'the canonical encoding' inside Equal/IsNegative (contract = reduce + bytes obligations of this run)"]
    ET = prog.T(K.F + "Element")
    items = [
        ("reduce", lambda: K.k_reduce(base, chk, bound=2**52 - 1)),
        ("carryPropagate", lambda: K.k_carry(base, chk, K.F + "carryPropagate")),
        ("Bytes", lambda: K.k_bytes(base, chk)),
        ("SetBytes", lambda: K.k_setbytes(base, chk)),
        ("SetWideBytes", lambda: K.k_setwide(base, chk)),
        ("Equal/IsNegative", lambda: K.k_equal_isneg(base, chk)),
        ("Select/Swap", lambda: K.k_select_swap(base, chk)),
        ("SetBytes len", lambda: K.k_len_reject(base, chk, prog.find("Element).SetBytes"), 32, ET, "Element.SetBytes")),
        ("SetWideBytes len", lambda: K.k_len_reject(base, chk, prog.find("Element).SetWideBytes"), 64, ET, "Element.SetWideBytes")),
    ]
    run_kernels(chk, items)
    from sym import validate
    validate.field_kernels(base, chk, 200 if chk.tier == "thorough" else 12)
    # composition facts (arithmetic, decided by z3): canonical encoding is injective on [0,p) and non-canonical inputs fold
    import z3, time
    t0 = time.time()
    x, y = z3.Ints("x y")
    s = z3.Solver()
    s.add(x >= 0, x < K.P, y >= 0, y < K.P, x % K.P == y % K.P, x != y)
    chk.add(Ob("two fully reduced values congruent mod p are equal (so equal value <=> equal Bytes)", str(s.check()), time.time() - t0, [], "LIA"))
    s = z3.Solver()
    s.add(x >= 2**255 - 19, x <= 2**255 - 1, z3.Not(z3.And(x % K.P == x - (2**255 - 19), x % K.P <= 18)))
    chk.add(Ob("inputs 2^255-19..2^255-1 reduce to 0..18", str(s.check()), time.time() - t0, [], "LIA"))
    chk.samples = [o.j() for o in chk.obs[:5]]


def safety_net(chk):
    from sym import ptreplay
    return ptreplay.battery_value_history(chk.seed, "element")
