"""C13 - extended-coordinate import/export is validated and faithful."""
import time, z3
from sym import kernels as K, l1 as L1m, exec as X, certs, ptreplay, ref
from sym.poly import Poly
from sym.absmodes import Abs
from sym.check import Ob
from .common import setup, run_kernels
from .c02 import field_contracts

E = K.E


def solve_univariate(poly, var, env):
    """roots mod p of poly seen as a polynomial of degree <= 2 in `var`, other variables fixed by env"""
    from sym.poly import Poly, var_index
    P = ref.P
    sub = {k: Poly.const(v) for k, v in env.items() if k != var}
    q = poly.subs(sub)
    vi = var_index(var)
    co = {}
    for m, c in q.t.items():
        e = 0
        for v_, ex_ in m:
            if v_ == vi:
                e = ex_
            else:
                return []
        co[e] = (co.get(e, 0) + c) % P
    if any(e > 2 for e in co):
        return []
    a, b, c = co.get(2, 0), co.get(1, 0), co.get(0, 0)
    if a == 0:
        if b == 0:
            return []
        return [(-c) * ref.inv(b) % P]
    disc = (b * b - 4 * a * c) % P
    r = ref.sqrt(disc)
    if r is None:
        return []
    i2a = ref.inv(2 * a)
    return sorted({(-b + r) * i2a % P, (-b - r) * i2a % P})


from sym.witness import scaling_witnesses, roots_mod_p


def algebraic_witnesses(accept_polys, dval, seed):
    """quadruples that satisfy the tests an accepting path actually performs (polynomials vanishing mod p) obtained by
    solving for one coordinate with the other three taken from valid points / small values"""
    import random
    rng = random.Random(seed)
    P = ref.P
    out = []
    bases = []
    for (x, y) in ptreplay.bank(rng, 4)[-6:] + [(0, 1), ref.BASE]:
        z = rng.choice([1, 2, rng.randrange(1, P)])
        bases.append({"X": x * z % P, "Y": y * z % P, "Z": z, "T": x * y * z % P, "d": dval})
    bases.append({"X": 0, "Y": 1, "Z": 1, "T": 0, "d": dval})
    for env in bases:
        for var in ("T", "Z", "X", "Y"):
            if not accept_polys:
                continue
            roots = solve_univariate(accept_polys[0], var, env)
            for r_ in roots:
                cand = dict(env)
                cand[var] = r_
                if all(g.eval_mod(cand, P) == 0 for g in accept_polys):
                    out.append((cand["X"], cand["Y"], cand["Z"], cand["T"]))
    return out


def setext_battery(seed, extra=()):
    """native: accept exactly Z != 0, curve, XY = ZT; result = the same point; export round trip"""
    import random
    from sym import native
    rng = random.Random(seed)
    P = ref.P
    L = ptreplay.limbs_of
    fe = lambda v: "fe:" + ",".join(str(x) for x in L(v, True, rng))
    cases = [((0, 0, 0, 0), False)]
    # zero in non-canonical forms: p as limbs
    pts = ptreplay.bank(rng, 6)
    for (x, y) in pts:
        z = rng.randrange(1, P)
        good = (x * z % P, y * z % P, z, x * y * z % P)
        cases.append((good, True))
        cases.append(((good[0], good[1], good[2], (good[3] + 1) % P), False))
        cases.append(((good[0], good[1], 0, good[3]), False))
        cases.append((((-good[0]) % P, good[1], good[2], good[3]), good[0] == 0 or good[3] == 0 and False))
        cases.append(((good[0], good[1], (-good[2]) % P, good[3]), (good[3] == 0)))   # (X,Y,-Z,T): curve holds, XY=ZT only if T=0... and XY=0
    for c in extra:
        cases.append((tuple(int(v) % P for v in c), None))
    ops, meta = [], []
    prior = ptreplay.mk_point(ref.BASE, rng)
    for (c, exp) in cases:
        X_, Y_, Z_, T_ = c
        valid = Z_ % P != 0 and (-X_ * X_ + Y_ * Y_ - Z_ * Z_ - ref.D * T_ * T_) % P == 0 and (X_ * Y_ - Z_ * T_) % P == 0
        init = {"v": prior, "X": fe(X_), "Y": fe(Y_), "Z": fe(Z_), "T": fe(T_)}
        if c == (0, 0, 0, 0):
            init.update({"X": "fe:0,0,0,0,0", "Y": "fe:0,0,0,0,0", "Z": "fe:0,0,0,0,0", "T": "fe:0,0,0,0,0"})
        ops.append({"op": "P.SetExtendedCoordinates", "args": ["v", "X", "Y", "Z", "T"], "init": init})
        meta.append((c, valid, init))
    # all-zero value in the p-limb pattern
    pz = "fe:" + ",".join(str(x) for x in [2**51 - 19] + [2**51 - 1] * 4)
    ops.append({"op": "P.SetExtendedCoordinates", "args": ["v", "X", "Y", "Z", "T"], "init": {"v": prior, "X": pz, "Y": pz, "Z": pz, "T": pz}})
    meta.append(((0, 0, 0, 0), False, ops[-1]["init"]))
    res = native.run_ops("", ops)
    for (c, valid, init), r in zip(meta, res):
        if "panic" in r:
            return dict(what="SetExtendedCoordinates panics: %s" % r["panic"], op="P.SetExtendedCoordinates", init=init)
        if valid:
            if r.get("err") or not r.get("ret_is_recv"):
                return dict(what="valid coordinates %s rejected" % (c,), op="P.SetExtendedCoordinates", init=init)
            got = ptreplay.affine_of(r["slots"]["v"])
            zi = ref.inv(c[2])
            if got != (c[0] * zi % P, c[1] * zi % P):
                return dict(what="SetExtendedCoordinates(%s) yields %s" % (c, got), op="P.SetExtendedCoordinates", init=init)
        else:
            if not r.get("err") or not r.get("retnil") or r["slots"]["v"] != init["v"]:
                return dict(what="invalid coordinates %s accepted or receiver modified (err=%s)" % (c, r.get("err")), op="P.SetExtendedCoordinates", init=init)
        for n in "XYZT":
            if r["slots"][n] != init[n]:
                return dict(what="SetExtendedCoordinates modified argument %s" % n, op="P.SetExtendedCoordinates", init=init)
    # export + round trip
    ops = []
    for (x, y) in pts:
        ops.append({"op": "P.ExtendedCoordinates", "args": ["p"], "init": {"p": ptreplay.mk_point((x, y), rng)}})
    res = native.run_ops("", ops)
    for o, r in zip(ops, res):
        if "panic" in r or not r.get("distinct"):
            return dict(what="ExtendedCoordinates: %s" % r, op="P.ExtendedCoordinates", init=o["init"])
        want = o["init"]["p"][3:].split(";")
        if r["coords"] != want:
            return dict(what="ExtendedCoordinates returns %s, point holds %s" % (r["coords"], want), op="P.ExtendedCoordinates", init=o["init"])
    return None


def setext_battery_with_witnesses(chk, base):
    dv = base.global_val(E + "d")
    dval = sum(int(l) << (51 * k) for k, l in enumerate(dv)) % ref.P
    extra = []
    for polys in chk.extra.get("setext_accept_polys", []):
        try:
            extra += algebraic_witnesses(polys, dval, chk.seed)
        except Exception as e:
            chk.note_inconclusive("witness search failed: %r" % (e,))
    for polys in chk.extra.get("setext_reject_polys", []):
        try:
            extra += scaling_witnesses(polys, dval, chk.seed)
        except Exception as e:
            chk.note_inconclusive("witness search (rejecting path) failed: %r" % (e,))
    return setext_battery(chk.seed, extra)


def k_setext(l1):
    chk, prog, d = l1.chk, l1.prog, l1.d
    fname = prog.find("Point).SetExtendedCoordinates")
    chk.used(prog, fname, "ring mode")
    chk.used(prog, E + "isOnCurve", "ring mode (Element.Equal = congruence atom)")
    path = l1.path()
    Xp, Yp, Zp, Tp = [Poly.var(n) for n in ("X", "Y", "Z", "T")]
    ET = prog.T(K.F + "Element")
    args = [X.Ptr(l1.ex.new_obj(path, ET, name=n, init=Abs(q, False))) for n, q in (("X", Xp), ("Y", Yp), ("Z", Zp), ("T", Tp))]
    v = l1.junk_obj(path, "Point", "R")
    paths = l1.ex.call(fname, [v] + args, path)
    bad = [p for p in paths if p.outcome[0] != "ret"]
    chk.add(Ob("SetExtendedCoordinates: never panics (%d paths)" % len(paths), "unsat" if not bad else "sat", 0, [fname], "ring mode"))
    spec_polys = {"Z": Zp, "curve": -(Xp ** 2) + Yp ** 2 - Zp ** 2 - d * Tp ** 2, "xy": Xp * Yp - Zp * Tp}
    t0 = time.time()
    for i, p in enumerate(p for p in paths if p.outcome[0] == "ret"):
        hyps = {}
        for h in p.dstate.get("hyp", []):
            if h[0] == "eq":
                for nm, sp in spec_polys.items():
                    if h[1] == sp or h[1] == -sp:
                        hyps[nm] = h[2]
        accepted = p.outcome[1][1] is None
        # the spec's acceptance condition over the congruence atoms this path tested
        bz = hyps.get("Z")
        bc = hyps.get("curve")
        bx = hyps.get("xy")
        s = z3.Solver()
        for c in p.pc:
            s.add(c)
        if accepted:
            acc_polys = []
            for h in p.dstate.get("hyp", []):
                if h[0] == "eq":
                    so2 = z3.Solver()
                    for c in p.pc:
                        so2.add(c)
                    so2.add(z3.Not(h[2]))
                    if so2.check() == z3.unsat:
                        acc_polys.append(h[1])
            chk.extra.setdefault("setext_accept_polys", []).append(acc_polys)
            conds = []
            conds.append(z3.Not(bz) if bz is not None else z3.BoolVal(False))     # Z != 0 must have been established
            conds.append(bc if bc is not None else z3.BoolVal(False))
            conds.append(bx if bx is not None else z3.BoolVal(False))
            s.add(z3.Not(z3.And(conds)))
            r = str(s.check())
            ob = chk.add(Ob("SetExtendedCoordinates [accepting path %d]: acceptance implies Z != 0, -X^2+Y^2 = Z^2+dT^2 and XY = ZT (mod p)" % i, r, time.time() - t0, [fname], "BV over congruence atoms",
                            detail="tested: %s" % sorted(hyps)))
            out = l1.read(p, v, "Point")
            same = out == [Xp, Yp, Zp, Tp]
            chk.add(Ob("SetExtendedCoordinates [accepting path %d]: receiver = (X,Y,Z,T) exactly; returns (receiver, nil)" % i, "unsat" if same and p.outcome[1][0] == v else "sat", 0, [fname], "ring mode"))
        else:
            # rejected: at least one of the three spec conditions is false on this path
            terms = []
            if bz is not None:
                terms.append(bz)
            if bc is not None:
                terms.append(z3.Not(bc))
            if bx is not None:
                terms.append(z3.Not(bx))
            s.add(z3.Not(z3.Or(terms)) if terms else z3.BoolVal(True))
            r = str(s.check())
            if r != "unsat":
                # the equalities this rejecting path has established (for the witness search over valid representations)
                rej = []
                for h in p.dstate.get("hyp", []):
                    if h[0] == "eq":
                        so2 = z3.Solver()
                        for c in p.pc:
                            so2.add(c)
                        so2.add(z3.Not(h[2]))
                        if so2.check() == z3.unsat:
                            rej.append(h[1])
                chk.extra.setdefault("setext_reject_polys", []).append(rej)
            chk.add(Ob("SetExtendedCoordinates [rejecting path %d]: rejection only when Z = 0 or an equation fails" % i, r, time.time() - t0, [fname], "BV over congruence atoms"))
            chk.add(Ob("SetExtendedCoordinates [rejecting path %d]: returns (nil, error), receiver unwritten" % i,
                       "unsat" if p.outcome[1][0] is None and not any(w[0] == "w" and w[1] == v.obj for w in p.log) else "sat", 0, [fname], "effects"))
        chk.add(Ob("SetExtendedCoordinates [path %d]: arguments not written" % i, "unsat" if not any(w[0] == "w" and w[1] in [a.obj for a in args] for w in p.log) else "sat", 0, [fname], "effects"))
    nacc = sum(1 for p in paths if p.outcome[0] == "ret" and p.outcome[1][1] is None)
    chk.add(Ob("SetExtendedCoordinates: exactly one accepting path", "unsat" if nacc == 1 else "sat", 0, [fname], "structure"))


def k_export(l1):
    chk, prog = l1.chk, l1.prog
    fname = prog.find("Point).ExtendedCoordinates")
    chk.used(prog, fname, "ring mode")
    path = l1.path()
    P1 = l1.p3("1")
    p = l1.obj(path, "Point", P1.coords())
    r = l1.call1(fname, [p], path)
    outs = r.outcome[1]
    ok = len(outs) == 4 and all(isinstance(o, X.Ptr) for o in outs)
    vals = [l1.ex.load(r, o).v for o in outs] if ok else []
    chk.add(Ob("ExtendedCoordinates: returns the receiver's (X,Y,Z,T) (so the same relations hold and feeding it back is accepted and equal)", "unsat" if ok and vals == P1.coords() else "sat", 0, [fname], "ring mode"))
    locs = [(o.obj, o.path) for o in outs] if ok else []
    fresh = ok and len(set(locs)) == 4 and all(o.obj != p.obj and l1.ex.meta[o.obj].kind in ("heap", "stack") and o.obj > p.obj for o in outs)
    chk.add(Ob("ExtendedCoordinates: four distinct cells allocated by the call (not the point's own storage); receiver not written", "unsat" if fresh and not any(w[0] == "w" and w[1] == p.obj for w in r.log) else "sat", 0, [fname], "effects"))


def run(chk):
    prog, base = setup(chk)
    from .common import state_shape
    state_shape(chk, prog)
    chk.bounds = ["all coordinate quadruples (symbolic field values, every representation via the field contracts); all valid points for the export"]
    chk.outside = ["GF(p) is a field"]
    chk.assumptions = ["Element.Equal = congruence atom (C10 contract re-discharged here)", "field calls = ring operations (contracts discharged here)"]
    items = list(field_contracts(base, chk))
    items += [("reduce", lambda: K.k_reduce(base, chk)), ("Bytes", lambda: K.k_bytes(base, chk)), ("Equal/IsNegative", lambda: K.k_equal_isneg(base, chk))]
    l1 = L1m.L1(base, chk)
    items += [("SetExtendedCoordinates", lambda: k_setext(l1)), ("ExtendedCoordinates", lambda: k_export(l1))]
    run_kernels(chk, items)
    L1m.settle(chk, [o for o in chk.obs if "ExtendedCoordinates" in o.name], lambda: setext_battery_with_witnesses(chk, base), "Point.SetExtendedCoordinates")
    chk.extra.pop("setext_accept_polys", None); chk.extra.pop("setext_reject_polys", None)
    chk.samples = [o.j() for o in chk.obs if "ExtendedCoordinates" in o.name][:5]


def safety_net(chk):
    from sym import ir
    from sym import ptreplay
    return setext_battery_with_witnesses(chk, K.Base(ir.load())) or ptreplay.battery_receiver_history(chk.seed)
