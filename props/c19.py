"""C19 - returned values are fresh; operations are pure functions of their arguments."""
import time
from sym import kernels as K, exec as X, l2 as L2m, groupmode as GM
from sym.check import Ob
from .common import setup, run_kernels
from . import sweep

E, F = K.E, K.F
ONCE_TABLES = {E + "basepointTablePrecomp", E + "basepointNafTablePrecomp"}
FRESH = {E + "NewIdentityPoint", E + "NewGeneratorPoint", E + "NewScalar", "(*filippo.io/edwards25519.Point).ExtendedCoordinates", "(*filippo.io/edwards25519.Point).Bytes",
         "(*filippo.io/edwards25519.Point).BytesMontgomery", "(*filippo.io/edwards25519.Scalar).Bytes", "(*filippo.io/edwards25519/field.Element).Bytes"}


def refs_in(c, acc):
    if type(c) is list or type(c) is tuple:
        for x in c:
            refs_in(x, acc)
    elif isinstance(c, X.Ptr):
        acc.add(c.obj)
    elif isinstance(c, X.SliceV) and c.obj is not None:
        acc.add(c.obj)


def reach_globals(ex, p):
    """objects reachable from package-level variables (through pointers stored in them)"""
    seen = set()
    work = [o for o, m in ex.meta.items() if m.kind == "global" and o in p.heap]
    while work:
        o = work.pop()
        if o in seen or o not in p.heap:
            continue
        seen.add(o)
        acc = set()
        refs_in(p.heap[o], acc)
        work.extend(acc)
    return seen


def analyse(base, chk, fname, variant="distinct"):
    r = sweep.run_api(base, chk, fname, log_reads=True, variant=variant)
    ex = r.ex
    label = fname.replace("filippo.io/edwards25519", "ed") + (" [one object passed for all same-typed arguments / slice elements]" if variant == "shared" else "")
    chk.used(base.prog, fname, "effects (" + r.desc + ")")
    recv = r.args[0] if r.args and isinstance(r.args[0], X.Ptr) and base.prog.fn(fname)["hasrecv"] else None
    argobjs = set()
    for a in r.args:
        refs_in([a], argobjs)
    # objects reachable from slice arguments (pointer elements)
    for a in r.args:
        if isinstance(a, X.SliceV):
            for p in r.paths[:1]:
                refs_in(p.heap[a.obj], argobjs)
    for i, p in enumerate(r.paths):
        tag = "" if len(r.paths) == 1 else " [path %d]" % i
        if p.outcome[0] != "ret":
            chk.add(Ob("%s%s: completes on valid arguments" % (label, tag), "error:%s" % (p.outcome,), 0, [fname], "effects"))
            continue
        # ---- writes
        inside = 0
        held = 0
        stack = []
        bad_global, bad_arg, memo_state = [], [], []
        for ev in p.log:
            if ev[0] == "lock":
                held += 1
            elif ev[0] == "unlock":
                held = max(0, held - 1)
            elif ev[0] == "once_begin":
                # only the initialiser of a package-level sync.Once may build package-level data (lazily built tables)
                stack.append(1 if ex.meta[ev[1]].kind == "global" else 0)
                inside = sum(stack)
            elif ev[0] == "once_end":
                stack.pop()
                inside = sum(stack)
            elif ev[0] == "w":
                oid = ev[1]
                m = ex.meta.get(oid)
                if m is not None and m.kind == "global":
                    if not inside > 0:
                        (memo_state if held > 0 else bad_global).append((m.name, ev[2]))
                elif oid in r.pre_objs:
                    if recv is not None and oid == recv.obj:
                        continue
                    if fname.endswith("Element).Swap") and len(r.args) > 1 and oid == r.args[1].obj:
                        continue   # Swap's second operand is an in/out parameter by contract
                    if oid in argobjs:
                        bad_arg.append((m.name if m else oid, ev[2]))
                    elif m is not None and m.kind not in ("heap", "stack") or oid in r.pre_objs and oid not in argobjs and m is not None and m.kind in ("heap", "stack") and oid < min(argobjs or [1 << 60]):
                        # an object that existed before the call and is not an argument: package state reached through a global pointer
                        bad_global.append((m.name if m else oid, ev[2]))
        chk.fact("%s%s: writes no package-level state (except the Once-guarded tables, inside their initialiser)" % (label, tag), not bad_global, [fname], "effects", detail=str(bad_global[:3]))
        if memo_state:
            # package-level data rewritten under a mutex (a memo cache): race-free, but whether results still depend only on
            # the arguments depends on the cache's key discipline, which the effects do not show: undecided, history battery
            chk.soft("%s%s: keeps no mutable package-level state (found: written under a mutex)" % (label, tag), False, [fname], "effects", detail=str(memo_state[:3]))
        chk.fact("%s%s: writes no non-receiver argument" % (label, tag), not bad_arg, [fname], "effects", detail=str(bad_arg[:3]))
        # ---- no result may point into package-level state (a caller mutating it would change later results)
        resobjs = set()
        refs_in(list(p.outcome[1]), resobjs)
        glob = [o for o in resobjs if o in r.pre_objs and o not in argobjs and (ex.meta[o].kind == "global" or o in reach_globals(ex, p))]
        chk.fact("%s%s: no returned pointer/slice refers to package-level storage" % (label, tag), not glob, [fname], "effects", detail=str([ex.meta[o].name for o in glob][:3]))
        if base.prog.fn(fname)["short"] in ("Bytes", "BytesMontgomery", "Equal", "ExtendedCoordinates", "IsNegative") and recv is not None:
            wr = [ev for ev in p.log if ev[0] == "w" and ev[1] == recv.obj]
            chk.fact("%s%s: a read-only operation does not write its receiver" % (label, tag), not wr, [fname], "effects", detail=str(wr[:2]))
        # ---- freshness of results
        if fname in FRESH:
            res = set()
            refs_in(list(p.outcome[1]), res)
            fresh = all(o not in r.pre_objs and ex.meta[o].kind in ("heap", "stack") for o in res) and res
            locs = []
            for v in p.outcome[1]:
                if isinstance(v, X.Ptr):
                    locs.append((v.obj, v.path))
                elif isinstance(v, X.SliceV):
                    locs.append((v.obj, v.path + (v.off,)))
            distinct = len(set(locs)) == len(locs)
            # not retained: no pre-existing object (globals, arguments) holds a reference into the result objects, and the
            # result does not live in storage that was handed to a sync.Pool (recycled by a later call)
            retained = []
            pooled = set()
            for ev in p.log:
                if ev[0] == "pool_put" and len(ev) > 3 and ev[3] is not None:
                    acc_ = {ev[3]}
                    if ev[3] in p.heap:
                        refs_in(p.heap[ev[3]], acc_)
                    pooled |= acc_
            if pooled & res:
                retained.append("sync.Pool")
            for oid, cells in p.heap.items():
                if oid in r.pre_objs:
                    acc = set()
                    refs_in(cells, acc)
                    if acc & res:
                        retained.append(oid)
            chk.fact("%s%s: every returned pointer/slice targets storage allocated by this call, distinct per result, not retained by package state or arguments" % (label, tag),
                     bool(fresh) and distinct and not retained, [fname], "effects", detail="results %s retained-by %s" % (sorted(res), retained))


def twice(base, chk, routine):
    """a second call (tables already built) gives the same result as the first"""
    h = L2m.L2(base, chk)
    prog = base.prog
    path = h.path()
    fname = prog.find("Point)." + routine)
    x, k = h.scalar(path, "k")
    outs = []
    for i in range(2):
        v = h.point(path, None)
        if routine == "ScalarBaseMult":
            args = [v, x]
        else:
            q = h.point(path, "A")
            args = [v, x, q, x]
        (p,) = h.ex.call(fname, args, path)
        outs.append(h.result(p, v))
        path = p
        path.outcome = None
        path.frames = []
    runs = {}
    for e in path.log:
        if e[0] == "once_begin":
            runs[(e[1], e[2])] = runs.get((e[1], e[2]), 0) + 1
    once_runs = max(runs.values()) if runs else 0
    ok = all(isinstance(g, GM.G) and g.kind == "vec" for g in outs)
    t0 = time.time()
    verdict = "unsat"
    if ok:
        for gen in set(outs[0].v) | set(outs[1].v):
            r = h.dom.prove_eq(path, outs[0].v.get(gen, 0), outs[1].v.get(gen, 0), "twice")
            if r != "unsat":
                verdict = r
    else:
        verdict = "sat"
    chk.add(Ob("%s: a second call on the same arguments yields the identical result (tables already built)" % routine, verdict, time.time() - t0, [fname], "group mode / LIA"))
    chk.fact("%s: every table initialiser ran exactly once across both calls (%d Once objects)" % (routine, len(runs)), once_runs == 1, [fname], "effects")


def fresh_battery(seed):
    from sym import native
    code = '''package edwards25519
import ("testing";"bytes")
func TestVerif(t *testing.T){
 a:=NewIdentityPoint(); b:=NewIdentityPoint(); if a==b {t.Fatal("NewIdentityPoint not fresh")}
 g:=NewGeneratorPoint(); want:=append([]byte{},g.Bytes()...)
 g.Add(g,g)
 if !bytes.Equal(NewGeneratorPoint().Bytes(),want) {t.Fatal("mutating NewGeneratorPoint result changed package state")}
 a.Add(a,g); if NewIdentityPoint().Equal(new(Point).Set(identity))!=1 || !bytes.Equal(NewIdentityPoint().Bytes(),[]byte{1,0,0,0,0,0,0,0,0,0,0,0,0,0,0,0,0,0,0,0,0,0,0,0,0,0,0,0,0,0,0,0}) {t.Fatal("identity changed")}
 s:=NewScalar(); s2:=NewScalar(); if s==s2 {t.Fatal("NewScalar not fresh")}
 p:=NewGeneratorPoint(); b1:=p.Bytes(); b1[0]^=0xff; if !bytes.Equal(p.Bytes(),want) {t.Fatal("Bytes buffer aliases state")}
 X,Y,Z,T:=p.ExtendedCoordinates(); X.Add(X,X); Y.Zero(); Z.Zero(); T.Zero(); if !bytes.Equal(p.Bytes(),want) {t.Fatal("ExtendedCoordinates aliases the point")}
 m:=p.BytesMontgomery(); m2:=append([]byte{},m...); m[0]^=1; if !bytes.Equal(p.BytesMontgomery(),m2) {t.Fatal("BytesMontgomery buffer aliases")}
 k,_:=NewScalar().SetCanonicalBytes(make([]byte,32)); kb:=k.Bytes(); kb[0]=7; if k.Bytes()[0]!=0 {t.Fatal("Scalar.Bytes aliases")}
 r1:=new(Point).ScalarBaseMult(k); r2:=new(Point).ScalarBaseMult(k); if r1.Equal(r2)!=1 {t.Fatal("impure")}
 // results held by the caller must survive later calls (no recycled / shared output buffers)
 q2:=new(Point).Add(p,p)
 h1:=p.BytesMontgomery(); k1:=append([]byte{},h1...); _=q2.BytesMontgomery(); _=q2.BytesMontgomery(); if !bytes.Equal(h1,k1) {t.Fatal("an earlier BytesMontgomery result changed after later calls")}
 h2:=p.Bytes(); k2:=append([]byte{},h2...); _=q2.Bytes(); _=q2.Bytes(); if !bytes.Equal(h2,k2) {t.Fatal("an earlier Point.Bytes result changed after later calls")}
 s3,_:=NewScalar().SetCanonicalBytes([]byte{9,0,0,0,0,0,0,0,0,0,0,0,0,0,0,0,0,0,0,0,0,0,0,0,0,0,0,0,0,0,0,0})
 h3:=k.Bytes(); k3:=append([]byte{},h3...); _=s3.Bytes(); _=s3.Bytes(); if !bytes.Equal(h3,k3) {t.Fatal("an earlier Scalar.Bytes result changed after later calls")}
 X1,Y1,Z1,T1:=p.ExtendedCoordinates(); x1:=append([]byte{},X1.Bytes()...); _,_,_,_=q2.ExtendedCoordinates(); _,_,_,_=q2.ExtendedCoordinates(); if !bytes.Equal(X1.Bytes(),x1) {t.Fatal("earlier ExtendedCoordinates results changed after later calls")}; _,_,_=Y1,Z1,T1
}'''
    rc, out = native.go_test(code)
    if rc != 0:
        return dict(what="freshness test failed: " + out[-400:], op="fresh")
    return None


def run(chk):
    prog, base = setup(chk)
    from .common import state_shape
    state_shape(chk, prog)
    fns = sweep.api_functions(prog)
    chk.bounds = ["all %d exported functions/methods, every path of each for symbolic arguments (multi-scalar routines with n = 2 terms)" % len(fns)]
    chk.outside = ["mutation sequences are covered structurally: a result that is fresh and not retained cannot influence package state or later calls"]
    chk.assumptions = ["effects come from executing the real function bodies; data callees are abstracted (ring/group/scalar modes), which does not change which objects are written"]
    chk.add(Ob("API surface: %d exported operations enumerated from SSA, all have a harness" % len(fns), "unsat", 0, [], "API surface"))
    items = [(fn, lambda fn=fn: analyse(base, chk, fn)) for fn in fns]
    items += [(fn + " shared", lambda fn=fn: analyse(base, chk, fn, "shared")) for fn in fns if sweep.shared_applicable(prog, fn)]
    items += [("kernel " + w, lambda w=w: K.k_mul(base, chk, w)) for w in ("feMulGeneric", "feSquareGeneric")]
    # heavy ones first
    items.sort(key=lambda it: 0 if "VarTime" in it[0] else 1)
    items += [("twice ScalarBaseMult", lambda: twice(base, chk, "ScalarBaseMult"))]
    if chk.tier == "thorough":
        items.insert(0, ("twice VarTimeDoubleScalarBaseMult", lambda: twice(base, chk, "VarTimeDoubleScalarBaseMult")))
    run_kernels(chk, items)
    from .common import settle_bounds_history
    # (roots: the operations with slice-of-terms arguments; the byte-string setters' other lengths are C14's symbolic-length paths)
    settle_bounds_history(chk, prog, [prog.find("Point)." + r) for r in ("ScalarMult", "ScalarBaseMult", "VarTimeDoubleScalarBaseMult", "MultiScalarMult", "VarTimeMultiScalarMult")])
    missing = [fn for fn in fns if not any(fn.replace("filippo.io/edwards25519", "ed") in o.name for o in chk.obs)]
    if missing:
        chk.note_inconclusive("no effects obtained for %s" % missing[:5])
    if chk.violations or chk.tier == "thorough":
        hit = fresh_battery(chk.seed) or history_battery(chk.seed)
        chk.extra["native_freshness_test"] = "failed" if hit else "passed"
    chk.samples = [o.j() for o in chk.obs if "returned pointer" in o.name][:8]


def history_battery(seed):
    """'identical output no matter what was computed before': the scripted operations of the scalar-multiplication battery
    run in ONE process in an order that interleaves routines and term counts (a larger multi-scalar call before a smaller
    one, table users before and after each other); every result is compared with the stateless big-integer oracle"""
    from sym import ptreplay
    return ptreplay.battery_scalarmult(seed, maxn=3) or ptreplay.battery_history_variants(seed) or ptreplay.battery_decode_history(seed) or ptreplay.battery_receiver_history(seed) or ptreplay.battery_history_after_panic(seed) or ptreplay.battery_scalarmult(seed + 1, maxn=4)


def safety_net(chk):
    return fresh_battery(chk.seed) or history_battery(chk.seed)
