"""C14 - failed setters are atomic and successful ones return the receiver."""
from sym import kernels as K, l1 as L1m
from sym.check import Ob
from .common import setup, run_kernels
from . import c04, c08, c13

E, F = K.E, K.F


def run(chk):
    prog, base = setup(chk)
    from .common import state_shape
    state_shape(chk, prog)
    chk.bounds = ["all inputs of the right length (symbolic contents) and every other length (one symbolic length) for the seven fallible setters; arbitrary prior receiver contents"]
    chk.outside = []
    chk.assumptions = ["data callees summarised by contracts (as in C04/C08/C13); write sets come from executing the real setter bodies (effects log)"]
    ET, ST, PT = prog.T(F + "Element"), prog.T(E + "Scalar"), prog.T(E + "Point")
    l1a = L1m.L1(base, chk)
    l1b = L1m.L1(base, chk)
    items = [
        ("Element.SetBytes ok", lambda: K.k_setbytes(base, chk)),
        ("Element.SetWideBytes ok", lambda: K.k_setwide(base, chk)),
        ("Element.SetBytes len", lambda: K.k_len_reject(base, chk, prog.find("Element).SetBytes"), 32, ET, "Element.SetBytes")),
        ("Element.SetWideBytes len", lambda: K.k_len_reject(base, chk, prog.find("Element).SetWideBytes"), 64, ET, "Element.SetWideBytes")),
        ("Scalar.SetCanonicalBytes len", lambda: K.k_len_reject(base, chk, prog.find("Scalar).SetCanonicalBytes"), 32, ST, "Scalar.SetCanonicalBytes")),
        ("Scalar.SetUniformBytes len", lambda: K.k_len_reject(base, chk, prog.find("Scalar).SetUniformBytes"), 64, ST, "Scalar.SetUniformBytes")),
        ("Scalar.SetBytesWithClamping len", lambda: K.k_len_reject(base, chk, prog.find("Scalar).SetBytesWithClamping"), 32, ST, "Scalar.SetBytesWithClamping")),
        ("Point.SetBytes len", lambda: K.k_len_reject(base, chk, prog.find("Point).SetBytes"), 32, PT, "Point.SetBytes")),
        ("isReduced", lambda: c08.k_isreduced(base, chk)),
        ("Scalar.SetCanonicalBytes", lambda: c08.k_setter(base, chk, "SetCanonicalBytes", 32, lambda d, p, bs: K.bval(bs), ("x", lambda b: int.from_bytes(b, "little")), lambda b: int.from_bytes(b, "little") < K.L, canonical=True)),
        ("Scalar.SetUniformBytes", lambda: c08.k_setter(base, chk, "SetUniformBytes", 64, lambda d, p, bs: K.bval(bs), ("x (512 bit)", lambda b: int.from_bytes(b, "little")))),
        ("Scalar.SetBytesWithClamping", lambda: c08.k_setter(base, chk, "SetBytesWithClamping", 32, c08.clamp_lf, ("clamp(x)", c08.clamp_py))),
        ("Point.SetBytes", lambda: c04.k_setbytes(l1a)),
        ("Point.SetExtendedCoordinates", lambda: c13.k_setext(l1b)),
    ]
    run_kernels(chk, items)
    from sym import ptreplay
    L1m.settle(chk, [o for o in chk.obs if o.name.startswith("Point.SetBytes")], lambda: c04.decode_battery(chk.seed), "Point.SetBytes")
    L1m.settle(chk, [o for o in chk.obs if "SetExtendedCoordinates" in o.name], lambda: c13.setext_battery_with_witnesses(chk, base), "Point.SetExtendedCoordinates")
    chk.extra.pop("setext_accept_polys", None); chk.extra.pop("setext_reject_polys", None)
    chk.samples = [o.j() for o in chk.obs if "reject" in o.name or "(nil, error)" in o.name][:8]


def safety_net(chk):
    return c04.decode_battery(chk.seed) or c13.safety_net(chk) or c08.safety_net(chk)
