import os, time, sys, time, pickle, traceback
from sym import ir, kernels as K

NPROC = int(os.environ.get("VERIF_NPROC", "14"))


def setup(chk, tags=""):
    prog = ir.load(tags)
    base = K.Base(prog)
    chk.extra["source_hash"] = prog.source_hash()
    chk._prog = prog
    chk.extra["config"] = {"tags": tags or "(default: amd64,gc)", "field_mul": "amd64 assembly (fe_amd64.s, interpreted)" if base.has_asm else "portable Go"}
    return prog, base


from sym import exec as _X


def _xs_delta():
    from sym import xsolve
    return dict(xsolve.stats)


def _xs_merge(chk, d):
    if not d or not d.get("queries"):
        return
    cur = chk.extra.setdefault("cross_solver", {"queries": 0, "z3-4.8.12": {}, "cvc5": {}, "disagreements": []})
    cur["queries"] += d["queries"]
    for k in ("z3-4.8.12", "cvc5"):
        for v, n in d[k].items():
            cur[k][v] = cur[k].get(v, 0) + n
    cur["disagreements"].extend(d["disagreements"])


def _delta(chk, mark):
    return dict(obs=chk.obs[mark["obs"]:], violations=chk.violations[mark["viol"]:], known=chk.known[mark["known"]:],
                inconclusive=chk.inconclusive[mark["inc"]:], functions=chk.functions, validated=chk.validated - mark["val"],
                samples=chk.samples[mark["samples"]:], extra=chk.extra, xs=_xs_delta(), cov=set(_X.COVERED))


def _mark(chk):
    return dict(obs=len(chk.obs), viol=len(chk.violations), known=len(chk.known), inc=len(chk.inconclusive), val=chk.validated, samples=len(chk.samples))


def _apply(chk, d):
    chk.obs.extend(d["obs"])
    chk.violations.extend(d["violations"])
    chk.known.extend(d["known"])
    chk.inconclusive.extend(d["inconclusive"])
    chk.functions.update(d["functions"])
    chk.validated += d["validated"]
    chk.samples.extend(d["samples"])
    _xs_merge(chk, d.get("xs"))
    _X.COVERED.update(d.get("cov", ()))
    for k, v in d.get("extra", {}).items():
        if k == "cross_solver":
            continue
        if isinstance(v, dict) and isinstance(chk.extra.get(k, {}), dict):
            chk.extra.setdefault(k, {}).update(v)
        elif k not in chk.extra:
            chk.extra[k] = v


def run_kernels(chk, items, parallel=None):
    """items: list of (label, thunk).  Thunks record into chk.  Engine errors in one item make the check
    inconclusive but do not stop the others.  With parallel=True each item runs in a forked child and its
    recorded delta is merged back in item order."""
    if parallel is None:
        parallel = os.environ.get("VERIF_PARALLEL", "1") == "1" and len(items) > 1
    if not parallel:
        for label, fn in items:
            try:
                fn()
            except Exception as e:
                traceback.print_exc()
                chk.note_inconclusive("kernel %s: engine error %r" % (label, e))
        return
    results = {}
    running = {}   # pid -> (index, read fd)
    pending = list(enumerate(items))
    pending.reverse()

    started = {}
    limit = float(os.environ.get("VERIF_ITEM_TIMEOUT", "3000" if chk.tier == "thorough" else "900"))

    def reap(block):
        import select, signal
        if not running:
            return
        # wall-clock guard per item: a solver call that ignores its timeout (or an exploration that does not end) must not
        # hang the check; the item is killed and recorded as undecided
        now = time.time()
        for pid, (idx, f) in list(running.items()):
            if now - started.get(pid, now) > limit:
                try:
                    os.kill(pid, signal.SIGKILL)
                except OSError:
                    pass
                os.close(f)
                os.waitpid(pid, 0)
                del running[pid]
                results[idx] = dict(obs=[], violations=[], known=[], inconclusive=["kernel %s: no result within %d s (killed)" % (items[idx][0], limit)], functions={}, validated=0, samples=[])
        if not running:
            return
        fds = [fd for (_, fd) in running.values()]
        r, _, _ = select.select(fds, [], [], 20 if block else 0)
        for fd in r:
            for pid, (idx, f) in list(running.items()):
                if f == fd:
                    chunks = []
                    while True:
                        b = os.read(fd, 1 << 20)
                        if not b:
                            break
                        chunks.append(b)
                    os.close(fd)
                    os.waitpid(pid, 0)
                    del running[pid]
                    try:
                        results[idx] = pickle.loads(b"".join(chunks))
                    except Exception as e:
                        results[idx] = dict(obs=[], violations=[], known=[], inconclusive=["kernel %s: worker died (%r)" % (items[idx][0], e)], functions={}, validated=0, samples=[])
    while pending or running:
        while pending and len(running) < NPROC:
            idx, (label, fn) = pending.pop()
            rfd, wfd = os.pipe()
            sys.stdout.flush()
            sys.stderr.flush()
            pid = os.fork()
            if pid == 0:
                os.close(rfd)
                mark = _mark(chk)
                try:
                    fn()
                except Exception as e:
                    traceback.print_exc()
                    chk.note_inconclusive("kernel %s: engine error %r" % (label, e))
                try:
                    d = _delta(chk, mark)
                    for o in d["obs"]:
                        if hasattr(o, "goal_poly"):
                            try:
                                del o.goal_poly
                            except Exception:
                                pass
                    data = pickle.dumps(d)
                except Exception as e:
                    data = pickle.dumps(dict(obs=[], violations=[], known=[], inconclusive=["kernel %s: result not picklable (%r)" % (label, e)], functions={}, validated=0, samples=[]))
                with os.fdopen(wfd, "wb") as f:
                    f.write(data)
                os._exit(0)
            os.close(wfd)
            running[pid] = (idx, rfd)
            started[pid] = time.time()
        reap(True)
    for idx in sorted(results):
        _apply(chk, results[idx])


ELEMENT_API = {"Absolute", "Add", "Bytes", "Equal", "Invert", "IsNegative", "Mult32", "Multiply", "Negate", "One", "Pow22523", "Select", "Set", "SetBytes", "SetWideBytes",
               "SqrtRatio", "Square", "Subtract", "Swap", "Zero"}
SCALAR_API = {"Add", "Subtract", "Negate", "Multiply", "MultiplyAdd", "Invert", "Set", "Equal", "Bytes", "SetBytesWithClamping", "SetCanonicalBytes", "SetUniformBytes"}


def api_surface(chk, prog, recv, covered, claim):
    """the property quantifies over 'every operation': the exported methods are enumerated from the SSA of the current
    source; one that no harness of this check covers leaves the check undecided (a new operation needs a new harness)"""
    from sym.check import Ob
    prefix = {"Element": "(*filippo.io/edwards25519/field.Element).", "Scalar": "(*filippo.io/edwards25519.Scalar).", "Point": "(*filippo.io/edwards25519.Point)."}[recv]
    methods = sorted(f["short"] for n, f in prog.funcs.items() if n.startswith(prefix) and f.get("exported") and not f.get("external"))
    unknown = [m for m in methods if m not in covered]
    chk.add(Ob("API surface: every exported method of %s (%d, enumerated from SSA) is covered by %s" % (recv, len(methods), claim), "unsat" if not unknown else "uncovered:%s" % unknown, 0, [], "API surface from SSA"))


def uncovered_blocks(prog, only=None):
    """basic blocks of entered repo functions that no explored path reached, ignoring blocks from which no return is
    reachable (panic-only code).  A block listed here is code outside what the harness bounds explored - typically a branch
    on a length / count above the bound."""
    entered = {}
    for fn, b in _X.COVERED:
        entered.setdefault(fn, set()).add(b)
    out = {}
    for fn, cov in entered.items():
        f = prog.funcs.get(fn)
        if not f or f.get("external") or not f.get("pkg", "").startswith("filippo.io/edwards25519"):
            continue
        if only is not None and fn not in only:
            continue
        blocks = f["blocks"]
        # blocks that can reach a Return
        succs = {i: list(b.get("succs", [])) for i, b in enumerate(blocks)}
        can = {i for i, b in enumerate(blocks) if any(ins["op"] == "Return" for ins in b["instrs"])}
        changed = True
        while changed:
            changed = False
            for i, ss in succs.items():
                if i not in can and any(x in can for x in ss):
                    can.add(i)
                    changed = True
        # the recover block of a function with defer statements is entered only when a panic is recovered
        miss = sorted(i for i in can if i not in cov and i != f.get("recover_block"))
        if miss:
            out[fn] = [(i, next((ins.get("pos") for ins in blocks[i]["instrs"] if ins.get("pos")), "")) for i in miss]
    return out


def _contract_summarised(chk, prog):
    """names of the library functions that a group-mode (L2) executor summarises by contract"""
    try:
        from sym import l2 as L2m, kernels as K
        base = getattr(chk, "_base", None) or K.Base(prog)
        h = L2m.L2(base, chk)
        return {n for n in h.ex.summaries if n in prog.funcs and prog.funcs[n].get("pkg", "").startswith("filippo.io/edwards25519") and not prog.funcs[n].get("external")}
    except Exception:
        return set()


def bounds_cover_code(chk, prog, roots, exempt=()):
    """unwinding-assertion analogue: every basic block (other than panic-only code) of the functions under test and of
    the repo functions they reach and enter must have been executed by some explored path; otherwise the code contains
    behaviour outside the harness bounds (e.g. a branch on a term count above n) and the check is undecided.
    Returns the length-like constants of the functions with unexplored blocks (for the native battery)."""
    from sym.check import Ob
    # functions that the explorations of the roots replace by their contracts (the point formulas, selectors, recoders,
    # field and scalar operations: each has its own harness that iterates over all its paths) are not entered by those
    # explorations; blocks of helpers that only they reach are not part of what the term-count bound has to cover
    stop = _contract_summarised(chk, prog) - set(roots)
    seen, work = set(), list(roots)
    while work:
        x = work.pop()
        if x in seen or x in stop:
            continue
        seen.add(x)
        fx = prog.funcs.get(x)
        if not fx or fx.get("external") or x in exempt:
            continue      # helpers reached only through an exempt function are exempt with it
        for b in fx["blocks"]:
            for ins in b["instrs"]:
                if ins["op"] == "Call" and ins["call"]["mode"] == "static":
                    work.append(ins["call"]["fn"])
                if ins["op"] == "MakeClosure":
                    work.append(ins["fn"])
    unc = {fn: v for fn, v in uncovered_blocks(prog, only=seen).items() if fn not in exempt}
    names = sorted(r.split(".")[-1].replace(")", "") for r in roots)
    chk.add(Ob("bounds cover the code: every non-panic basic block of %s and of the functions they enter is reached by an explored path" % ", ".join(names),
               "unsat" if not unc else "unexplored:%s" % {k.replace("filippo.io/edwards25519", "ed"): [p for _, p in v][:3] for k, v in unc.items()}, 0, sorted(unc) or list(roots)[:1], "block coverage of the symbolic exploration"))
    consts = set()
    for fn in unc:
        for b in prog.funcs[fn]["blocks"]:
            for ins in b["instrs"]:
                if ins["op"] == "BinOp" and ins.get("binop") in ("<", "<=", ">", ">=", "==", "!="):
                    for key in ("x", "y"):
                        v = ins.get(key)
                        if isinstance(v, dict) and v.get("k") == "const" and not v.get("str") and not v.get("float"):
                            try:
                                cv = int(v.get("v"))
                            except (TypeError, ValueError):
                                continue
                            if 2 <= cv <= 512:
                                consts.add(cv)
    return sorted(consts)


def settle_bounds(chk, prog, roots, exempt=("filippo.io/edwards25519.checkInitialized", "(*filippo.io/edwards25519.Scalar).nonAdjacentForm")):
    # exempt: checkInitialized (its second test is never reached under the group-mode abstraction; executed at limb level
    # in C15) and nonAdjacentForm (discharged inductively from a loop-head hook, which does not walk the exit blocks)
    """bounds_cover_code + native battery with term counts around the constants of the unexplored code"""
    from sym import ptreplay
    consts = bounds_cover_code(chk, prog, roots, exempt)
    ob = chk.obs[-1]
    if ob.ok():
        return
    sizes = sorted({n for c in (consts or [8, 16, 32, 64]) for n in (c - 1, c, c + 1, c + 3, c + 6, 2 * c + 1) if 0 <= n <= 600})[:14]
    chk.extra["large_term_counts_replayed"] = sizes
    try:
        hit = ptreplay.battery_multiscalar_sizes(chk.seed, sizes)
    except Exception as e:
        import traceback
        traceback.print_exc()
        chk.note_inconclusive("large-n battery failed: %r" % (e,))
        return
    if hit:
        ob.verdict = "violated"
        chk.violation("multi-scalar routines above the symbolic bound", hit["what"], hit)


def settle_bounds_history(chk, prog, roots, exempt=("filippo.io/edwards25519.checkInitialized", "(*filippo.io/edwards25519.Scalar).nonAdjacentForm")):
    """bounds_cover_code for the whole-API effect sweeps (C18/C19): code that only larger slice lengths reach was not
    looked at; the history battery is then run with term counts around the constants of that code"""
    from sym import ptreplay
    consts = bounds_cover_code(chk, prog, roots, exempt)
    ob = chk.obs[-1]
    if ob.ok():
        return
    chk.extra["history_term_counts_from_constants"] = consts
    try:
        hit = ptreplay.battery_history_sizes(chk.seed, consts) or ptreplay.battery_multiscalar_sizes(chk.seed, sorted({n for c in (consts or [8, 64]) for n in (c, c + 1, 2 * c + 1) if n <= 600})[:8])
    except Exception as e:
        import traceback
        traceback.print_exc()
        chk.note_inconclusive("large-n history battery failed: %r" % (e,))
        return
    if hit:
        ob.verdict = "violated"
        chk.violation("multi-scalar routines above the symbolic bound", hit["what"], hit)


def state_shape(chk, prog):
    """the inductive arguments quantify over 'an arbitrary valid Point / Scalar / Element' = arbitrary values of the
    coordinate / limb fields.  If a type has gained further fields (caches, flags), a pre-state is more than that and the
    harness pre-states (extra fields zero, as in a freshly produced value) no longer cover all reachable states: the
    check is then undecided (and the history batteries run)."""
    want = {"filippo.io/edwards25519.Point": ["_", "x", "y", "z", "t"], "filippo.io/edwards25519.Scalar": ["s"],
            "filippo.io/edwards25519/field.Element": ["l0", "l1", "l2", "l3", "l4"]}
    for tn, fields in want.items():
        try:
            have = [f["name"] for f in prog.T(tn).u.fields]
        except Exception as e:
            have = ["?%r" % (e,)]
        chk.soft("%s has no state other than %s (harness pre-states cover every reachable value)" % (tn.split(".")[-1], [f for f in fields if f != "_"]), have == fields, [], "type shape from SSA",
                 detail="fields now: %s" % have)


def platform_independence(chk, prog):
    """the contracts are proved from the SSA of this platform (64-bit int).  They carry over to 32-bit targets only if the
    code does not depend on the platform word size: the SSA of every repo function must be the same for GOARCH=386 as for
    the portable build here.  A difference leaves the check undecided and starts the native field battery under GOARCH=386."""
    from sym import ir
    from .c20 import strip, config_battery
    try:
        p2, p3 = ir.load("purego"), ir.load(goarch="386")
    except Exception as e:
        chk.note_inconclusive("GOARCH=386 configuration could not be loaded: %r" % (e,))
        return
    ours = [n for n, f in p2.funcs.items() if f.get("pkg", "").startswith("filippo.io/edwards25519")]
    diff = [n for n in ours if n not in p3.funcs or strip(p2.funcs[n]) != strip(p3.funcs[n])]
    ob = chk.soft("no platform-width dependent code: SSA of all %d functions identical for GOARCH=386 and for the portable build on amd64" % len(ours), not diff, [], "configuration", detail=str(diff[:5]))
    if diff:
        hit = config_battery(chk.seed, goarch="386")
        if hit:
            ob.verdict = "violated"
            chk.violation("GOARCH=386", hit["what"], hit)
    # identical SSA does not mean identical semantics where a 64-bit value passes through a platform-width type: a
    # conversion uint64/int64 -> int/uint/uintptr keeps 64 bits here and 32 bits on a 32-bit target
    narrow = []
    for n in ours:
        f = p2.funcs[n]
        tymap = {p_["name"]: p_["type"] for p_ in (f.get("params") or []) + (f.get("freevars") or [])}
        for b in f.get("blocks") or []:
            for ins in b["instrs"]:
                if ins.get("name") and ins.get("type"):
                    tymap[ins["name"]] = ins["type"]
        for b in f.get("blocks") or []:
            for ins in b["instrs"]:
                if ins["op"] in ("Convert", "ChangeType"):
                    try:
                        xo = ins.get("x") if isinstance(ins.get("x"), dict) else {}
                        xt = xo.get("type") or tymap.get(xo.get("n"))
                        tt, ft = p2.T(ins["type"]), (p2.T(xt) if xt else None)
                        if ft is None or not (tt.is_int() and ft.is_int()):
                            continue
                        if tt.u.name in ("int", "uint", "uintptr") and ft.int_info()[0] == 64 and ft.u.name not in ("int", "uint", "uintptr"):
                            if isinstance(ins["x"], dict) and ins["x"].get("k") == "const":
                                continue
                            # harmless when every use masks the result down to bits that survive the truncation
                            # (e.g. `int(^nonzero) & 1` in Scalar.Equal)
                            def refs(o, name):
                                if isinstance(o, dict):
                                    return (o.get("n") == name and o.get("k") != "const") or any(refs(v, name) for v in o.values())
                                if isinstance(o, list):
                                    return any(refs(v, name) for v in o)
                                return False
                            uses = [u for b2 in f["blocks"] for u in b2["instrs"] if u is not ins and any(refs(v, ins.get("name")) for k_, v in u.items() if k_ not in ("name",))]

                            def masked(u):
                                if u["op"] != "BinOp" or u.get("binop") != "&":
                                    return False
                                for key in ("x", "y"):
                                    o = u.get(key)
                                    if isinstance(o, dict) and o.get("k") == "const":
                                        try:
                                            return 0 <= int(o.get("v")) < (1 << 31)
                                        except (TypeError, ValueError):
                                            return False
                                return False
                            if uses and all(masked(u) for u in uses):
                                continue
                            # ... or when the converted value itself cannot exceed 31 bits: x >> k with k >= 33, x & const
                            dfn = next((u for b2 in f["blocks"] for u in b2["instrs"] if u.get("name") == xo.get("n")), None)

                            def opsmall(o, depth):
                                if not isinstance(o, dict):
                                    return False
                                if o.get("k") == "const":
                                    try:
                                        return 0 <= int(o.get("v")) < (1 << 31)
                                    except (TypeError, ValueError):
                                        return False
                                d_ = next((u for b2 in f["blocks"] for u in b2["instrs"] if u.get("name") == o.get("n")), None)
                                return depth > 0 and small(d_, depth - 1)

                            def small(u, depth=3):
                                if not u or u["op"] != "BinOp":
                                    return False
                                try:
                                    if u.get("binop") in ("^", "|") and opsmall(u.get("x"), depth) and opsmall(u.get("y"), depth):
                                        return True
                                    if u.get("binop") == ">>" and isinstance(u.get("y"), dict) and u["y"].get("k") == "const":
                                        return int(u["y"]["v"]) >= 33
                                    if u.get("binop") == "&":
                                        return any(isinstance(u.get(k_), dict) and u[k_].get("k") == "const" and 0 <= int(u[k_]["v"]) < (1 << 31) for k_ in ("x", "y"))
                                except (TypeError, ValueError, KeyError):
                                    return False
                                return False
                            if small(dfn):
                                continue
                            narrow.append("%s: %s -> %s at %s" % (n.split(".")[-1], ft.u.name, tt.u.name, ins.get("pos", "")))
                    except Exception:
                        continue
    ob2 = chk.soft("no 64-bit value is converted to a platform-width integer type (int / uint / uintptr): nothing is truncated on 32-bit targets", not narrow, [], "SSA scan", detail=str(narrow[:4]))
    if narrow and not diff:
        hit = config_battery(chk.seed, goarch="386")
        if hit:
            ob2.verdict = "violated"
            chk.violation("GOARCH=386", hit["what"], hit)
