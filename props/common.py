import time
from sym import ir, kernels as K


def setup(chk, tags=""):
    prog = ir.load(tags)
    base = K.Base(prog)
    chk.extra["source_hash"] = prog.source_hash()
    chk.extra["config"] = {"tags": tags or "(default: amd64,gc)", "field_mul": "amd64 assembly (fe_amd64.s, interpreted)" if base.has_asm else "portable Go"}
    return prog, base


def run_kernels(chk, items):
    """items: list of (label, thunk); engine errors in one kernel make the check inconclusive but do not stop the others"""
    for label, fn in items:
        t0 = time.time()
        try:
            fn()
        except Exception as e:
            import traceback
            traceback.print_exc()
            chk.note_inconclusive("kernel %s: engine error %r" % (label, e))
