import os, sys, time, pickle, traceback
from sym import ir, kernels as K

NPROC = int(os.environ.get("VERIF_NPROC", "14"))


def setup(chk, tags=""):
    prog = ir.load(tags)
    base = K.Base(prog)
    chk.extra["source_hash"] = prog.source_hash()
    chk.extra["config"] = {"tags": tags or "(default: amd64,gc)", "field_mul": "amd64 assembly (fe_amd64.s, interpreted)" if base.has_asm else "portable Go"}
    return prog, base


def _xs_delta():
    from sym import xsolve
    return dict(xsolve.stats)


def _xs_merge(chk, d):
    if not d or not d.get("queries"):
        return
    cur = chk.extra.setdefault("cross_solver", {"queries": 0, "z3-4.8.12": {}, "cvc5": {}, "disagreements": []})
    cur["queries"] += d["queries"]
    for k in ("z3-4.8.12", "cvc5"):
        for v, n in d[k].items():
            cur[k][v] = cur[k].get(v, 0) + n
    cur["disagreements"].extend(d["disagreements"])


def _delta(chk, mark):
    return dict(obs=chk.obs[mark["obs"]:], violations=chk.violations[mark["viol"]:], known=chk.known[mark["known"]:],
                inconclusive=chk.inconclusive[mark["inc"]:], functions=chk.functions, validated=chk.validated - mark["val"],
                samples=chk.samples[mark["samples"]:], extra=chk.extra, xs=_xs_delta())


def _mark(chk):
    return dict(obs=len(chk.obs), viol=len(chk.violations), known=len(chk.known), inc=len(chk.inconclusive), val=chk.validated, samples=len(chk.samples))


def _apply(chk, d):
    chk.obs.extend(d["obs"])
    chk.violations.extend(d["violations"])
    chk.known.extend(d["known"])
    chk.inconclusive.extend(d["inconclusive"])
    chk.functions.update(d["functions"])
    chk.validated += d["validated"]
    chk.samples.extend(d["samples"])
    _xs_merge(chk, d.get("xs"))
    for k, v in d.get("extra", {}).items():
        if k == "cross_solver":
            continue
        if isinstance(v, dict) and isinstance(chk.extra.get(k, {}), dict):
            chk.extra.setdefault(k, {}).update(v)
        elif k not in chk.extra:
            chk.extra[k] = v


def run_kernels(chk, items, parallel=None):
    """items: list of (label, thunk).  Thunks record into chk.  Engine errors in one item make the check
    inconclusive but do not stop the others.  With parallel=True each item runs in a forked child and its
    recorded delta is merged back in item order."""
    if parallel is None:
        parallel = os.environ.get("VERIF_PARALLEL", "1") == "1" and len(items) > 1
    if not parallel:
        for label, fn in items:
            try:
                fn()
            except Exception as e:
                traceback.print_exc()
                chk.note_inconclusive("kernel %s: engine error %r" % (label, e))
        return
    results = {}
    running = {}   # pid -> (index, read fd)
    pending = list(enumerate(items))
    pending.reverse()

    def reap(block):
        import select
        if not running:
            return
        fds = [fd for (_, fd) in running.values()]
        r, _, _ = select.select(fds, [], [], None if block else 0)
        for fd in r:
            for pid, (idx, f) in list(running.items()):
                if f == fd:
                    chunks = []
                    while True:
                        b = os.read(fd, 1 << 20)
                        if not b:
                            break
                        chunks.append(b)
                    os.close(fd)
                    os.waitpid(pid, 0)
                    del running[pid]
                    try:
                        results[idx] = pickle.loads(b"".join(chunks))
                    except Exception as e:
                        results[idx] = dict(obs=[], violations=[], known=[], inconclusive=["kernel %s: worker died (%r)" % (items[idx][0], e)], functions={}, validated=0, samples=[])
    while pending or running:
        while pending and len(running) < NPROC:
            idx, (label, fn) = pending.pop()
            rfd, wfd = os.pipe()
            sys.stdout.flush()
            sys.stderr.flush()
            pid = os.fork()
            if pid == 0:
                os.close(rfd)
                mark = _mark(chk)
                try:
                    fn()
                except Exception as e:
                    traceback.print_exc()
                    chk.note_inconclusive("kernel %s: engine error %r" % (label, e))
                try:
                    d = _delta(chk, mark)
                    for o in d["obs"]:
                        if hasattr(o, "goal_poly"):
                            try:
                                del o.goal_poly
                            except Exception:
                                pass
                    data = pickle.dumps(d)
                except Exception as e:
                    data = pickle.dumps(dict(obs=[], violations=[], known=[], inconclusive=["kernel %s: result not picklable (%r)" % (label, e)], functions={}, validated=0, samples=[]))
                with os.fdopen(wfd, "wb") as f:
                    f.write(data)
                os._exit(0)
            os.close(wfd)
            running[pid] = (idx, rfd)
        reap(True)
    for idx in sorted(results):
        _apply(chk, results[idx])


ELEMENT_API = {"Absolute", "Add", "Bytes", "Equal", "Invert", "IsNegative", "Mult32", "Multiply", "Negate", "One", "Pow22523", "Select", "Set", "SetBytes", "SetWideBytes",
               "SqrtRatio", "Square", "Subtract", "Swap", "Zero"}
SCALAR_API = {"Add", "Subtract", "Negate", "Multiply", "MultiplyAdd", "Invert", "Set", "Equal", "Bytes", "SetBytesWithClamping", "SetCanonicalBytes", "SetUniformBytes"}


def api_surface(chk, prog, recv, covered, claim):
    """the property quantifies over 'every operation': the exported methods are enumerated from the SSA of the current
    source; one that no harness of this check covers leaves the check undecided (a new operation needs a new harness)"""
    from sym.check import Ob
    prefix = {"Element": "(*filippo.io/edwards25519/field.Element).", "Scalar": "(*filippo.io/edwards25519.Scalar).", "Point": "(*filippo.io/edwards25519.Point)."}[recv]
    methods = sorted(f["short"] for n, f in prog.funcs.items() if n.startswith(prefix) and f.get("exported") and not f.get("external"))
    unknown = [m for m in methods if m not in covered]
    chk.add(Ob("API surface: every exported method of %s (%d, enumerated from SSA) is covered by %s" % (recv, len(methods), claim), "unsat" if not unknown else "uncovered:%s" % unknown, 0, [], "API surface from SSA"))
