"""./check <ID> --replay <file>: re-execute a stored counterexample on the real compiled package
(current /repo working tree) through the injected driver and print what the library returns now."""
import json, sys
from sym import native, ref


def replay_file(path):
    d = json.load(open(path))
    r = d.get("replay", {})
    print("property:", d.get("property"), "key:", d.get("key"))
    print("recorded:", d.get("what"))
    op = r.get("op")
    if not op:
        print("structural finding (no native operation to re-run):", json.dumps(r)[:800])
        return 0
    ops = None
    pkg = ""
    if "init" in r and "args" in r:
        ops = [{"op": op, "args": r["args"], "init": r["init"]}]
        pkg = "" if op.startswith(("P.", "S.")) or op in ("NewIdentityPoint", "NewGeneratorPoint") else "field"
    elif "inputs" in r:
        inp = r["inputs"]
        if op.startswith("fiatScalar") or op.startswith("S.") or op in ("signedRadix16", "nonAdjacentForm", "isReduced"):
            pkg = ""
            init, args = {}, []
            if op == "isReduced":
                ops = [{"op": "isReduced", "args": ["x"], "init": {"x": "hex:" + inp["x"]}}]
            elif "x" in inp and isinstance(inp["x"], str):
                ops = [{"op": op if op.startswith("S.") else "S." + op, "args": ["s", "x"], "init": {"s": "w:1,2,3,4", "x": "hex:" + inp["x"]}}]
            else:
                names = [k for k in inp if k not in ("w",)]
                for n in names:
                    v = int(inp[n]) % ref.L
                    init[n] = "w:" + ",".join(str((v >> (64 * i)) & (2**64 - 1)) for i in range(4))
                if op in ("signedRadix16", "nonAdjacentForm"):
                    v = int(inp["k"]) * 2**256 % ref.L
                    ops = [{"op": "S." + op, "args": ["s"] + ([str(inp["w"])] if "w" in inp else []), "init": {"s": "w:" + ",".join(str((v >> (64 * i)) & (2**64 - 1)) for i in range(4))}}]
                else:
                    init["out"] = "w:7,7,7,7"
                    ops = [{"op": op, "args": ["out"] + names, "init": init}]
        else:
            pkg = "field"
            init, args = {}, []
            for n, v in inp.items():
                if isinstance(v, list):
                    init[n] = ref.fmt_limbs(v)
                    args.append(n)
                elif isinstance(v, str) and len(v) in (64, 128) and all(c in "0123456789abcdef" for c in v):
                    init[n] = "hex:" + v
                    args.append(n)
                else:
                    args.append(str(v))
            if op in ("carryPropagate", "carryPropagateGeneric", "reduce", "Bytes", "IsNegative"):
                ops = [{"op": op, "args": args, "init": init}]
            else:
                init["out"] = "7,7,7,7,7"
                ops = [{"op": op, "args": ["out"] + args, "init": init}]
    if not ops:
        print("cannot reconstruct a native call from:", json.dumps(r)[:800])
        return 0
    res = native.run_ops(pkg, ops)
    print("operation:", json.dumps(ops[0])[:1000])
    print("library returns now:", json.dumps(res[0])[:2000])
    return 0
