"""entry point: python -m props.run <ID> [--tier t] [--replay path]"""
import sys, importlib, json, os
from sym import check


def main():
    if len(sys.argv) < 2:
        print("usage: check <ID> [--tier quick|thorough] [--replay path]")
        sys.exit(2)
    pid = sys.argv[1].upper()
    sys.argv = [sys.argv[0]] + sys.argv[2:]
    if "--tier" in sys.argv:
        os.environ["VERIF_TIER"] = sys.argv[sys.argv.index("--tier") + 1]
    mod = importlib.import_module("props." + pid.lower())
    if "--replay" in sys.argv:
        path = sys.argv[sys.argv.index("--replay") + 1]
        from props import replay
        sys.exit(replay.replay_file(path))
    check.main_wrapper(pid, mod.run, getattr(mod, "safety_net", None))


main()
