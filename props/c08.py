"""C08 - scalar encodings: canonical output, exact accept set, wide reduction, clamping."""
import time, z3
from sym import kernels as K, exec as X, dom_lf, dom_bv, scalarmode, absmodes
from sym.dom_lf import LF, LFCond
from sym.check import Ob
from .common import setup, run_kernels
from .c07 import SR

E = K.E
L = K.L


def k_isreduced(base, chk):
    fname = E + "isReduced"
    k = K.BVK(base, chk, fname)
    sl, bs, boid = k.byte_slice("s", 32)
    t0 = time.time()
    paths = k.run([sl])
    val = K.cat_bytes(bs)
    lm1 = z3.BitVecVal(L - 1, 256)
    bad = 0
    for p in paths:
        if p.outcome[0] != "ret":
            bad += 1
            continue
        r = p.outcome[1][0]
        want = z3.ULE(val, lm1)
        goal = want if r is True else z3.Not(want) if r is False else (r == want)
        s = z3.Solver()
        s.set("timeout", 60000)
        for c in p.pc:
            s.add(c)
        s.add(z3.Not(goal))
        res = str(s.check())
        if res != "unsat":
            bad += 1
            m = s.model() if res == "sat" else None
            ob = Ob("isReduced: path returning %s agrees with value <= l-1" % r, res, 0, [fname], "BV", model={n: str(m.eval(v, model_completion=True)) for n, v in k.inputs.items()} if m else None)
            chk.add(ob)
            k.sat_obs.append(ob)
    chk.add(Ob("isReduced(32 bytes) <=> little-endian value <= l-1, on each of its %d paths (early-exit loop forked, feasibility by z3)" % len(paths),
               "unsat" if bad == 0 else "sat-see-above", time.time() - t0, [fname], "BV"))
    chk.fact("isReduced: input not written", not any(w[0] == "w" and w[1] == boid for p in paths for w in p.log), [fname])
    g = base.global_val(E + "scalarMinusOneBytes")
    chk.fact("scalarMinusOneBytes = l-1 (little endian)", sum(int(b) << (8 * i) for i, b in enumerate(g)) == L - 1, [E + "init"], "concrete")

    def replay(models, seed):
        from sym import native
        import random
        rng = random.Random(seed)
        cands = [K.bytes_model_to_hex(m, "s", 32) for m in models]
        for v in (L, L - 1, L + 1, 0, 2**256 - 1, 2**252, 2**252 - 1, L + 2**64, L - 2**64, 2**255, L | (1 << 255)):
            cands.append((v % 2**256).to_bytes(32, "little").hex())
        for i in range(32):   # perturb one byte of l-1 / l
            for base_v in (L - 1, L):
                b = bytearray(base_v.to_bytes(32, "little"))
                b[i] = (b[i] + rng.choice([1, 255])) & 255
                cands.append(bytes(b).hex())
        res = native.run_ops("", [{"op": "isReduced", "args": ["x"], "init": {"x": "hex:" + c}} for c in cands])
        for c, r in zip(cands, res):
            want = int.from_bytes(bytes.fromhex(c), "little") < L
            if r.get("bool") != want:
                return dict(what="isReduced(%s) = %s, value %s l" % (c, r.get("bool"), "<" if want else ">="), op="isReduced", inputs=dict(x=c))
        return None
    k.settle(replay)


def setter_replay(chk, op, n, spec, accept=lambda b: True, extra=None):
    """native replay of a byte-string setter: value mod l, input unmodified, return conventions"""
    from sym import native
    import random
    rng = random.Random(chk.seed)
    R = 2**256
    cands = ["00" * n, "ff" * n, "01" + "00" * (n - 1), "00" * (n - 1) + "80", "ff" * (n - 1) + "7f"]
    for v in (L, L - 1, L + 1, 2**252, 2 * L, 2**255 - 19, 2**168, 2**336, 2**168 - 1, 2**336 - 1, 2**504):
        if v < 2**(8 * n):
            cands.append(v.to_bytes(n, "little").hex())
    cands += [bytes(rng.randrange(256) for _ in range(n)).hex() for _ in range(40)]
    cands = [bytes.fromhex(m).hex() for m in (extra or []) if len(m) == 2 * n] + cands
    if n == 32:
        # values around l whose 64-bit words differ from those of l in exactly one word (a comparison that skips or
        # mis-orders a word shows on these), and words of 0 / all-ones above and below the top word of l
        lw = [(L >> (64 * i)) & (2**64 - 1) for i in range(4)]
        for i in range(4):
            for w_ in (0, 1, lw[i] - 1, lw[i], lw[i] + 1, 2**63, 2**64 - 1):
                if 0 <= w_ < 2**64:
                    ws = list(lw)
                    ws[i] = w_
                    v = sum(x << (64 * j) for j, x in enumerate(ws))
                    cands.append(v.to_bytes(32, "little").hex())
                    for j in range(i):
                        ws2 = list(ws)
                        ws2[j] = 0
                        cands.append(sum(x << (64 * t) for t, x in enumerate(ws2)).to_bytes(32, "little").hex())
    from sym import ptreplay
    for a_ in ptreplay.montgomery_structured(1500):
        cands.append(a_.to_bytes(n, "little").hex())
        if n == 64:
            cands.append((a_ + rng.randrange(1, 2**250) * L).to_bytes(n, "little").hex())
    for i in range(n):
        b = bytearray(n)
        b[i] = 0xff
        cands.append(bytes(b).hex())
    prior = "w:11,22,33,44"
    res = native.run_ops("", [{"op": "S." + op, "args": ["s", "x"], "init": {"s": prior, "x": "hex:" + c}} for c in cands])
    for c, r in zip(cands, res):
        b = bytes.fromhex(c)
        if "panic" in r:
            return dict(what="%s(%s) panics: %s" % (op, c, r["panic"]), op=op, inputs=dict(x=c))
        if r["slots"]["x"] != "hex:" + c:
            return dict(what="%s modified its input" % op, op=op, inputs=dict(x=c))
        if accept(b):
            o = [int(x) for x in r["slots"]["s"][2:].split(",")]
            got = sum(x << (64 * i) for i, x in enumerate(o))
            want = spec(b) % L
            if r.get("err") or not r.get("ret_is_recv") or got >= L or got * pow(R, L - 2, L) % L != want:
                return dict(what="%s(%s): got value %d (err=%s), expected %d" % (op, c, got * pow(R, L - 2, L) % L, r.get("err"), want), op=op, inputs=dict(x=c))
        else:
            if not r.get("err") or not r.get("retnil") or r["slots"]["s"] != prior:
                return dict(what="%s(%s) should be rejected atomically: %s" % (op, c, r), op=op, inputs=dict(x=c))
    return None


def k_setter(base, chk, meth, n, spec_lf, spec_py, accept_py=lambda b: True, canonical=False):
    fname = base.prog.find("Scalar)." + meth)
    h = SR(base, chk, fname, "Scalar." + meth)
    bs = [h.dom.input("x[%d]" % i, 0, 255) for i in range(n)]
    boid = h.ex.new_obj(h.path, ("array", n + 72, base.prog.T("uint8")), name="x", init=list(bs) + [0xEE] * 72)
    s, sv = h.scalar("s")
    value = K.bval(bs)
    if canonical:
        def isred(ex, path, args):
            b = path.dstate.get("isred")
            if b is None:
                raise X.ForkRequest(LFCond("<=", value - (L - 1)), refine=lambda p, br: p.dstate.__setitem__("isred", br))
            path.dstate.pop("isred")
            return b
        h.ex.summaries[E + "isReduced"] = isred
    paths = h.ex.call(fname, [s, X.SliceV(boid, (), 0, n, n + 72)], h.path)
    sat = False
    acc = [p for p in paths if p.outcome[0] == "ret" and p.outcome[1][1] is None]
    rej = [p for p in paths if p.outcome[0] == "ret" and p.outcome[1][1] is not None]
    other = [p for p in paths if p.outcome[0] != "ret"]
    if any(p.outcome[0] == "error" for p in other) and not canonical:
        chk.extra.setdefault("limb_level_fallback", []).append(meth)
        return setter_limbs(base, chk, meth, n, spec_lf, spec_py, accept_py)
    chk.fact("Scalar.%s: no panic on any %d-byte input (%d accepting, %d rejecting paths)" % (meth, n, len(acc), len(rej)), not other and len(acc) >= 1, [fname], detail=str([p.outcome for p in other][:2]))
    for p in acc:
        got = h.val(p, s)
        want = spec_lf(h.dom, p, bs)
        if h.congr(p, "value = %s mod l" % spec_py[0], got, want) != "unsat":
            sat = True
        chk.fact("Scalar.%s: returns (receiver, nil); input bytes not written" % meth, p.outcome[1][0] == s and not any(w[0] == "w" and w[1] == boid for w in p.log), [fname])
    for p in rej:
        chk.fact("Scalar.%s: reject path returns (nil, error), receiver and input unwritten" % meth,
                 p.outcome[1][0] is None and not any(w[0] == "w" and w[1] in (s.obj, boid) for w in p.log), [fname])
    if canonical:
        if len(acc) == 1 and len(rej) == 1:
            chk.soft("Scalar.SetCanonicalBytes: accepts exactly when isReduced (1 accepting + 1 rejecting path)", True, [fname])
        else:
            # the body does not decide through isReduced (any more): decide the accept set on the real body in bit-vectors
            chk.extra.setdefault("bv_accept_set_fallback", []).append("SetCanonicalBytes")
            canonical_accept_bv(base, chk)
    # preconditions of the fiat functions used (inputs below l), decided per call site
    for i, (what, v, pth) in enumerate(h.st["pre"]):
        t0 = time.time()
        r = h.dom.prove_le(pth, v, L - 1, what)
        chk.add(Ob("Scalar.%s: %s (call %d)" % (meth, what, i), r, time.time() - t0, [fname], "LIA"))
        if r != "unsat":
            sat = True
    if sat:
        hit = setter_replay(chk, meth, n, spec_py[1], accept_py)
        for o in chk.obs:
            if o.name.startswith("Scalar.%s:" % meth) and o.verdict == "sat":
                o.verdict = "violated" if hit else "sat-unreplayed"
        if hit:
            chk.violation("Scalar." + meth, hit["what"], hit)


def canonical_accept_bv(base, chk):
    """SetCanonicalBytes accepts exactly the encodings of values < l, whatever way the body decides it (isReduced on the
    bytes, a borrow chain on the decoded limbs, ...): the real body is executed in bit-vectors on 32 symbolic bytes with
    the Montgomery conversion replaced by a havoc (its value contract is C07's); every path is classified by its error
    result and the solver decides  accepted => value < l  and  rejected => value >= l."""
    prog = base.prog
    fname = prog.find("Scalar).SetCanonicalBytes")
    k = K.BVK(base, chk, fname, label="SetCanonicalBytes [accept set, BV]")
    sl, bs, boid = k.byte_slice("x", 32)

    def havoc(ex_, path, a):
        for q in a[1:]:
            if isinstance(q, X.Ptr):
                ex_.load(path, q)
        ex_.store(path, a[0], tuple(z3.BitVec("mont%d_%d" % (i, len(path.log)), 64) for i in range(4)))
    for nm in ("fiatScalarToMontgomery", "fiatScalarMul"):
        k.ex.summaries[E + nm] = havoc
    limbs = [k.bv("s[%d]" % i, 64) for i in range(4)]
    recv = X.Ptr(k.ex.new_obj(k.path, prog.T(E + "Scalar"), name="s", init=[list(limbs)]))
    k.ex.deadline = time.time() + 120
    try:
        paths = k.run([recv, sl])
    except X.ExecError as e:
        chk.add(Ob("SetCanonicalBytes [accept set, BV]: followed within the time budget", "error:%s" % (str(e)[:120],), 0, [fname], "BV"))
        return
    finally:
        k.ex.deadline = None
    val = K.cat_bytes(bs)
    bad = [p for p in paths if p.outcome[0] != "ret"]
    chk.add(Ob("SetCanonicalBytes [accept set, BV]: every path returns (%d paths)" % len(paths), "unsat" if paths and not bad else "sat", 0, [fname], "BV", detail=str([p.outcome for p in bad][:2])))
    for i, p in enumerate(p for p in paths if p.outcome[0] == "ret"):
        accepted = p.outcome[1][1] is None
        if accepted:
            k.prove(p, "[path %d] accepted => value < l" % i, z3.ULT(val, z3.BitVecVal(L, 256)))
        else:
            k.prove(p, "[path %d] rejected => value >= l" % i, z3.UGE(val, z3.BitVecVal(L, 256)))
            k.prove(p, "[path %d] rejected => receiver and input unwritten" % i, not any(w[0] == "w" and w[1] in (recv.obj, boid) for w in p.log))

    def replay(models, seed):
        extra = [K.bytes_model_to_hex(m, "x", 32) for m in models]
        return setter_replay(chk, "SetCanonicalBytes", 32, lambda b: int.from_bytes(b, "little"), lambda b: int.from_bytes(b, "little") < L, extra=extra)
    k.settle(replay, "Scalar.SetCanonicalBytes")


def setter_limbs(base, chk, meth, n, spec_lf, spec_py, accept_py):
    """fallback when the abstract scalar mode cannot follow a setter (it manipulates limbs / non-Montgomery values in a way
    the mode has no rule for): the setter is executed at limb level in Int-LF, the fiat routines from their SSA.
    Goals: result limbs reduced (< l) and  eval(result) = value * 2^256  (mod l)."""
    from sym.kernels import SK, sval, R256
    prog = base.prog
    fname = prog.find("Scalar)." + meth)
    k = SK(base, chk, fname, label="Scalar.%s [limb level]" % meth)
    k.dom.timeout_ms = 25000
    bs = [k.dom.input("x[%d]" % i, 0, 255) for i in range(n)]
    k.inputs["x"] = bs
    boid = k.ex.new_obj(k.path, ("array", n + 72, prog.T("uint8")), name="x", init=list(bs) + [0xEE] * 72)
    limbs = [k.dom.input("s[%d]" % i, 0, (1 << 64) - 1) for i in range(4)]
    recv = X.Ptr(k.ex.new_obj(k.path, prog.T(E + "Scalar"), name="s", init=[list(limbs)]))
    k.ex.deadline = time.time() + 120
    k.ex.max_steps = 400000
    try:
        paths = k.ex.call(fname, [recv, X.SliceV(boid, (), 0, n, n + 72)], k.path)
    except X.ExecError as e:
        chk.add(Ob("Scalar.%s [limb level]: followed within the time budget" % meth, "error:%s" % (str(e)[:120],), 0, [fname], "Int-LF"))
        return
    finally:
        k.ex.deadline = None
    bad = [p for p in paths if p.outcome[0] != "ret"]
    chk.add(Ob("Scalar.%s [limb level]: returns normally on every path (%d)" % (meth, len(paths)), "unsat" if paths and not bad else "sat", 0, [fname], "Int-LF", detail=str([p.outcome for p in bad][:2])))
    for i, p in enumerate(p for p in paths if p.outcome[0] == "ret" and p.outcome[1][1] is None):
        out = k.limbs(p, X.Ptr(recv.obj, (0,)))
        k.goal(p, "le", "path %d: result limbs are a reduced scalar (< l)" % i, sval(out), L - 1)
        want = spec_lf(k.dom, p, bs)
        k.goal(p, "congr", "path %d: result = %s * 2^256 (mod l)" % (i, spec_py[0]), sval(out), LF.of(want).scale(R256 % L), L)
        chk.fact("Scalar.%s [limb level]: returns (receiver, nil); input bytes not written" % meth, p.outcome[1][0] == recv and not any(w[0] == "w" and w[1] == boid for w in p.log), [fname])
    k.replay = lambda models, seed: setter_replay(chk, meth, n, spec_py[1], accept_py)
    k.settle("Scalar." + meth)


def clamp_lf(dom, p, bs):
    # RFC 8032 5.1.5: clear bits 0,1,2 of byte 0; clear bit 7 and set bit 6 of byte 31
    q0, r0 = dom.divmod(p, bs[0], 8)
    q31, r31 = dom.divmod(p, bs[31], 64)
    v = LF()
    for i, b in enumerate(bs):
        if i == 0:
            t = LF.of(b) - r0
        elif i == 31:
            t = r31 + 64
        else:
            t = LF.of(b)
        v = v + t.scale(1 << (8 * i))
    return v


def clamp_py(b):
    a = bytearray(b)
    a[0] &= 248
    a[31] &= 127
    a[31] |= 64
    return int.from_bytes(a, "little")


def k_bytes(base, chk):
    fname = base.prog.find("Scalar).Bytes")
    h = SR(base, chk, fname, "Scalar.Bytes")
    s, sv = h.scalar("s")
    (p,) = h.ex.call(fname, [s], h.path)
    sl = p.outcome[1][0]
    ok = isinstance(sl, X.SliceV) and sl.len == 32 and sl.off == 0
    cells = p.heap[sl.obj][0] if ok else []
    ok = ok and all(isinstance(c, absmodes.Abs) and c.tag == ("byte", i) and c.v.key() == LF.of(sv).key() for i, c in enumerate(cells))
    chk.fact("Scalar.Bytes: out[i] = byte i of FromMontgomery(s) for i=0..31 (little endian), i.e. the 32-byte little-endian value in [0,l) (contracts S-frommont: eval<l, *R = s; S-tobytes)", ok, [fname])
    chk.fact("Scalar.Bytes: buffer allocated by the call; receiver not written", h.ex.meta[sl.obj].kind in ("heap", "stack") and not any(w[0] == "w" and w[1] == s.obj for w in p.log), [fname])
    chk.soft("Scalar.Bytes: calls FromMontgomery then ToBytes", h.st["calls"] == ["FromMontgomery", "ToBytes"], [fname])


def run(chk):
    prog, base = setup(chk)
    from .common import state_shape
    state_shape(chk, prog)
    from .common import api_surface, SCALAR_API
    api_surface(chk, prog, 'Scalar', SCALAR_API, 'C08 (encodings) or C07 (arithmetic)')
    chk.bounds = ["all 2^256 (SetCanonicalBytes, SetBytesWithClamping) and 2^512 (SetUniformBytes) byte strings; every other length via one symbolic length", "all scalars in [0,l) for Bytes"]
    chk.outside = ["ring facts about the Montgomery map (see C07)"]
    chk.assumptions = ["fiat functions summarised by contracts discharged in this run (Int-LF)", "isReduced summarised by its bit-precise contract inside SetCanonicalBytes"]
    ST = prog.T(E + "Scalar")
    items = [
        ("fiatScalarFromMontgomery", lambda: K.k_fiat_mont(base, chk, False)), ("fiatScalarToMontgomery", lambda: K.k_fiat_mont(base, chk, True)),
        ("fiatScalarToBytes", lambda: K.k_fiat_tobytes(base, chk)), ("fiatScalarFromBytes", lambda: K.k_fiat_frombytes(base, chk)),
        ("fiatScalarMul", lambda: K.k_fiat_mul(base, chk)), ("fiatScalarAdd", lambda: K.k_fiat_addsub(base, chk, "Add")),
        ("isReduced", lambda: k_isreduced(base, chk)),
        ("Bytes", lambda: k_bytes(base, chk)),
        ("SetCanonicalBytes", lambda: k_setter(base, chk, "SetCanonicalBytes", 32, lambda d, p, bs: K.bval(bs), ("x", lambda b: int.from_bytes(b, "little")), lambda b: int.from_bytes(b, "little") < L, canonical=True)),
        ("SetUniformBytes", lambda: k_setter(base, chk, "SetUniformBytes", 64, lambda d, p, bs: K.bval(bs), ("x (512 bit)", lambda b: int.from_bytes(b, "little")))),
        ("SetBytesWithClamping", lambda: k_setter(base, chk, "SetBytesWithClamping", 32, clamp_lf, ("clamp(x)", clamp_py))),
        ("len SetCanonicalBytes", lambda: K.k_len_reject(base, chk, prog.find("Scalar).SetCanonicalBytes"), 32, ST, "Scalar.SetCanonicalBytes")),
        ("len SetUniformBytes", lambda: K.k_len_reject(base, chk, prog.find("Scalar).SetUniformBytes"), 64, ST, "Scalar.SetUniformBytes")),
        ("len SetBytesWithClamping", lambda: K.k_len_reject(base, chk, prog.find("Scalar).SetBytesWithClamping"), 32, ST, "Scalar.SetBytesWithClamping")),
    ]
    # "maps every string to ..." is a statement about every call in every history: the setters and Bytes must keep no
    # package-level state (effects as in C19); hidden memo state leaves the check undecided and starts the history battery
    from .c19 import analyse as effects_of
    for meth in ("SetCanonicalBytes", "SetUniformBytes", "SetBytesWithClamping", "Bytes"):
        items.append(("effects " + meth, lambda meth=meth: effects_of(base, chk, prog.find("Scalar)." + meth))))
    run_kernels(chk, items)
    from sym import validate
    validate.scalar_kernels(base, chk, 150 if chk.tier == "thorough" else 10)
    # round trip: Bytes gives v<l little-endian; SetCanonicalBytes accepts v<l and yields value v; representation unique
    t0 = time.time()
    v, w = z3.Ints("v w")
    s = z3.Solver()
    s.add(v >= 0, v < L, w >= 0, w < L, (v - w) % L == 0, v != w)
    chk.add(Ob("round trip: congruent values in [0,l) are equal (SetCanonicalBytes(Bytes(s)) = s and Bytes(SetCanonicalBytes(b)) = b follow from the contracts above)", str(s.check()), time.time() - t0, [], "LIA"))
    for nm, e in (("scalarTwo168", 168), ("scalarTwo336", 336)):
        g = base.global_val(E + nm)
        try:
            si = [f_["name"] for f_ in prog.T(E + "Scalar").u.fields].index("s")
            ev = sum(int(x) << (64 * i) for i, x in enumerate(g[si]))
        except Exception as e_:
            chk.note_inconclusive("constant %s could not be read (%r)" % (nm, e_))
            continue
        chk.fact("%s = 2^%d * 2^256 mod l (Montgomery form), reduced" % (nm, e), ev == (2**e) * (2**256) % L, [E + "init"], "concrete")
    chk.samples = [o.j() for o in chk.obs if "value =" in o.name][:6]


def bytes_battery(chk):
    from sym import native
    import random
    rng = random.Random(chk.seed)
    R = 2**256
    vals = [0, 1, L - 1, L - 2, 2**252, 2**252 - 1, 2**128] + [rng.randrange(L) for _ in range(30)]
    res = native.run_ops("", [{"op": "S.Bytes", "args": ["s"], "init": {"s": "w:" + ",".join(str(((v * R % L) >> (64 * i)) & (2**64 - 1)) for i in range(4))}} for v in vals])
    for v, r in zip(vals, res):
        if r.get("bytes") != v.to_bytes(32, "little").hex():
            return dict(what="Scalar.Bytes of %d = %s" % (v, r.get("bytes")), op="S.Bytes", inputs=dict(s=str(v)))
    return None


def safety_net(chk):
    from sym import ptreplay
    return ptreplay.battery_decode_history(chk.seed) or ptreplay.battery_value_history(chk.seed, "scalar") or bytes_battery(chk) or (setter_replay(chk, "SetCanonicalBytes", 32, lambda b: int.from_bytes(b, "little"), lambda b: int.from_bytes(b, "little") < L)
            or setter_replay(chk, "SetUniformBytes", 64, lambda b: int.from_bytes(b, "little")) or setter_replay(chk, "SetBytesWithClamping", 32, clamp_py))
