"""C07 - scalar arithmetic is arithmetic in Z/l."""
import time, z3
from sym import kernels as K, exec as X, dom_lf, dom_bv, scalarmode, absmodes
from sym.dom_lf import LF, LFCond
from sym.check import Ob
from .common import setup, run_kernels

E = K.E
L = K.L


class SR:
    """scalar ring-mode harness"""

    def __init__(self, base, chk, fname, label):
        self.base, self.chk, self.fname, self.label = base, chk, fname, label
        self.dom = dom_lf.LFDomain()
        self.ex = base.executor(self.dom)
        self.st = scalarmode.install(self.ex, self.dom, chk)
        self.path = X.Path()
        self.path.heap = {k: X.clone_cells(v) for k, v in self.ex.base_heap.items()}
        self.ST = base.prog.T(E + "Scalar")
        chk.used(base.prog, fname, "scalar ring mode (fiat functions summarised by their contracts)")

    def scalar(self, name):
        v = self.dom.input(name, 0, L - 1)
        oid = self.ex.new_obj(self.path, self.ST, name=name, init=[scalarmode.SAbs(v, False, "mont")])
        return X.Ptr(oid), v

    def val(self, path, p):
        c = self.ex.load(path, X.Ptr(p.obj, p.path + (0,)))
        ev = scalarmode.limbs_value(c)
        if ev is not None:
            # the result was written limb by limb (hand-written limb code on top of the fiat contracts): it must be a
            # reduced Montgomery value; its meaning is eval(limbs) * R^-1
            t0 = time.time()
            r = self.dom.prove_le(path, ev, L - 1, "result limbs reduced")
            self.chk.add(Ob("%s: result limbs (written by limb-level code) are a reduced scalar (< l)" % self.label, r, time.time() - t0, [self.fname], "scalar ring mode + materialised limbs / LIA"))
            return ev.scale(scalarmode.RINV)
        return c.v

    def congr(self, path, name, got, want):
        t0 = time.time()
        n0 = len(self.dom.queries)
        r = self.dom.prove_congr(path, got, want, L, name)
        self.chk.add(Ob("%s: %s" % (self.label, name), r, time.time() - t0, [self.fname], "scalar ring mode / LIA",
                        detail="; ".join("%s=%s" % (q[0].split("/")[-1], q[1]) for q in self.dom.queries[n0:])))
        return r


def scalar_api_replay(chk, op, nargs, spec, key):
    """native replay of an exported Scalar operation with values near the interesting boundaries, all aliasing patterns"""
    from sym import native
    import random, itertools
    rng = random.Random(chk.seed)
    R = 2**256
    from sym import ptreplay
    Rinv_ = pow(R, L - 2, L)
    ss = ptreplay.structured_scalars()
    # structured values both as canonical integers and as Montgomery limb patterns (value = limbs * R^-1)
    msx = ptreplay.montgomery_structured(600)
    specials = msx + [0, 1, 2, L - 1, L - 2, (L - 1) // 2, 2**252, 2**128, 2**64 - 1, 2**255 % L] + [ss[(i * 53) % len(ss)] for i in range(20)] + [ss[(i * 31 + 7) % len(ss)] * Rinv_ % L for i in range(40)]
    ops, meta = [], []
    names = ["a", "b", "c"][:nargs]
    pairs = ptreplay.montgomery_pairs(400) if nargs >= 2 else []
    # raw Montgomery values whose square has all-ones / zero words (squarings inside Invert, x*x)
    sq = ptreplay.montgomery_sqrt_structured(chk.seed, 200)
    if nargs >= 2:
        pairs = pairs + [(a_, a_) for a_ in sq]
    elif op == "Invert":
        specials = [a_ * Rinv_ % L for a_ in sq] + specials
    edge = [0, 1, L - 1, 2, L - 2, 2**252, (L - 1) // 2, (L + 1) // 2]
    combos = list(itertools.product(edge[:4] if nargs == 3 else edge, repeat=nargs))
    for t in range(200 + len(pairs)):
        vals = {n: (rng.choice(specials) if rng.random() < 0.6 else rng.randrange(L)) for n in names}
        if t < len(combos) and t < 128:
            vals = dict(zip(names, combos[t]))
        if t >= 200:
            # raw Montgomery limb values (A, B) with a structured pre-subtraction product: the encoded scalars are A/R, B/R
            A_, B_ = pairs[t - 200]
            vals[names[0]], vals[names[1]] = A_ * Rinv_ % L, B_ * Rinv_ % L
            if nargs == 3:
                vals[names[2]] = 0 if t % 2 else vals[names[2]]
        # aliasing patterns: receiver distinct / aliased to each arg / args aliased
        pats = [["s"] + names]
        for n in names:
            pats.append([n] + names)
        if nargs >= 2:
            pats.append(["s"] + [names[0]] * nargs)
            pats.append([names[0]] + [names[0]] * nargs)
        for args in pats:
            init = {n: "w:" + ",".join(str(((vals[n] * R % L) >> (64 * i)) & (2**64 - 1)) for i in range(4)) for n in set(args) if n != "s"}
            if "s" in args:
                init["s"] = "w:%d,%d,%d,%d" % tuple(rng.randrange(2**64) if i < 3 else rng.randrange(2**60) for i in range(4))
            ops.append({"op": "S." + op, "args": args, "init": init})
            meta.append((args, vals))
    res = native.run_ops("", ops)
    for (args, vals), r in zip(meta, res):
        if "panic" in r:
            return dict(what="panic %s" % r["panic"], op=op, args=args, vals={k: str(v) for k, v in vals.items()})
        o = [int(x) for x in r["slots"][args[0]][2:].split(",")]
        got = sum(x << (64 * i) for i, x in enumerate(o))
        want = spec(*[vals[a] for a in args[1:]]) % L
        if got >= L:
            return dict(what="Scalar.%s(%s): result limbs hold %d >= l (not a reduced scalar; Equal and limb comparisons misbehave)" % (op, ",".join(args), got), op=op, args=args, vals={k: str(v) for k, v in vals.items()})
        if got * pow(R, L - 2, L) % L != want:
            return dict(what="Scalar.%s(%s) = %d, expected %d" % (op, ",".join(args), got * pow(R, L - 2, L) % L, want), op=op, args=args, vals={k: str(v) for k, v in vals.items()})
        for n in set(args[1:]):
            if n != args[0] and r["slots"][n] != ops[0]["init"].get(n, r["slots"][n]) and False:
                pass
    return None


def api_op(base, chk, meth, nargs, spec_lf, spec_py):
    fname = base.prog.find("Scalar)." + meth)
    patterns = [("distinct", None)]
    names = ["x", "y", "z"][:nargs]
    pats = [("distinct", ["s"] + names)]
    for n in names:
        pats.append(("s=" + n, [n] + names))
    if nargs >= 2:
        pats.append(("x=y", ["s"] + ["x"] * nargs))
        pats.append(("all aliased", ["x"] * (nargs + 1)))
    sat = False
    for pname, args in pats:
        h = SR(base, chk, fname, "Scalar.%s[%s]" % (meth, pname))
        objs = {}
        vals = {}
        for n in sorted(set(args)):
            objs[n], vals[n] = h.scalar(n)
        paths = h.ex.call(fname, [objs[a] for a in args], h.path)
        if len(paths) != 1 or paths[0].outcome[0] != "ret":
            if pname == "distinct" and meth in ("Add", "Subtract", "Negate", "Set", "Multiply", "MultiplyAdd"):
                chk.extra.setdefault("limb_level_fallback", []).append(meth)
                api_op_limbs(base, chk, meth, nargs, "mul" if meth.startswith("Multiply") else spec_py[0], spec_py[1])
            else:
                chk.note_inconclusive("%s[%s]: %s" % (meth, pname, [p.outcome for p in paths]))
            continue
        p = paths[0]
        got = h.val(p, objs[args[0]])
        want = spec_lf(h.dom, p, *[vals[a] for a in args[1:]])
        if h.congr(p, "result = %s mod l" % spec_py[0], got, want) != "unsat":
            sat = True
        chk.fact("Scalar.%s[%s]: returns the receiver; non-receiver arguments not written" % (meth, pname),
                 p.outcome[1][0] == objs[args[0]] and not any(w[0] == "w" and w[1] in [objs[a].obj for a in args[1:] if a != args[0]] for w in p.log), [fname])
    if sat:
        hit = scalar_api_replay(chk, meth, nargs, spec_py[1], meth)
        for o in chk.obs:
            if o.name.startswith("Scalar.%s[" % meth) and o.verdict == "sat":
                o.verdict = "violated" if hit else "sat-unreplayed"
        if hit:
            chk.violation("Scalar." + meth, hit["what"], hit)


def api_op_limbs(base, chk, meth, nargs, kind, spec_py):
    """fallback when the abstract scalar mode cannot follow the body (the method manipulates the limbs itself instead of
    calling the fiat routines): the method is executed at limb level in Int-LF, the fiat routines from their SSA.
    Goals on raw Montgomery integers (x -> x*R is additive): result reduced (< l) and congruent to the specification."""
    from sym.kernels import SK, sval, L as L_, R256
    prog = base.prog
    fname = prog.find("Scalar)." + meth)
    k = SK(base, chk, fname, label="Scalar.%s [limb level]" % meth)
    ST = prog.T(E + "Scalar")

    def scalar(name, below=True):
        limbs = [k.dom.input("%s[%d]" % (name, i), 0, (1 << 64) - 1) for i in range(4)]
        k.inputs[name] = limbs
        if below:
            k.path.pc.append(LFCond("<=", sval(limbs) - (L_ - 1)))
        return X.Ptr(k.ex.new_obj(k.path, ST, name=name, init=[list(limbs)])), limbs
    recv, _ = scalar("s")
    ins = [scalar(n) for n in ["x", "y", "z"][:nargs]]
    paths = k.ex.call(fname, [recv] + [a for a, _ in ins], k.path)
    bad = [p for p in paths if p.outcome[0] != "ret"]
    chk.add(Ob("Scalar.%s [limb level]: returns normally on every path (%d)" % (meth, len(paths)), "unsat" if paths and not bad else "sat", 0, [fname], "Int-LF", detail=str([p.outcome for p in bad][:2])))
    vals = [sval(l) for _, l in ins]
    for i, p in enumerate(p for p in paths if p.outcome[0] == "ret"):
        out = k.limbs(p, X.Ptr(recv.obj, (0,)))
        k.goal(p, "le", "path %d: result limbs are a reduced scalar (< l)" % i, sval(out), L_ - 1)
        if kind == "mul":
            prod = k.dom.mul(p, vals[0], vals[1])
            p.pc.append(LFCond("<=", prod - (L_ - 1) ** 2))
            p.pc.append(LFCond("<=", -prod))
            want = prod + (vals[2].scale(R256) if nargs == 3 else LF())
            k.goal(p, "congr", "path %d: result*R = x*y%s (mod l)" % (i, "+z*R" if nargs == 3 else ""), sval(out).scale(R256), want, L_)
        else:
            want = {"Add": lambda: vals[0] + vals[1], "Subtract": lambda: vals[0] - vals[1], "Negate": lambda: -vals[0], "Set": lambda: vals[0]}[meth]()
            k.goal(p, "congr", "path %d: result = %s (mod l)" % (i, kind), sval(out), want, L_)
        k.goal(p, "eq", "path %d: returns the receiver" % i, 0 if p.outcome[1][0] == recv else 1, 0)
    k.replay = lambda models, seed: scalar_api_replay(chk, meth, nargs, spec_py, meth)
    k.settle("Scalar." + meth)


def k_invert(base, chk):
    """exponent of Scalar.Invert = l-2 (chain mode on the real SSA incl. pow2k loops and the table)"""
    fname = base.prog.find("Scalar).Invert")
    ex = base.executor(dom_bv.ConcreteDomain())
    MT = scalarmode.MT
    ex.opaque[MT] = lambda: absmodes.Abs(None, True)
    e = z3.Int("e")
    n = {"mul": 0}

    def f_mul(ex_, path, a):
        x, y = ex_.load(path, a[1]), ex_.load(path, a[2])
        if x.v is None or y.v is None:
            raise X.ExecError("Invert chain: read of an unset scalar")
        n["mul"] += 1
        ex_.store(path, a[0], absmodes.Abs(x.v + y.v))
    ex.summaries[E + "fiatScalarMul"] = f_mul
    path = X.Path()
    path.heap = {k: X.clone_cells(v) for k, v in ex.base_heap.items()}
    ST = base.prog.T(E + "Scalar")
    t_ = X.Ptr(ex.new_obj(path, ST, init=[absmodes.Abs(e)]))
    s_ = X.Ptr(ex.new_obj(path, ST, init=[absmodes.Abs(z3.Int("junk"))]))
    t0 = time.time()
    for pname, args in (("distinct", [s_, t_]), ("s=t", [t_, t_])):
        ps_ = ex.call(fname, list(args), path.clone())
        if len(ps_) != 1 or ps_[0].outcome[0] != "ret" or not isinstance(ex.load(ps_[0], X.Ptr(args[0].obj, (0,))), absmodes.Abs):
            # the body is not (only) a chain of fiatScalarMul calls: undecided here, settled by the native replay
            ob = chk.add(Ob("Scalar.Invert[%s]: the body is an addition chain of fiatScalarMul calls (followed in chain mode)" % pname, "sat", time.time() - t0, [fname], "chain", detail=str([q_.outcome for q_ in ps_][:1])))
            hit = scalar_api_replay(chk, "Invert", 1, lambda a: pow(a, L - 2, L), "Invert")
            ob.verdict = "violated" if hit else "sat-unreplayed"
            if hit:
                chk.violation("Scalar.Invert", hit["what"], hit)
            continue
        p = ps_[0]
        res = ex.load(p, X.Ptr(args[0].obj, (0,))).v
        s = z3.Solver()
        s.add(res != (L - 2) * e)
        r = str(s.check())
        chk.used(base.prog, fname, "chain mode (exponent arithmetic over the real pow2k loops; Multiply summarised by S-mul)")
        chk.add(Ob("Scalar.Invert[%s]: exponent = l-2 for every input exponent (%d multiplications executed)" % (pname, n["mul"]), r, time.time() - t0, [fname], "chain"))
        chk.fact("Scalar.Invert[%s]: returns the receiver, argument not written" % pname, p.outcome[1][0] == args[0] and (args[0] == args[1] or not any(w[0] == "w" and w[1] == args[1].obj for w in p.log)), [fname])
        n["mul"] = 0
        if r != "unsat":
            hit = scalar_api_replay(chk, "Invert", 1, lambda a: pow(a, L - 2, L), "Invert")
            chk.obs[-2].verdict = "violated" if hit else "sat-unreplayed"
            if hit:
                chk.violation("Scalar.Invert", hit["what"], hit)


def k_equal_semantic(base, chk):
    """Scalar.Equal on the real body, nothing summarised: for reduced operands (the limb arrays are the unique
    representatives < l) the result is exactly 1 when the limbs agree and exactly 0 otherwise; operands not written"""
    fname = base.prog.find("Scalar).Equal")
    k = K.BVK(base, chk, fname, label="Scalar.Equal [whole body]")
    ST = base.prog.T(E + "Scalar")
    sl = [k.bv("s[%d]" % i, 64) for i in range(4)]
    tl = [k.bv("t[%d]" % i, 64) for i in range(4)]
    for ls in (sl, tl):
        k.path.pc.append(z3.ULT(z3.Concat(*reversed(ls)), z3.BitVecVal(L, 256)))
    s = X.Ptr(k.ex.new_obj(k.path, ST, init=[list(sl)]))
    t = X.Ptr(k.ex.new_obj(k.path, ST, init=[list(tl)]))
    paths = k.run([s, t])
    bad = [p for p in paths if p.outcome[0] != "ret"]
    chk.add(Ob("Scalar.Equal [whole body]: returns on every path (%d)" % len(paths), "unsat" if paths and not bad else "sat", 0, [fname], "BV", detail=str([p.outcome for p in bad][:2])))
    same = z3.And([a == b for a, b in zip(sl, tl)])
    for i, p in enumerate(p for p in paths if p.outcome[0] == "ret"):
        r = p.outcome[1][0]
        rv = r if not type(r) is int else z3.BitVecVal(r, 64)
        k.prove(p, "[path %d] returns exactly 1 if the reduced operands are equal, exactly 0 otherwise" % i, z3.If(same, rv == 1, rv == 0))
        k.prove(p, "[path %d] operands not written" % i, not any(w[0] == "w" and w[1] in (s.obj, t.obj) for w in p.log))

    def replay(models, seed):
        from sym import native
        ops, meta = [], []
        w = lambda ls: "w:" + ",".join(str(int(x)) for x in ls)
        for m in models:
            if all("s[%d]" % i in m and "t[%d]" % i in m for i in range(4)):
                a = [int(m["s[%d]" % i]) for i in range(4)]
                b = [int(m["t[%d]" % i]) for i in range(4)]
                for x, y in ((a, b), (b, a)):
                    ops.append({"op": "S.Equal", "args": ["s", "t"], "init": {"s": w(x), "t": w(y)}})
                    meta.append((x, y))
        # word-level patterns: one word differs, two words differ by the same amount, ...
        import random
        rng = random.Random(seed)
        for _ in range(60):
            a = [rng.randrange(2**64) for _ in range(3)] + [rng.randrange(2**59)]
            d_ = rng.choice([1, 5, 2**63, rng.randrange(1, 2**59)])
            b = list(a)
            for i in rng.sample(range(4), rng.choice([1, 2, 2, 3])):
                b[i] = (b[i] ^ d_) if i < 3 else (b[i] ^ (d_ % 2**59))
            ops.append({"op": "S.Equal", "args": ["s", "t"], "init": {"s": w(a), "t": w(b)}})
            meta.append((a, b))
        for d_ in (1, 5, 2**20):
            for pat in ((1, 0, 0, 1), (0, 1, 0, 1), (0, 0, 1, 1), (1, 1, 0, 1), (1, 1, 1, 1), (1, 1, 0, 0)):
                a = [d_ * e for e in pat]
                ops.append({"op": "S.Equal", "args": ["s", "t"], "init": {"s": w(a), "t": w([0, 0, 0, 0])}})
                meta.append((a, [0, 0, 0, 0]))
        res = native.run_ops("", ops)
        for (a, b), r in zip(meta, res):
            want = 1 if a == b else 0
            if "panic" in r or r.get("int") != want:
                return dict(what="Scalar.Equal on Montgomery limbs %s vs %s = %s, expected %d" % (a, b, r.get("int", r.get("panic")), want), op="S.Equal", inputs=dict(s=a, t=b))
        return None
    k.settle(replay, "Scalar.Equal")


def k_equal(base, chk):
    """Scalar.Equal: fiatScalarSub summarised by its contract (BV), Nonzero + fold executed bit-precisely"""
    fname = base.prog.find("Scalar).Equal")
    k = K.BVK(base, chk, fname, label="Scalar.Equal")
    chk.used(base.prog, E + "fiatScalarNonzero", "BV")
    info = {}

    def f_sub(ex, path, a):
        d = [k.bv("diff[%d]" % i, 64) for i in range(4)]
        info["a"], info["b"] = ex.load(path, a[1]), ex.load(path, a[2])
        info["d"] = d
        ex.store(path, a[0], tuple(d))
    k.ex.summaries[E + "fiatScalarSub"] = f_sub
    ST = base.prog.T(E + "Scalar")
    sl = [k.bv("s[%d]" % i, 64) for i in range(4)]
    tl = [k.bv("t[%d]" % i, 64) for i in range(4)]
    s = X.Ptr(k.ex.new_obj(k.path, ST, init=[list(sl)]))
    t = X.Ptr(k.ex.new_obj(k.path, ST, init=[list(tl)]))
    paths = k.run([s, t])
    if "d" not in info or len(paths) != 1 or paths[0].outcome[0] != "ret":
        # the body does not go through fiatScalarSub: decide the contract on the whole real body instead
        chk.extra.setdefault("semantic_fallback", []).append("Scalar.Equal")
        return k_equal_semantic(base, chk)
    chk.add(Ob("Scalar.Equal: single path", "unsat" if len(paths) == 1 else "sat", 0, [fname], "structure"))
    p = paths[0]
    r = p.outcome[1][0]
    d = info["d"]
    allzero = z3.And([x == 0 for x in d])
    k.prove(p, "returns exactly 1 if all limbs of (s-t) are zero, exactly 0 otherwise", z3.If(allzero, r == 1, r == 0))
    k.prove(p, "the difference is taken between the two operands", {tuple(map(str, info["a"])), tuple(map(str, info["b"]))} == {tuple(map(str, sl)), tuple(map(str, tl))})
    k.prove(p, "operands not written", not any(w[0] == "w" and w[1] in (s.obj, t.obj) for w in p.log))
    # arithmetic link: d = (a-b) mod l, 0<=a,b,d<l  =>  (d=0 <=> a=b)
    t0 = time.time()
    a, b, dd, q = z3.Ints("a b d q")
    so = z3.Solver()
    so.add(a >= 0, a < L, b >= 0, b < L, dd >= 0, dd < L, dd - (a - b) == q * L, z3.Not((dd == 0) == (a == b)))
    chk.add(Ob("Scalar.Equal: (a-b mod l = 0) <=> a = b for reduced a,b (with S-sub contract and unique Montgomery representation)", str(so.check()), time.time() - t0, [fname], "LIA"))

    def replay(models, seed):
        from sym import native
        import random
        rng = random.Random(seed)
        R = 2**256
        vals = [0, 1, L - 1, 2**64, 2**128, 2**192, 2**252, rng.randrange(L), rng.randrange(L)]
        ops, meta = [], []
        for x in vals:
            for y in vals:
                w = lambda v: "w:" + ",".join(str(((v * R % L) >> (64 * i)) & (2**64 - 1)) for i in range(4))
                ops.append({"op": "S.Equal", "args": ["a", "b"], "init": {"a": w(x), "b": w(y)}})
                meta.append((x, y))
        # the solver's counterexamples are values of the difference s-t (Montgomery limbs): realise them as s = diff, t = 0;
        # plus sparse bit/byte patterns of the difference (what a defective fold would miss)
        raw = []
        for m in models:
            try:
                raw.append([int(m["diff[%d]" % i]) for i in range(4)])
            except Exception:
                pass
        for pat in (0x100, 0xff00, 0xff00ff00ff00ff00, 0x00ff00ff00ff00ff, 1 << 63, 1 << 32, 1 << 33, 0xaaaaaaaaaaaaaaaa, 0x5555555555555555, 0xf0f0f0f0f0f0f0f0, 0x0f0f0f0f0f0f0f0f):
            for limb in range(4):
                d_ = [0, 0, 0, 0]
                d_[limb] = pat
                raw.append(d_)
        for b in range(0, 64, 1):
            raw.append([1 << b, 0, 0, 0])
            raw.append([0, 0, 0, (1 << b) & 0x0fffffffffffffff])
        for d_ in raw:
            ev = sum(x << (64 * i) for i, x in enumerate(d_))
            if ev >= L:
                continue
            ops.append({"op": "S.Equal", "args": ["a", "b"], "init": {"a": "w:%d,%d,%d,%d" % tuple(d_), "b": "w:0,0,0,0"}})
            meta.append((ev, 0))
            ops.append({"op": "S.Equal", "args": ["b", "a"], "init": {"a": "w:%d,%d,%d,%d" % tuple(d_), "b": "w:0,0,0,0"}})
            meta.append((0, ev))
        res = native.run_ops("", ops)
        for (x, y), r in zip(meta, res):
            if r.get("int") != (1 if x == y else 0):
                return dict(what="Scalar.Equal(%d,%d) = %s" % (x, y, r.get("int")), op="Equal", inputs=dict(a=str(x), b=str(y)))
        return None
    k.settle(replay)


def run(chk):
    prog, base = setup(chk)
    from .common import state_shape
    state_shape(chk, prog)
    from .common import api_surface, SCALAR_API
    api_surface(chk, prog, 'Scalar', SCALAR_API, 'C07 (arithmetic) or C08 (encodings)')
    chk.bounds = ["all operands in [0,l) (unique saturated Montgomery representation, the fiat-crypto precondition)", "Invert: the real pow2k loops (253 squarings + table)"]
    chk.outside = ["limb vectors >= l (not constructible through the API: every setter reduces, C08)", "t^(l-2) = 1/t (Fermat, l prime)",
                   "ring facts: x -> x*2^256 is a bijection of Z/l commuting with + and *, used to read the fiat contracts as statements about the encoded value"]
    chk.assumptions = ["bits.Mul64/Add64/Sub64 exact", "Int-LF relaxation (sat replayed natively)", "fiat functions summarised by contracts that are discharged in this same run"]
    items = [
        ("fiatScalarMul", lambda: K.k_fiat_mul(base, chk)),
        ("fiatScalarAdd", lambda: K.k_fiat_addsub(base, chk, "Add")), ("fiatScalarSub", lambda: K.k_fiat_addsub(base, chk, "Sub")), ("fiatScalarOpp", lambda: K.k_fiat_addsub(base, chk, "Opp")),
        ("Add", lambda: api_op(base, chk, "Add", 2, lambda d, p, x, y: x + y, ("x+y", lambda x, y: x + y))),
        ("Subtract", lambda: api_op(base, chk, "Subtract", 2, lambda d, p, x, y: x - y, ("x-y", lambda x, y: x - y))),
        ("Negate", lambda: api_op(base, chk, "Negate", 1, lambda d, p, x: -x, ("-x", lambda x: -x))),
        ("Multiply", lambda: api_op(base, chk, "Multiply", 2, lambda d, p, x, y: d.mul(p, x, y), ("x*y", lambda x, y: x * y))),
        ("MultiplyAdd", lambda: api_op(base, chk, "MultiplyAdd", 3, lambda d, p, x, y, z: d.mul(p, x, y) + z, ("x*y+z", lambda x, y, z: x * y + z))),
        ("Set", lambda: api_op(base, chk, "Set", 1, lambda d, p, x: x, ("x", lambda x: x))),
        ("Invert", lambda: k_invert(base, chk)),
        ("Equal", lambda: k_equal(base, chk)),
    ]
    run_kernels(chk, items)
    from sym import validate
    validate.scalar_kernels(base, chk, 150 if chk.tier == "thorough" else 10)
    import math
    chk.fact("gcd(2^256, l) = 1 (Montgomery map is a bijection); zero value = limbs 0 = value 0", math.gcd(2**256, L) == 1, [], "arithmetic")
    t0 = time.time()
    chk.samples = [o.j() for o in chk.obs if "result =" in o.name][:6]


def safety_net(chk):
    for op, n, f in (("Add", 2, lambda x, y: x + y), ("Subtract", 2, lambda x, y: x - y), ("Negate", 1, lambda x: -x), ("Multiply", 2, lambda x, y: x * y),
                     ("MultiplyAdd", 3, lambda x, y, z: x * y + z), ("Invert", 1, lambda a: pow(a, L - 2, L)), ("Set", 1, lambda x: x)):
        hit = scalar_api_replay(chk, op, n, f, op)
        if hit:
            return hit
    from sym import ptreplay
    return ptreplay.battery_value_history(chk.seed, "scalar")
