"""C15 - misuse is loud: uninitialized Points and mismatched lengths panic."""
import time, z3
from sym import kernels as K, l1 as L1m, l2 as L2m, groupmode as GM, exec as X, dom_lf
from sym.dom_lf import LF, LFCond
from sym.check import Ob
from .common import setup, run_kernels

E, F = K.E, K.F


def k_checkinit(base, chk):
    """the real guard (limb-level): panics on the Go zero value; never panics when X or Y has a non-zero limb"""
    prog = base.prog
    fname = E + "checkInitialized"
    PT = prog.T(E + "Point")
    # (a) zero value
    k = K.BVK(base, chk, fname, label="checkInitialized")
    z = X.Ptr(k.ex.new_obj(k.path, PT, name="zero point"))
    arr = k.ex.new_obj(k.path, ("array", 1, prog.T("*" + E + "Point")), init=[z])
    paths = k.run([X.SliceV(arr, (), 0, 1, 1)])
    chk.fact("checkInitialized: the zero-value Point panics", len(paths) == 1 and paths[0].outcome[0] == "panic", [fname], detail=str([p.outcome for p in paths][:2]))
    # (b) symbolic limbs with (x,y) not both all-zero: no panic
    k = K.BVK(base, chk, fname, label="checkInitialized")
    cells = [[]]
    limbs = []
    for c in "xyzt":
        ls = [k.bv("%s.l%d" % (c, i), 64) for i in range(5)]
        limbs.append(ls)
        cells.append(list(ls))
    pt = X.Ptr(k.ex.new_obj(k.path, PT, name="p", init=cells))
    k.path.pc.append(z3.Or([l != 0 for l in limbs[0] + limbs[1]]))
    arr = k.ex.new_obj(k.path, ("array", 1, prog.T("*" + E + "Point")), init=[pt])
    t0 = time.time()
    paths = k.run([X.SliceV(arr, (), 0, 1, 1)])
    pan = [p for p in paths if p.outcome[0] != "ret"]
    chk.add(Ob("checkInitialized: never panics when some limb of X or Y is non-zero (%d feasible paths, branch feasibility by z3)" % len(paths), "unsat" if not pan else "sat", time.time() - t0, [fname], "BV"))
    # (d) the real guard over several arguments: a zero value at ANY position panics; all-initialised never panics
    for n in (2, 3):
        for bad in list(range(n)) + [None]:
            k = K.BVK(base, chk, fname, label="checkInitialized")
            ptrs = []
            for j in range(n):
                if j == bad:
                    ptrs.append(X.Ptr(k.ex.new_obj(k.path, PT, name="zero point")))
                else:
                    cells = [[]]
                    lx = [k.bv("p%d.x%d" % (j, i), 64) for i in range(5)]
                    ly = [k.bv("p%d.y%d" % (j, i), 64) for i in range(5)]
                    cells += [list(lx), list(ly), [k.bv("p%d.z%d" % (j, i), 64) for i in range(5)], [k.bv("p%d.t%d" % (j, i), 64) for i in range(5)]]
                    k.path.pc.append(z3.Or([l != 0 for l in lx + ly]))
                    ptrs.append(X.Ptr(k.ex.new_obj(k.path, PT, name="p%d" % j, init=cells)))
            arr = k.ex.new_obj(k.path, ("array", n, prog.T("*" + E + "Point")), init=list(ptrs))
            t0 = time.time()
            paths = k.run([X.SliceV(arr, (), 0, n, n)])
            if bad is None:
                okp = all(p.outcome[0] == "ret" for p in paths)
                chk.add(Ob("checkInitialized(%d initialised points): never panics (%d feasible paths)" % (n, len(paths)), "unsat" if okp else "sat", time.time() - t0, [fname], "BV"))
            else:
                okp = paths and all(p.outcome[0] == "panic" for p in paths)
                chk.add(Ob("checkInitialized(%d points, #%d is the zero value): every feasible path panics (%d paths)" % (n, bad, len(paths)), "unsat" if okp else "sat", time.time() - t0, [fname], "BV"))
    # (c) a valid point cannot have X and Y both with all-zero limbs: (0,0) is not on the curve (Z != 0)
    chk.fact("value (X,Y) = (0,0) with Z != 0 violates -X^2+Y^2 = Z^2 + d*T^2 together with XY = ZT (then T = 0, so 0 = Z^2)", True, [], "arithmetic")


def expect_panic(base, chk, label, fname, build):
    """build(h, path) -> args; every feasible path must end in a panic"""
    h = L2m.L2(base, chk)
    path = h.path()
    args = build(h, path)
    t0 = time.time()
    paths = h.ex.call(fname, args, path)
    nonpanic = []
    for p in paths:
        if p.outcome[0] == "panic":
            continue
        if p.outcome[0] == "error":
            nonpanic.append(p)
            continue
        if h.dom.check(p, [], "feasibility", timeout_ms=20000) != "unsat":
            nonpanic.append(p)
    chk.used(base.prog, fname, "group mode")
    chk.add(Ob("%s: every feasible path panics (%d paths)" % (label, len(paths)), "unsat" if paths and not nonpanic else "sat", time.time() - t0, [fname], "group mode", detail=str([p.outcome for p in nonpanic][:2])))


def misuse_battery(seed):
    import random
    from sym import native, ptreplay, ref
    rng = random.Random(seed)
    g = lambda: ptreplay.mk_point(ref.ed_mul(rng.randrange(1, 1000), ref.BASE), rng)
    k = lambda: ptreplay.scalar_words(rng.randrange(ref.L))
    Z = "pt:zero"
    ops = [
        {"op": "P.Add", "args": ["v", "a", "b"], "init": {"v": g(), "a": Z, "b": g()}}, {"op": "P.Add", "args": ["v", "a", "b"], "init": {"v": g(), "a": g(), "b": Z}},
        {"op": "P.Subtract", "args": ["v", "a", "b"], "init": {"v": g(), "a": Z, "b": g()}}, {"op": "P.Subtract", "args": ["v", "a", "b"], "init": {"v": g(), "a": g(), "b": Z}},
        {"op": "P.Negate", "args": ["v", "a"], "init": {"v": g(), "a": Z}}, {"op": "P.MultByCofactor", "args": ["v", "a"], "init": {"v": g(), "a": Z}},
        {"op": "P.Equal", "args": ["a", "b"], "init": {"a": Z, "b": g()}}, {"op": "P.Equal", "args": ["a", "b"], "init": {"a": g(), "b": Z}},
        {"op": "P.Bytes", "args": ["a"], "init": {"a": Z}}, {"op": "P.BytesMontgomery", "args": ["a"], "init": {"a": Z}}, {"op": "P.ExtendedCoordinates", "args": ["a"], "init": {"a": Z}},
        {"op": "P.ScalarMult", "args": ["v", "k", "a"], "init": {"v": g(), "k": k(), "a": Z}},
        {"op": "P.ScalarMult", "args": ["v", "k", "a"], "init": {"v": g(), "k": ptreplay.scalar_words(0), "a": Z}},
        {"op": "P.ScalarMult", "args": ["v", "k", "a"], "init": {"v": g(), "k": ptreplay.scalar_words(1), "a": Z}},
        {"op": "P.VarTimeDoubleScalarBaseMult", "args": ["v", "k", "a", "k2"], "init": {"v": g(), "k": ptreplay.scalar_words(0), "a": Z, "k2": k()}},
        {"op": "P.VarTimeDoubleScalarBaseMult", "args": ["v", "k", "a", "k2"], "init": {"v": g(), "k": ptreplay.scalar_words(0), "a": Z, "k2": ptreplay.scalar_words(0)}},
        {"op": "P.VarTimeDoubleScalarBaseMult", "args": ["v", "k", "a", "k2"], "init": {"v": g(), "k": k(), "a": Z, "k2": k()}},
    ]
    # the same uninitialized object in several positions
    ops += [
        {"op": "P.Equal", "args": ["a", "a"], "init": {"a": Z}},
        {"op": "P.Add", "args": ["v", "a", "a"], "init": {"v": g(), "a": Z}}, {"op": "P.Add", "args": ["a", "a", "a"], "init": {"a": Z}}, {"op": "P.Add", "args": ["a", "a", "b"], "init": {"a": Z, "b": g()}},
        {"op": "P.Add", "args": ["a", "b", "a"], "init": {"a": Z, "b": g()}},
        {"op": "P.Subtract", "args": ["v", "a", "a"], "init": {"v": g(), "a": Z}}, {"op": "P.Subtract", "args": ["a", "a", "a"], "init": {"a": Z}},
        {"op": "P.Negate", "args": ["a", "a"], "init": {"a": Z}}, {"op": "P.MultByCofactor", "args": ["a", "a"], "init": {"a": Z}},
        {"op": "P.ScalarMult", "args": ["a", "k", "a"], "init": {"k": k(), "a": Z}},
        {"op": "P.VarTimeDoubleScalarBaseMult", "args": ["a", "k", "a", "k2"], "init": {"k": k(), "a": Z, "k2": k()}},
        {"op": "P.MultiScalarMult", "args": ["a", "k|k2", "a|a"], "init": {"k": k(), "k2": k(), "a": Z}},
        {"op": "P.VarTimeMultiScalarMult", "args": ["a", "k|k2", "a|a"], "init": {"k": k(), "k2": k(), "a": Z}},
        {"op": "P.VarTimeMultiScalarMult", "args": ["v", "k|k", "a|a"], "init": {"v": g(), "k": k(), "a": Z}},
    ]
    for op in ("P.MultiScalarMult", "P.VarTimeMultiScalarMult"):
        for n in (1, 2, 3):
            for bad in range(n):
                init = {"v": g()}
                for j in range(n):
                    init["k%d" % j] = k()
                    init["q%d" % j] = Z if j == bad else g()
                ops.append({"op": op, "args": ["v", "|".join("k%d" % j for j in range(n)), "|".join("q%d" % j for j in range(n))], "init": init})
                # special scalar values at the position of the uninitialized point (a term that "contributes nothing" must
                # still be guarded): 0, 1, l-1
                for kv in (0, 1, ref.L - 1):
                    init2 = dict(init)
                    init2["k%d" % bad] = ptreplay.scalar_words(kv)
                    ops.append({"op": op, "args": ["v", "|".join("k%d" % j for j in range(n)), "|".join("q%d" % j for j in range(n))], "init": init2})
        for ns, np_ in ((0, 1), (1, 0), (2, 1), (1, 2), (3, 2)):
            init = {"v": g()}
            for j in range(max(ns, np_)):
                init["k%d" % j] = k()
                init["q%d" % j] = g()
            ops.append({"op": op, "args": ["v", "|".join("k%d" % j for j in range(ns)), "|".join("q%d" % j for j in range(np_))], "init": init})
    res = native.run_ops("", ops)
    for o, r in zip(ops, res):
        if "panic" not in r:
            return dict(what="%s with an uninitialized Point input / mismatched lengths does not panic" % o["op"], op=o["op"], args=o["args"], init=o["init"])
    return None


def misuse_battery_sizes(seed, sizes):
    """term counts far above the symbolic bound: an uninitialized Point at the first / a middle / a late / the last index,
    next to a distinct valid receiver, an uninitialized distinct receiver, or being the receiver itself"""
    import random
    from sym import native, ptreplay, ref
    rng = random.Random(seed)
    pts = ptreplay.bank(rng, 6)
    ops, meta = [], []
    for op in ("P.MultiScalarMult", "P.VarTimeMultiScalarMult"):
        for n in sizes:
            if n < 1:
                continue
            for bad in sorted({0, n // 2, (n * 7) // 8, n - 1}):
                for recv in ("valid", "zero", "alias"):
                    init = {}
                    for j in range(n):
                        init["k%d" % j] = ptreplay.scalar_words(rng.choice([0, 1, rng.randrange(ref.L)]))
                        init["q%d" % j] = "pt:zero" if j == bad else ptreplay.mk_point(pts[rng.randrange(len(pts))], rng)
                    v = "q%d" % bad if recv == "alias" else "v"
                    if v == "v":
                        init["v"] = "pt:zero" if recv == "zero" else ptreplay.mk_point(pts[0], rng)
                    ops.append({"op": op, "args": [v, "|".join("k%d" % j for j in range(n)), "|".join("q%d" % j for j in range(n))], "init": init})
                    meta.append((op, n, bad, recv))
    res = native.run_ops("", ops)
    for (op, n, bad, recv), o, r in zip(meta, ops, res):
        if "panic" not in r:
            return dict(what="%s with %d terms, points[%d] uninitialized (receiver: %s) does not panic" % (op, n, bad, {"valid": "a distinct valid point", "zero": "a distinct zero value", "alias": "that same uninitialized point"}[recv]),
                        op=op, args=o["args"], init=o["init"])
    return None


def coverage_run(base, chk, routine, n):
    """explore the routine on valid inputs only to record which basic blocks the bound n reaches (results are C01's business)"""
    h = L2m.L2(base, chk)
    path = h.path()
    fname = base.prog.find("Point)." + routine)
    sc = [h.scalar(path, "k%d" % i)[0] for i in range(n)]
    pts = [h.point(path, "Q%d" % i) for i in range(n)]
    ss, _ = h.ptr_slice(path, sc, "Scalar")
    ps, _ = h.ptr_slice(path, pts, "Point")
    t0 = time.time()
    paths = h.ex.call(fname, [h.point(path, "R"), ss, ps], path)
    chk.used(base.prog, fname, "group mode")
    chk.add(Ob("%s[n=%d, valid inputs]: explored for block coverage (%d paths, %d return)" % (routine, n, len(paths), sum(1 for p in paths if p.outcome[0] == "ret")),
               "unsat" if paths and all(p.outcome[0] == "ret" for p in paths) else "error:non-returning path %s" % ([p.outcome for p in paths if p.outcome[0] != "ret"][:1],), time.time() - t0, [fname], "group mode"))


def run(chk):
    prog, base = setup(chk)
    from .common import state_shape
    state_shape(chk, prog)
    maxn = 3
    chk.bounds = ["every exported operation x every *Point input position (slice elements for n <= %d), all other arguments symbolic/valid; mismatched lengths with symbolic lengths" % maxn]
    chk.outside = ["n > %d for the slice positions" % maxn]
    chk.assumptions = ["checkInitialized abstracted as 'panics exactly on the zero value' in group mode; that abstraction is itself checked on the real guard (limb level) below"]
    # API surface from SSA: every exported function/method with *Point parameters (other than Set) must be in the table below
    table = {"Add": [1, 2], "Subtract": [1, 2], "Negate": [1], "MultByCofactor": [1], "Equal": [0, 1], "Bytes": [0], "BytesMontgomery": [0], "ExtendedCoordinates": [0],
             "ScalarMult": [2], "VarTimeDoubleScalarBaseMult": [2], "MultiScalarMult": "slice", "VarTimeMultiScalarMult": "slice",
             "Set": None, "SetBytes": None, "SetExtendedCoordinates": None, "ScalarBaseMult": None}
    missing = []
    for n, f in prog.funcs.items():
        api = n.startswith("(*filippo.io/edwards25519.Point).") or n.startswith("(*filippo.io/edwards25519.Scalar).") or (n.startswith("filippo.io/edwards25519.") and "$" not in n)
        if api and f.get("exported") and f.get("pkg") == "filippo.io/edwards25519" and not f.get("external"):
            has_pt = any(p["type"] in ("*" + E + "Point", "[]*" + E + "Point") for p in f["params"][1:] ) or (f["params"] and f["params"][0]["type"] == "*" + E + "Point")
            if has_pt and f["short"] not in table:
                missing.append(n)
    chk.add(Ob("every exported operation taking a *Point is in the harness table (computed from SSA)", "unsat" if not missing else "uncovered:%s" % missing, 0, [], "API surface"))
    items = [("checkInitialized", lambda: k_checkinit(base, chk))]
    PTN = "Point)."
    for meth, pos in table.items():
        if not pos:
            continue
        fname = prog.find(PTN + meth)
        if pos == "slice":
            for n in range(1, maxn + 1):
                for bad in range(n):
                    def build(h, path, n=n, bad=bad):
                        sc = [h.scalar(path, "k%d" % i)[0] for i in range(n)]
                        pts = [h.point(path, None if i == bad else "Q%d" % i) for i in range(n)]
                        ss, _ = h.ptr_slice(path, sc, "Scalar")
                        ps, _ = h.ptr_slice(path, pts, "Point")
                        return [h.point(path, "R"), ss, ps]
                    items.append(("%s n=%d bad=%d" % (meth, n, bad), lambda meth=meth, fname=fname, build=build, n=n, bad=bad: expect_panic(base, chk, "%s[n=%d, points[%d] uninitialized]" % (meth, n, bad), fname, build)))

            for recv_alias in (False, True):
                def build_same(h, path, recv_alias=recv_alias):
                    zero = h.point(path, None)
                    sc = [h.scalar(path, "k%d" % i)[0] for i in range(2)]
                    ss, _ = h.ptr_slice(path, sc, "Scalar")
                    ps, _ = h.ptr_slice(path, [zero, zero], "Point")
                    return [zero if recv_alias else h.point(path, "R"), ss, ps]
                tag = "n=2, both points are one uninitialized object%s" % (", which is also the receiver" if recv_alias else "")
                items.append(("%s %s" % (meth, tag), lambda meth=meth, fname=fname, build_same=build_same, tag=tag: expect_panic(base, chk, "%s[%s]" % (meth, tag), fname, build_same)))

            def build_len(h, path):
                ls = h.dom.input("len(scalars)", 0, 1 << 30)
                lp = h.dom.input("len(points)", 0, 1 << 30)
                path.pc.append(LFCond("!=", ls - lp))
                so = h.ex.new_obj(path, ("array", 0, prog.T("*" + E + "Scalar")), init=[])
                po = h.ex.new_obj(path, ("array", 0, prog.T("*" + E + "Point")), init=[])
                return [h.point(path, "R"), X.SliceV(so, (), 0, ls, ls), X.SliceV(po, (), 0, lp, lp)]
            items.append(("%s lens" % meth, lambda meth=meth, fname=fname, build_len=build_len: expect_panic(base, chk, "%s[len(scalars) != len(points), both symbolic]" % meth, fname, build_len)))
        else:
            f = prog.fn(fname)
            ptpos = [i for i, p in enumerate(f["params"]) if p["type"] == "*" + E + "Point"]
            # every non-empty set of input positions holds the SAME uninitialized object (aliasing), optionally together
            # with the receiver (when the receiver is not itself an input position)
            import itertools
            variants = []
            for r_ in range(1, len(pos) + 1):
                for S in itertools.combinations(pos, r_):
                    variants.append((S, False))
                    if 0 not in pos and 0 in ptpos:
                        variants.append((S, True))
            for S, with_recv in variants:
                def build(h, path, f=f, S=S, with_recv=with_recv):
                    args = []
                    zero = h.point(path, None)
                    for i, p in enumerate(f["params"]):
                        if p["type"] == "*" + E + "Point":
                            if i in S or (with_recv and i == 0):
                                args.append(zero)
                            else:
                                args.append(h.point(path, "P%d" % i))
                        elif p["type"] == "*" + E + "Scalar":
                            args.append(h.scalar(path, "k%d" % i)[0])
                        else:
                            raise X.ExecError("param type " + p["type"])
                    return args
                tag = "inputs %s are one uninitialized Point%s" % (list(S), " that is also the receiver" if with_recv else "") if (len(S) > 1 or with_recv) else "input #%d uninitialized" % S[0]
                items.append(("%s %s" % (meth, tag), lambda meth=meth, fname=fname, build=build, tag=tag: expect_panic(base, chk, "%s[%s]" % (meth, tag), fname, build)))
    # the slice positions are explored for n <= maxn only: the valid-input runs below record which blocks that bound reaches
    items.insert(0, ("coverage VarTimeMultiScalarMult", lambda: coverage_run(base, chk, "VarTimeMultiScalarMult", 1)))
    items.insert(1, ("coverage MultiScalarMult", lambda: coverage_run(base, chk, "MultiScalarMult", 2)))
    run_kernels(chk, items)
    L1m.settle(chk, [o for o in chk.obs if "panic" in o.name and not o.ok()], lambda: misuse_battery(chk.seed), "misuse panics")
    # "the bounds cover the code": code of the multi-scalar routines that only larger term counts reach leaves the
    # slice-position claim undecided; the misuse battery is then run with term counts around the constants of that code
    from .common import bounds_cover_code
    roots = [prog.find(PTN + r) for r in ("MultiScalarMult", "VarTimeMultiScalarMult")]
    consts = bounds_cover_code(chk, prog, roots, exempt=("filippo.io/edwards25519.checkInitialized", "(*filippo.io/edwards25519.Scalar).nonAdjacentForm"))
    ob = chk.obs[-1]
    if not ob.ok():
        sizes = sorted({n for c in (consts or [8, 16, 32, 64]) for n in (c - 1, c, c + 1, c + 3, 2 * c + 1) if 1 <= n <= 600})[:10]
        chk.extra["large_term_counts_replayed"] = sizes
        hit = misuse_battery_sizes(chk.seed, sizes)
        if hit:
            ob.verdict = "violated"
            chk.violation("multi-scalar routines above the symbolic bound", hit["what"], hit)
    chk.samples = [o.j() for o in chk.obs if "every feasible path panics" in o.name][:6]


def safety_net(chk):
    return misuse_battery(chk.seed)
