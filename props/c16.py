"""C16 - SqrtRatio follows the ristretto255 SQRT_RATIO_M1 contract."""
import time, z3
from sym import kernels as K, exec as X, dom_lf
from sym.dom_lf import LF, LFCond
from sym.absmodes import Abs
from sym.check import Ob
from .common import setup, run_kernels
from .c02 import field_contracts
from .c09 import k_absolute

F = K.F
P = K.P
N = P - 1          # order of GF(p)*
C = (P - 5) // 8   # exponent of Pow22523
EM = "(*filippo.io/edwards25519/field.Element)."
ZERO = "zero"


def install_dlog(ex, dom, kform):
    """discrete-log model: a non-zero element is g^e (g a generator of the cyclic group GF(p)*), cells hold
    the integer exponent e as an Int-LF form (unreduced; equality is congruence mod N = p-1) or ZERO"""
    ex.opaque[F + "Element"] = lambda: Abs(ZERO, True)
    S = ex.summaries
    st = {"calls": []}

    def get(path, p):
        c = ex.load(path, p)
        if isinstance(c, tuple):   # concrete constant: only sqrtM1 is expected
            raise X.ExecError("dlog mode: concrete element constant")
        return c.v

    def put(path, p, v):
        ex.store(path, p, Abs(v, False))
        return p

    def mul(ex_, path, a):
        x, y = get(path, a[1]), get(path, a[2])
        st["calls"].append("Multiply")
        return put(path, a[0], ZERO if (x == ZERO or y == ZERO) else x + y)

    def sq(ex_, path, a):
        x = get(path, a[1])
        st["calls"].append("Square")
        return put(path, a[0], ZERO if x == ZERO else x.scale(2))

    def neg(ex_, path, a):
        x = get(path, a[1])
        st["calls"].append("Negate")
        return put(path, a[0], ZERO if x == ZERO else x + N // 2)

    def pow22523(ex_, path, a):
        x = get(path, a[1])
        st["calls"].append("Pow22523")
        return put(path, a[0], ZERO if x == ZERO else x.scale(C))

    def set_(ex_, path, a):
        return put(path, a[0], get(path, a[1]))

    def equal(ex_, path, a):
        x, y = get(path, a[0]), get(path, a[1])
        st["calls"].append("Equal")
        if x == ZERO or y == ZERO:
            return 1 if (x == ZERO and y == ZERO) else 0
        c = LFCond("modeq", x - y, [N])
        t = ex.truth(path, c)
        return 1 if t else 0

    def select(ex_, path, a):
        v, x, y, c = a
        if type(c) is not int or c not in (0, 1):
            raise X.ExecError("dlog Select cond %r" % (c,))
        return put(path, v, get(path, x if c == 1 else y))

    def absolute(ex_, path, a):
        # contract (C09/C10): result = +-u with even reduced value; which sign is unknown here -> fork on a fresh bit
        x = get(path, a[1])
        st["calls"].append("Absolute")
        if x == ZERO:
            return put(path, a[0], ZERO)
        s = path.dstate.get("abs_s")
        if s is None:
            s = dom.input("abs_sign", 0, 1)
            path.dstate["abs_s"] = s
        return put(path, a[0], x + s.scale(N // 2))
    S[EM + "Multiply"] = mul
    S[EM + "Square"] = sq
    S[EM + "Negate"] = neg
    S[EM + "Pow22523"] = pow22523
    S[EM + "Set"] = set_
    S[EM + "Equal"] = equal
    S[EM + "Select"] = select
    S[EM + "Absolute"] = absolute
    return st


def dlog_case(base, chk, ca, cb, uzero=False, vzero=False):
    prog = base.prog
    fname = prog.find("Element).SqrtRatio")
    dom = dom_lf.LFDomain(60000)
    dom.feas_timeout_ms = 20000
    ex = base.executor(dom)
    # sqrtM1 = g^(k*N/4), k in {1,3}: the only facts used are sqrtM1^2 = -1 (checked concretely) <=> k odd
    t_ = dom.input("k_half", 0, 1)
    kform = (t_.scale(2) + 1).scale(N // 4)
    st = install_dlog(ex, dom, kform)
    path = X.Path()
    heap = {k: X.clone_cells(v) for k, v in ex.base_heap.items()}
    # replace the concrete sqrtM1 object by its dlog
    sq_ptr = heap[ex.global_objs[F + "sqrtM1"]][0]
    heap[sq_ptr.obj] = [Abs(kform, False)]
    path.heap = heap
    ET = prog.T(F + "Element")
    a_ = dom.input("alpha4", 0, N // 4 - 1)
    b_ = dom.input("beta4", 0, N // 4 - 1)
    alpha = a_.scale(4) + ca
    beta = b_.scale(4) + cb
    u = X.Ptr(ex.new_obj(path, ET, name="u", init=Abs(ZERO if uzero else alpha, False)))
    v = X.Ptr(ex.new_obj(path, ET, name="v", init=Abs(ZERO if vzero else beta, False)))
    r = X.Ptr(ex.new_obj(path, ET, name="r", init=Abs(LF({}, 12345), False)))
    label = "SqrtRatio[%s]" % ("u=0,v=0" if uzero and vzero else "u=0" if uzero else "v=0" if vzero else "alpha=%d,beta=%d mod 4" % (ca, cb))
    t0 = time.time()
    paths = ex.call(fname, [r, u, v], path)
    chk.used(prog, fname, "dlog mode (exponents mod p-1 as Int-LF; Equal = congruence; Pow22523 = *(p-5)/8 by its chain contract)")
    bad = [p for p in paths if p.outcome[0] != "ret"]
    chk.add(Ob("%s: no panic, %d path(s)" % (label, len(paths)), "unsat" if not bad and paths else "sat", 0, [fname], "dlog"))
    for i, p in enumerate(p for p in paths if p.outcome[0] == "ret"):
        R, ws = p.outcome[1]
        rho = ex.load(p, r).v
        chk.add(Ob("%s [path %d]: returns the receiver; wasSquare in {0,1}" % (label, i), "unsat" if R == r and type(ws) is int and ws in (0, 1) else "sat", 0, [fname], "structure"))
        if uzero:
            ok = rho == ZERO and ws == 1
            chk.add(Ob("%s [path %d]: u = 0 gives (0, 1)" % (label, i), "unsat" if ok else "sat", 0, [fname], "dlog"))
            continue
        if vzero:
            ok = rho == ZERO and ws == 0
            chk.add(Ob("%s [path %d]: v = 0, u != 0 gives (0, 0)" % (label, i), "unsat" if ok else "sat", 0, [fname], "dlog"))
            continue
        is_sq = (ca - cb) % 2 == 0
        # a path whose wasSquare disagrees with the quadratic character of u/v must be infeasible
        tq = time.time()
        if ws != (1 if is_sq else 0):
            rr = dom.check(p, [], "feasibility", timeout_ms=60000)
            chk.add(Ob("%s [path %d]: path with wasSquare=%d although u/v is %sa square is infeasible" % (label, i, ws, "" if is_sq else "not "), rr, time.time() - tq, [fname], "dlog / LIA"))
            continue
        if rho == ZERO:
            chk.add(Ob("%s [path %d]: result is zero although u,v are non-zero" % (label, i), "sat", 0, [fname], "dlog"))
            continue
        target = alpha if ws == 1 else alpha + kform
        rr = dom.check(p, [LFCond("modne", rho.scale(2) + beta - target, [N])], "relation", timeout_ms=60000)
        chk.add(Ob("%s [path %d]: wasSquare=%d and v*r^2 = %s" % (label, i, ws, "u" if ws == 1 else "sqrt(-1)*u"), rr, time.time() - tq, [fname], "dlog / LIA"))
    if not uzero and not vzero:
        # at least one feasible path with the right flag exists (vacuity guard)
        good = [p for p in paths if p.outcome[0] == "ret" and p.outcome[1][1] == (1 if (ca - cb) % 2 == 0 else 0)]
        chk.add(Ob("%s: a path with the correct wasSquare exists" % label, "unsat" if good else "sat", 0, [fname], "dlog"))
    return st


def sqrt_battery(seed):
    import random
    from sym import native, ref
    rng = random.Random(seed)
    cands = []
    vals = [0, 1, 2, P - 1, ref.SQRT_M1, P - ref.SQRT_M1, 4, 9, ref.D, (P - 1) // 2]
    for u in vals:
        for v in vals[:6]:
            cands.append((u, v))
    for _ in range(60):
        cands.append((rng.randrange(P), rng.randrange(P)))
    # inputs for which the *intermediate* values of the computation (u*sqrt(-1), -u*sqrt(-1), u/v, the candidate root, v*r^2)
    # have structured 51-bit limbs - an all-zero or all-ones limb, l0 within 19 of 0 or of 2^51: solve u from the target t
    # (u = +-t, +-t*i, +-t/i, t*v, t^2*v ...), both for square and non-square ratios
    M = 2**51 - 1
    I = ref.SQRT_M1
    Iinv = ref.inv(I)
    ts = []
    for l0 in (0, 1, 18, 19, 2**51 - 19, 2**51 - 18, 2**51 - 10, 2**51 - 1, rng.randrange(2**51)):
        for pat in ("rand", "zero1", "zero2", "ones", "top"):
            limbs = [l0] + [rng.randrange(2**51) for _ in range(4)]
            if pat == "zero1":
                limbs[1] = 0
            elif pat == "zero2":
                limbs[2] = limbs[3] = 0
            elif pat == "ones":
                limbs[1] = limbs[2] = limbs[3] = limbs[4] = M
            elif pat == "top":
                limbs[4] = M
            ts.append(sum(l << (51 * i) for i, l in enumerate(limbs)) % P)
    for t in ts:
        cands.append((t, 0))            # v = 0 with structured non-zero u: must give (0, 0)
        cands.append((0, t))            # u = 0: must give (0, 1)
    for e_ in (51, 102, 153, 204, 254, 255):
        cands.append(((1 << e_) % P, 0))
        cands.append(((P - (1 << e_)) % P, 0))
    for t in ts:
        for v in (1, 4, rng.randrange(1, P)):
            for u in (t, P - t, t * I % P, (P - t) * I % P, t * Iinv % P, (P - t) * Iinv % P, t * v % P, t * t % P * v % P, t * t % P * v % P * I % P):
                cands.append((u % P, v))
    lim = lambda x: ",".join(str((x >> (51 * i)) & (2**51 - 1)) if i < 4 else str(x >> 204) for i in range(5))
    ops = [{"op": "SqrtRatio", "args": ["r", "u", "v"], "init": {"r": "7,7,7,7,7", "u": lim(u), "v": lim(v)}} for u, v in cands]
    res = native.run_ops("field", ops)
    for (u, v), r_ in zip(cands, res):
        if "panic" in r_:
            return dict(what="SqrtRatio panics", op="SqrtRatio", inputs=dict(u=str(u), v=str(v)))
        r = ref.fe_val(ref.parse_limbs(r_["slots"]["r"])) % P
        ws = r_["int"]
        if u == 0:
            exp = (0, 1)
            ok = (r, ws) == exp
        elif v == 0:
            ok = (r, ws) == (0, 0)
        else:
            ratio = u * ref.inv(v) % P
            if ref.is_square(ratio):
                ok = ws == 1 and (v * r * r - u) % P == 0 and r % 2 == 0
            else:
                ok = ws == 0 and (v * r * r - ref.SQRT_M1 * u) % P == 0 and r % 2 == 0
        if not ok or not r_.get("ret_is_recv"):
            return dict(what="SqrtRatio(%d, %d) = (%d, %d)" % (u, v, r, ws), op="SqrtRatio", inputs=dict(u=str(u), v=str(v)))
        if r_["slots"]["u"] != lim(u) or r_["slots"]["v"] != lim(v):
            return dict(what="SqrtRatio modified an argument", op="SqrtRatio", inputs=dict(u=str(u), v=str(v)))
    return None


def sqrt_case_items(base, chk):
    """the case analysis of SqrtRatio's own logic (dlog mode on the real body): 16 residue classes + the zero cases; used by
    C16 and re-discharged by the checks that rely on the SqrtRatio contract (C04)"""
    cases = []
    for ca in range(4):
        for cb in range(4):
            cases.append(("dlog %d,%d" % (ca, cb), lambda ca=ca, cb=cb: dlog_case(base, chk, ca, cb)))
    cases += [("u=0", lambda: dlog_case(base, chk, 0, 0, uzero=True)), ("v=0", lambda: dlog_case(base, chk, 0, 0, vzero=True)), ("u=v=0", lambda: dlog_case(base, chk, 0, 0, True, True))]
    return cases


def sqrt_settle(chk):
    from sym import l1 as L1m
    L1m.settle(chk, [o for o in chk.obs if o.name.startswith("SqrtRatio[")], lambda: sqrt_battery(chk.seed), "Element.SqrtRatio")


def run(chk):
    prog, base = setup(chk)
    from .common import state_shape
    state_shape(chk, prog)
    chk.bounds = ["all (u,v): non-zero pairs as g^alpha, g^beta with alpha,beta in Z/(p-1) split into the 16 residue classes mod 4 (exhaustive, code independent); the three zero cases separately",
                  "every limb representation via the field contracts"]
    chk.outside = ["GF(p)* is cyclic of order p-1 (p prime)", "the sign chosen by Absolute is its own contract (C09: even reduced value); inside SqrtRatio it is a free bit"]
    chk.assumptions = ["Multiply/Square/Negate/Equal/Select/Pow22523/Absolute replaced by their contracts, discharged in this run", "sqrtM1 = g^(k(p-1)/4) with k odd (checked: sqrtM1^2 = -1)"]
    items = list(field_contracts(base, chk))
    items += [("reduce", lambda: K.k_reduce(base, chk)), ("Bytes", lambda: K.k_bytes(base, chk)), ("Equal/IsNegative", lambda: K.k_equal_isneg(base, chk)),
              ("Pow22523", lambda: K.k_chain(base, chk, "Pow22523")), ("Select/Swap", lambda: K.k_select_swap(base, chk)), ("Absolute", lambda: k_absolute(base, chk))]
    cases = sqrt_case_items(base, chk)
    def aliased():
        from .c11 import k_sqrt_alias
        k_sqrt_alias(base, chk)
    cases.append(("aliased receiver", aliased))
    run_kernels(chk, cases + items)
    sq = base.global_val(F + "sqrtM1")
    sv = sum(int(l) << (51 * i) for i, l in enumerate(sq)) % P
    chk.fact("sqrtM1^2 = -1 mod p and sqrtM1 = 2^((p-1)/4) (the ristretto255 SQRT_M1 constant)", (sv * sv + 1) % P == 0 and sv == pow(2, (P - 1) // 4, P) and sv == 19681161376707505956807079304988542015446066515923890162744021073123829784752, [F + "init"], "concrete")
    chk.fact("(p-1) divisible by 4, (p-5)/8 integral, (p-1)/4 = 1 + 2*(p-5)/8", N % 4 == 0 and (P - 5) % 8 == 0 and N // 4 == 1 + 2 * C, [], "arithmetic")
    sqrt_settle(chk)
    from sym import l1 as L1m
    def alias_sqrt_battery():
        from .c11 import alias_battery
        return alias_battery(chk.seed)
    L1m.settle(chk, [o for o in chk.obs if o.name.startswith("Element.SqrtRatio[")], alias_sqrt_battery, "Element.SqrtRatio aliasing")
    chk.samples = [o.j() for o in chk.obs if o.name.startswith("SqrtRatio[")][:6]


def safety_net(chk):
    from .c09 import absolute_battery
    from sym import ptreplay
    return sqrt_battery(chk.seed) or absolute_battery(chk.seed) or ptreplay.battery_value_history(chk.seed, "element")
