"""C03 - constant-time operations leak only argument lengths (control flow, addressing, variable-latency operands)."""
import time, z3, itertools
from sym import kernels as K, exec as X, dom_bv, asm
from sym.check import Ob
from .common import setup, run_kernels

E, F = K.E, K.F
L, P = K.L, K.P

# tiny helpers / standard-library routines are executed inline in their callers; everything else is analysed on its own
# and replaced by a "leak-free, fresh secret outputs" summary in its callers (assume/guarantee over the call graph)
INLINE = {F + "mask64Bits", F + "mul51", F + "mul64", F + "addMul64", F + "shiftRightBy51", E + "fiatScalarCmovznzU64", "(*filippo.io/edwards25519.Scalar).pow2k",
          E + "copyFieldElement", "(*filippo.io/edwards25519.Scalar).setShortBytes"}
# validity decisions of decoders (exempt by the property): the branch sites inside these functions are not leaks
VALIDITY = {"(*filippo.io/edwards25519.Point).SetBytes", "(*filippo.io/edwards25519.Scalar).SetCanonicalBytes", E + "isReduced",
            "(*filippo.io/edwards25519.Point).SetExtendedCoordinates", E + "isOnCurve"}
BYTES_LEN = {"(*filippo.io/edwards25519.Scalar).SetUniformBytes": 64, "(*filippo.io/edwards25519/field.Element).SetWideBytes": 64}


def callees(prog, fname):
    f = prog.funcs.get(fname)
    out = set()
    if not f or f.get("external"):
        return out
    for b in f["blocks"]:
        for ins in b["instrs"]:
            if ins["op"] == "Call" and ins["call"]["mode"] == "static":
                out.add(ins["call"]["fn"])
            if ins["op"] == "MakeClosure":
                out.add(ins["fn"])
    return out


def reach(prog, roots):
    seen, work = set(), list(roots)
    while work:
        x = work.pop()
        if x in seen:
            continue
        seen.add(x)
        work.extend(callees(prog, x))
    return seen


def is_repo(prog, n):
    f = prog.funcs.get(n)
    return bool(f) and f.get("pkg", "").startswith("filippo.io/edwards25519")


class Analyzer:
    def __init__(self, base, chk):
        self.base, self.chk, self.prog = base, chk, base.prog
        self.shapes = {}      # fname -> return shape learnt from its own analysis
        self.inline = set(INLINE)   # functions executed inside their callers (grows: context-sensitive re-analysis)
        self.roots = set()
        self.vartime = set()   # variable-time routines reached from a constant-time entry point: calls to them are leak sites

    # ---- symbolic inputs from types
    def sym_cells(self, k, t, name):
        """cells of type t filled with fresh secret symbols (pointers inside are not supported except nil)"""
        prog = self.prog
        if isinstance(t, tuple):
            return [self.sym_cells(k, t[2], "%s[%d]" % (name, i)) for i in range(t[1])]
        u = t.u
        if u.k == "basic":
            if t.is_bool():
                return z3.Bool(name)
            if u.name in ("string", "untyped string"):
                return "?"     # message texts: public
            w, s = t.int_info()
            return k.bv(name, w)
        if u.k == "struct":
            return [self.sym_cells(k, prog.T(f["type"]), name + "." + f["name"]) for f in u.fields]
        if u.k == "array":
            et = prog.T(u.elem_id)
            return [self.sym_cells(k, et, "%s[%d]" % (name, i)) for i in range(u.len)]
        if u.k in ("ptr", "slice", "func", "iface"):
            return None if u.k != "slice" else X.SliceV(None, (), 0, 0, 0)
        raise X.ExecError("sym_cells of %s" % t)

    def havoc_cells(self, k, c, tag, cnt):
        if type(c) is list:
            return [self.havoc_cells(k, x, tag, cnt) for x in c]
        if isinstance(c, (X.Ptr, X.SliceV)) or c is None:
            return c
        if isinstance(c, bool) or z3.is_bool(c):
            cnt[0] += 1
            return z3.Bool("%s_h%d" % (tag, cnt[0]))
        w = 64
        if z3.is_bv(c):
            w = c.size()
        elif type(c) is int:
            return "KEEPINT"
        cnt[0] += 1
        return z3.BitVec("%s_h%d" % (tag, cnt[0]), w)

    def make_arg(self, k, path, ptype, name, fname):
        prog, ex = self.prog, k.ex
        t = prog.T(ptype)
        u = t.u
        if u.k == "ptr":
            et = t.elem
            cells = self.sym_cells(k, et, name)
            # sync.Once inside the table struct etc. never appear as parameters
            return X.Ptr(ex.new_obj(path, et, name=name, init=cells))
        if u.k == "slice":
            et = prog.T(u.elem_id)
            if et.u.k == "ptr":
                n = 2
                ptrs = [self.make_arg(k, path, et.id, "%s[%d]" % (name, i), fname) for i in range(n)]
                oid = ex.new_obj(path, ("array", n, et), name=name, init=list(ptrs))
                return X.SliceV(oid, (), 0, n, n)
            n = BYTES_LEN.get(fname, 32)
            if fname.endswith("setShortBytes"):
                n = 21
            n += getattr(self, "len_delta", 0)
            cells = [self.sym_cells(k, et, "%s[%d]" % (name, i)) for i in range(n)]
            oid = ex.new_obj(path, ("array", n, et), name=name, init=cells)
            return X.SliceV(oid, (), 0, n, n)
        if u.k == "basic":
            if t.is_bool():
                return z3.Bool(name)
            if u.name in ("string", "untyped string"):
                return "?"     # message texts: public
            w, s = t.int_info()
            v = k.bv(name, w)
            if name == "cond":
                path.pc.append(z3.Or(v == 0, v == 1))
            if fname.endswith("SelectInto") and name == "x":
                if "naf" in fname:
                    path.pc.append(z3.And(v >= 1, v <= (15 if "5" in fname else 127), z3.Extract(0, 0, v) == 1))
                else:
                    path.pc.append(z3.And(v >= -8, v <= 8))
            return v
        if u.k in ("struct", "array"):
            return X.Executor.to_value(ex, self.sym_cells(k, t, name))
        raise X.ExecError("argument type %s" % ptype)

    # ---- summaries for callees
    def summary_for(self, k, callee):
        prog, an = self.prog, self
        f = prog.fn(callee)
        shape = self.shapes.get(callee)
        cnt = [0]
        short = f["short"]

        def summ(ex, path, args):
            if args and all(isinstance(a, (int, bool, str)) for a in args):
                # every argument is a concrete public value (loop counters, constants): the result is public too - run
                # the body instead of replacing the result by a fresh secret
                return X.TailCall(callee, list(args))
            n = path.dstate.setdefault("nsum", [0])
            n[0] += 1
            tag = "%s%d" % (short, n[0])
            # havoc everything reachable through pointer / slice arguments (contents only)
            for a in args:
                if isinstance(a, X.Ptr):
                    c, idx = ex._walk(path, a)
                    newc = an.havoc_cells(k, c[idx], tag, cnt)
                    newc = merge_keep(c[idx], newc)
                    if a.view is None:
                        c[idx] = newc
                    path.log.append(("w", a.obj, a.path))
                elif isinstance(a, X.SliceV) and a.obj is not None and type(a.len) is int:
                    c, idx = ex._walk(path, X.Ptr(a.obj, a.path))
                    arr = c[idx]
                    for i in range(a.off, a.off + a.len):
                        if not isinstance(arr[i], (X.Ptr,)):
                            arr[i] = merge_keep(arr[i], an.havoc_cells(k, arr[i], tag, cnt))
            res = []
            for j, rt in enumerate(f["results"]):
                sh = shape[j] if shape and j < len(shape) else None
                t = prog.T(rt)
                if sh and sh[0] == "arg":
                    res.append(args[sh[1]])
                elif sh and sh[0] == "slice":
                    cells = [k_fresh(tag, cnt, 8) for _ in range(sh[1])]
                    oid = ex.new_obj(path, ("array", sh[1], prog.T("uint8")), name=tag + ".ret", init=cells, kind="heap")
                    if short in ("Bytes", "bytes") and "Scalar" in callee:
                        path.pc.append(z3.ULT(K.cat_bytes(cells), z3.BitVecVal(L, 256)))
                    if short in ("Bytes", "bytes") and "Element" in callee:
                        path.pc.append(z3.Extract(7, 7, cells[31]) == 0)
                    res.append(X.SliceV(oid, (), 0, sh[1], sh[1]))
                elif sh and sh[0] == "ptr":
                    et = prog.T(sh[1])
                    oid = ex.new_obj(path, et, name=tag + ".ret", init=an.sym_cells(k, et, tag + ".ret"), kind="heap")
                    res.append(X.Ptr(oid))
                elif sh and sh[0] == "nil":
                    res.append(None)
                elif t.is_bool():
                    cnt[0] += 1
                    res.append(z3.Bool("%s_r%d" % (tag, cnt[0])))
                elif t.is_int():
                    w, s = t.int_info()
                    v = k_fresh(tag, cnt, w)
                    if short in ("Equal", "IsNegative"):
                        path.pc.append(z3.Or(v == 0, v == 1))
                    res.append(v)
                elif t.u.k in ("array", "struct"):
                    cells = an.sym_cells(k, t, tag + ".ret")
                    if short == "signedRadix16":
                        for d in cells:
                            path.pc.append(z3.And(d >= -8, d <= 8))
                    res.append(ex.to_value(cells))
                elif t.u.k == "iface":
                    res.append(None)
                else:
                    raise X.ExecError("summary result type %s of %s" % (rt, callee))
            if not res:
                return None
            return res[0] if len(res) == 1 else tuple(res)
        return summ

    # ---- analysis of one function
    def analyse(self, fname, roots_info):
        prog, chk, base = self.prog, self.chk, self.base
        f = prog.fn(fname)
        k = K.BVK(base, chk, fname, label=fname.replace("filippo.io/edwards25519", "ed"))
        ex = k.ex
        ex.leak_mode = True
        chk.functions[fname] = {"mode": "leakage (BV, callees summarised as leak-free)", "ssa_instrs": sum(len(b["instrs"]) for b in f["blocks"])}
        for c in self.todo_set:
            if c != fname and c not in self.inline and is_repo(prog, c) and not prog.fn(c).get("external"):
                ex.summaries[c] = self.summary_for(k, c)
        # assembly-backed feMul/feSquare: shape checked statically, summarised here
        for nm in ("feMul", "feSquare"):
            if prog.funcs.get(F + nm, {}).get("external"):
                def asmsum(ex_, path, a, nm=nm):
                    for p in a[1:]:
                        ex_.load(path, p)
                    ex_.store(path, a[0], tuple(z3.BitVec("%s.l%d_%d" % (nm, i, len(path.log)), 64) for i in range(5)))
                ex.summaries[F + nm] = asmsum
        # calls that leave the analysed code base (no SSA body, no exact model): any such call with secret-derived
        # arguments is a leak site of kind "extcall" (a routine not known to be constant time, e.g. bytes.Equal, math/big)
        seen_ext = set()
        work = [fname]
        visited = set()
        while work:
            x = work.pop()
            if x in visited:
                continue
            visited.add(x)
            for c in callees(prog, x):
                fc = prog.funcs.get(c)
                if fc is None or fc.get("external"):
                    if c not in ex.summaries and not c.endswith(".init"):
                        seen_ext.add(c)
                elif c in self.inline or not is_repo(prog, c):
                    work.append(c)
        for c in list(seen_ext) + sorted(self.vartime):
            def extsum(ex_, path, a, c=c):
                sec = [x for x in a if not isinstance(x, (int, bool, str, X.Ptr, X.Closure)) and x is not None]
                if c.startswith("filippo.io/edwards25519") or c.startswith("(*filippo.io/edwards25519") and c not in self.vartime:
                    # a function of the library itself whose body the front end did not deliver: an engine limitation
                    # (undecided), not a call that leaves the analysed code
                    raise X.ExecError("no SSA body for the library function %s" % c)
                path.leaks.append(("extcall", ex_.site(path), c, len(path.pc)))
                path.dstate.setdefault("extcalls", []).append(c)
                raise X.ExecError("call to %s (no body, not modelled)" % c)
            ex.summaries[c] = extsum
        args = []
        for i, p in enumerate(f["params"]):
            args.append(self.make_arg(k, k.path, p["type"], p["name"], fname))
        if f["freevars"]:
            return None
        t0 = time.time()
        # a stand-alone analysis with every parameter symbolic may not terminate (a loop bound that is a public counter in
        # every caller is symbolic here): bounded in time; the function is then analysed in the context of its callers
        ex.deadline = time.time() + (40 if fname not in self.roots else 300)
        ex.max_pending = 300 if fname in self.roots else None   # (isReduced alone has 65 paths; the entry points have <= 7)
        budget_msg = None
        try:
            paths = ex.call(fname, args, k.path)
        except X.ExecError as e:
            if "time budget" not in str(e):
                raise
            if fname not in self.roots:
                self.shapes[fname] = None
                return dict(fname=fname, paths=0, sites=[], seconds=time.time() - t0, engine_errors=["%s: %s" % (fname, e)], panics=[])
            # an entry point whose exploration blows up (typically: a secret-dependent branch inside a loop doubles the
            # paths every iteration): the leak sites on the paths explored so far are still examined - a site that two
            # secrets drive differently is a leak whether or not the rest was explored; the check stays undecided otherwise
            budget_msg = "%s: %s" % (fname, e)
            paths = list(getattr(e, "partial", []))
            for p_ in paths:
                if p_.outcome is None:
                    p_.outcome = ("pending", "not explored further")
        finally:
            ex.deadline = None
            ex.max_pending = None
        # return shape (for callers' summaries)
        shape = None
        for p in paths:
            if p.outcome[0] == "ret":
                sh = []
                for v in p.outcome[1]:
                    if isinstance(v, X.Ptr):
                        idx = [i for i, a in enumerate(args) if isinstance(a, X.Ptr) and a == v]
                        if idx:
                            sh.append(("arg", idx[0]))
                        else:
                            # a pointer to a fresh object, into a package-level object (e.g. the lazily built tables) or
                            # into an argument: callers get a fresh object of the declared pointee type with secret contents
                            rt_ = prog.T(f["results"][len(sh)])
                            sh.append(("ptr", rt_.elem.id) if rt_.u.k == "ptr" and hasattr(rt_.elem, "id") else ("nil",))
                    elif isinstance(v, X.SliceV):
                        sh.append(("slice", v.len if type(v.len) is int else 32))
                    elif v is None:
                        sh.append(("nil",))
                    else:
                        sh.append(("val",))
                if shape is None or any(s[0] != "nil" for s in sh):
                    shape = sh
        self.shapes[fname] = shape
        errs = [p for p in paths if p.outcome[0] == "error" and not p.dstate.get("extcalls")]
        engine_errors = ["%s: engine could not execute a path: %s" % (fname, errs[0].outcome[1][:160])] if errs else []
        if budget_msg:
            engine_errors.append(budget_msg)
        # vacuity guards: a function none of whose paths returns was not analysed at all; a run-time panic (nil dereference,
        # index out of range) on symbolic valid inputs is an artefact of a summary (or a defect) and hides the code behind it
        if not any(p.outcome and p.outcome[0] == "ret" for p in paths) and not errs and not budget_msg:
            engine_errors.append("%s: no explored path returns (outcomes: %s)" % (fname, sorted({str(p.outcome)[:80] for p in paths})[:3]))
        rt_panics = [p for p in paths if p.outcome[0] == "panic" and not str(p.outcome[1]).startswith("explicit:")]
        if rt_panics:
            engine_errors.append("%s: run-time panic on a path of the leakage analysis: %s" % (fname, str(rt_panics[0].outcome[1])[:120]))
        # ---- leak sites
        sites = {}
        for p in paths:
            for kind, site, expr, npc in p.leaks:
                sites.setdefault((kind, site[0], site[1], site[2], site[3]), []).append((p, expr, npc))
        res = []
        for (kind, sfn, pos, blk, ip), occ in sorted(sites.items(), key=lambda x: str(x[0])):
            # self-composition: can the leaked expression differ between two secrets (same public shape)?
            verdict = "unsat"
            witness = None
            tq = time.time()
            done_keys = set()
            for p, expr, npc in occ:
                if kind == "extcall":
                    verdict = "sat"
                    witness = {"callee": expr}
                    break
                exprs = expr if isinstance(expr, tuple) else (expr,)
                for e in exprs:
                    if isinstance(e, (int, bool)):
                        continue
                    kk = (e.get_id(), tuple(c.get_id() for c in p.pc[:npc] if not isinstance(c, bool)))
                    if kk in done_keys:
                        continue
                    done_keys.add(kk)
                    r, w = self_compose(p.pc[:npc], e)
                    if r != "unsat":
                        verdict = r
                        witness = w
                        break
                if verdict != "unsat":
                    break
            if not pos:
                pos = "%s#block%d" % (sfn.split(".")[-1], blk)
            res.append(dict(kind=kind, fn=sfn, pos=pos, verdict=verdict, witness=witness, seconds=time.time() - tq, block=blk))
        return dict(fname=fname, paths=len(paths), sites=res, seconds=time.time() - t0, engine_errors=engine_errors, panics=[p.outcome for p in paths if p.outcome[0] == "panic"][:2])


def k_fresh(tag, cnt, w):
    cnt[0] += 1
    return z3.BitVec("%s_r%d" % (tag, cnt[0]), w)


def merge_keep(old, new):
    if type(new) is list:
        return [merge_keep(o, n) for o, n in zip(old, new)]
    return old if isinstance(new, str) and new == "KEEPINT" else new


def z3_vars(e, acc):
    seen = set()
    stack = [e]
    while stack:
        x = stack.pop()
        i = x.get_id()
        if i in seen:
            continue
        seen.add(i)
        if z3.is_const(x) and x.decl().kind() == z3.Z3_OP_UNINTERPRETED:
            acc[x.decl().name()] = x
        else:
            stack.extend(x.children())


def self_compose(pc, e):
    vs = {}
    z3_vars(e, vs)
    pcs = [c for c in pc if not isinstance(c, bool)]
    for c in pcs:
        z3_vars(c, vs)
    sub = []
    for n, v in vs.items():
        if z3.is_bool(v):
            sub.append((v, z3.Bool(n + "__2")))
        else:
            sub.append((v, z3.BitVec(n + "__2", v.size())))
    e2 = z3.substitute(e, *sub)
    s = z3.Solver()
    s.set("timeout", 60000)
    for c in pcs:
        s.add(c)
        s.add(z3.substitute(c, *sub))
    s.add(e != e2)
    r = s.check()
    from sym import xsolve
    xsolve.cross(s, "self-composition", str(r))
    if r == z3.sat:
        m = s.model()
        w = ({n: str(m.eval(v, model_completion=True)) for n, v in list(vs.items())[:60]}, {n: str(m.eval(v2, model_completion=True)) for (v, v2), n in zip(sub[:60], list(vs)[:60])})
        return "sat", w
    return str(r), None


def replay_checkinit(base, chk):
    """concrete-mode branch traces of checkInitialized on a point with all-zero X limbs vs the generator differ"""
    prog = base.prog
    ex = base.executor(dom_bv.ConcreteDomain())
    ex.trace_branches = True
    traces = []
    for limbs_x in ([0, 0, 0, 0, 0], [1738742601995546, 1146398526822698, 2070867633025821, 562264141797630, 587772402128613]):
        path = X.Path()
        path.heap = {k: X.clone_cells(v) for k, v in ex.base_heap.items()}
        pt = X.Ptr(ex.new_obj(path, prog.T(E + "Point"), init=[[], list(limbs_x), [1, 0, 0, 0, 0], [1, 0, 0, 0, 0], [0, 0, 0, 0, 0]]))
        arr = ex.new_obj(path, ("array", 1, prog.T("*" + E + "Point")), init=[pt])
        (p,) = ex.call(E + "checkInitialized", [X.SliceV(arr, (), 0, 1, 1)], path)
        traces.append([n for n in p.notes if n[0] == "br"])
    return traces[0] != traces[1], traces


def run(chk):
    prog, base = setup(chk)
    from .common import state_shape
    state_shape(chk, prog)
    API = [n for n, f in prog.funcs.items() if not f.get("external") and f.get("exported") and (
        n.startswith("(*filippo.io/edwards25519.Point).") or n.startswith("(*filippo.io/edwards25519.Scalar).") or n.startswith("(*filippo.io/edwards25519/field.Element)."))]
    ct_roots = sorted(n for n in API if "VarTime" not in n)
    vt_roots = sorted(n for n in API if "VarTime" in n)
    R = reach(prog, ct_roots)
    ct_funcs = sorted(n for n in R if is_repo(prog, n) and not prog.fn(n).get("external") and not n.endswith(".init") and "$" not in n)
    vt_only = sorted(n for n in reach(prog, vt_roots) if is_repo(prog, n) and n not in R)
    chk.bounds = ["every function reachable (static call graph) from the constant-time API: %d functions, each analysed for all secret inputs (limbs, scalars, bytes, digits within contract, cond in {0,1}); public shape: slice lengths (32/64 bytes, n = 2 terms), loop counters"
                  % len(ct_funcs), "leakage model: branch conditions, index and slice-bound values, shift counts, division operands; composition over the call graph by assume/guarantee (callee = leak-free, fresh secret outputs under its contract)"]
    chk.outside = ["micro-architectural timing of MUL/ADC/loads; the Go compiler's lowering below go/ssa (e.g. how struct == is compiled); hardware", "VarTime* routines and what only they reach (%d functions), validity decisions of decoders" % len(vt_only)]
    chk.assumptions = ["contracts used for summarised callees: Scalar.Bytes < l, Element.Bytes bit 255 clear, Equal/IsNegative in {0,1}, radix-16 digits in [-8,8] (all discharged in C07-C10/C01)",
                       "tiny helpers and crypto/subtle, encoding/binary are executed inline from their SSA"]
    # static facts
    vt_reached = sorted(n for n in R if "VarTime" in n or n.endswith("nonAdjacentForm") or "nafLookupTable" in n)
    chk.fact("no constant-time entry point reaches a variable-time routine (VarTime*, nonAdjacentForm, NAF tables)", not vt_reached, [], "static call graph", detail=str(vt_reached[:4]))
    if base.has_asm:
        for name, fn in base.asm_funcs.items():
            probs = asm.static_checks(fn, fn.get("int_args", ()))
            chk.fact("fe_amd64.s %s: no jumps/calls, memory operands are constant offsets from pointer arguments" % name, not probs, [F + name], "assembly shape", detail="; ".join(probs[:2]))
    # analysis order: callees first
    an = Analyzer(base, chk)
    an.todo_set = set(ct_funcs)
    an.roots = set(API)
    an.vartime = set(vt_reached)
    an.todo_set -= an.vartime

    def has_ptr_inside(t, top=True):
        u = t.u
        if u.k in ("ptr", "slice", "func", "iface"):
            return not top
        if u.k == "array":
            return has_ptr_inside(prog.T(u.elem_id), False)
        if u.k == "struct":
            return any(has_ptr_inside(prog.T(f["type"]), False) for f in u.fields)
        return False
    # helpers that return aggregates holding pointers (e.g. an array of pointers to the limbs of an element) cannot be
    # replaced by a "fresh secret outputs" summary: they are executed inline in their callers
    for n in ct_funcs:
        if any(has_ptr_inside(prog.T(rt)) for rt in prog.fn(n)["results"]) and n not in API:
            an.inline.add(n)
        # helpers taking function values / interfaces (method expressions passed to a generic helper, callbacks) have no
        # meaningful stand-alone analysis: executed inline in their callers, where the function value is known
        if n not in API and any(prog.T(p_["type"]).u.k in ("func", "iface", "signature") for p_ in prog.fn(n)["params"]):
            an.inline.add(n)
    order, seen = [], set()

    def visit(n):
        if n in seen:
            return
        seen.add(n)
        for c in sorted(callees(prog, n)):
            if c in an.todo_set:
                visit(c)
        order.append(n)
    for n in ct_funcs:
        visit(n)
    results = []
    t0 = time.time()
    for n in order:
        if n in an.inline or n in an.vartime:
            continue
        try:
            r = an.analyse(n, None)
        except Exception as e:
            import traceback
            traceback.print_exc()
            chk.note_inconclusive("leak analysis of %s: engine error %r" % (n, e))
            continue
        if r is None:
            continue
        results.append(r)
    # context-sensitive refinement: every function is first analysed on its own with all its inputs secret and
    # unconstrained (worst case).  If that reports a leak and the function is not an API entry point, the verdict depends
    # on what its callers pass (a public loop counter or a secret digit? bytes of a reduced scalar or arbitrary bytes?):
    # execute it inline in every constant-time caller instead and take the verdicts from there (sound: every call path
    # to it is then analysed with its real arguments; repeated up the call graph until an entry point is reached).
    roots = set(API)
    ctx_inlined = {}
    for rnd in range(6):
        cand = []
        for r in results:
            f = prog.fn(r["fname"])
            basic = any(prog.T(p["type"]).u.k == "basic" for p in f["params"])
            leaky = any(s_["verdict"] != "unsat" and not (r["fname"] in VALIDITY and s_["kind"] == "branch") for s_ in r["sites"])
            if (leaky or (basic and r["engine_errors"])) and r["fname"] not in roots and r["fname"] not in an.inline:
                cand.append(r["fname"])
        if not cand:
            break
        an.inline.update(cand)

        def inlined_in(n):
            acc, work = set(), [n]
            while work:
                x = work.pop()
                for c in callees(prog, x):
                    if c in an.inline and c not in acc:
                        acc.add(c)
                        work.append(c)
            return acc
        redo = [n for n in order if n not in an.inline and n in an.todo_set and inlined_in(n) & set(cand)]
        if not redo:
            # no constant-time caller: keep the stand-alone verdicts
            an.inline.difference_update(cand)
            break
        results = [r for r in results if r["fname"] not in cand and r["fname"] not in redo]
        for c in cand:
            ctx_inlined[c] = [n for n in redo if c in inlined_in(n)]
        for n in redo:
            try:
                r = an.analyse(n, None)
            except Exception as e:
                chk.note_inconclusive("leak analysis of %s (with %s inline): engine error %r" % (n, cand, e))
                continue
            if r is not None:
                results.append(r)
    # functions analysed while a callee had no return shape yet (its own analysis had failed and was repeated in context
    # later) are analysed again, callees first, until nothing changes
    for rnd in range(5):
        stale = [r["fname"] for r in results if any("summary result type" in m for m in r["engine_errors"])]
        if not stale:
            break
        changed = False
        for n in order:
            if n in stale and n not in an.inline:
                try:
                    r = an.analyse(n, None)
                except Exception as e:
                    continue
                if r is not None:
                    old_r = next(x for x in results if x["fname"] == n)
                    if r["engine_errors"] != old_r["engine_errors"]:
                        changed = True
                    results = [x for x in results if x["fname"] != n] + [r]
        if not changed:
            break
    # "the bounds cover the code" (unwinding-assertion analogue): every block of an analysed function from which a return
    # is reachable must have been entered by some explored path - otherwise leak sites in it were never looked at.  Blocks
    # behind a length test of a byte-string argument are reached by a second analysis with another (public) length.
    from .common import uncovered_blocks
    analysed = {r["fname"] for r in results} | an.inline
    unc = uncovered_blocks(prog, only=analysed - an.vartime)
    relen = [n for n in order if n in unc and n not in an.inline and any(p["type"] == "[]byte" for p in prog.fn(n)["params"])]
    if relen:
        an.len_delta = 1
        saved_inline = set(an.inline)
        bytefns = {n for n in ct_funcs if any(p["type"] == "[]byte" for p in prog.fn(n)["params"]) and n not in an.vartime}
        for n in relen:
            # callees that take the byte string are executed inline here, so that their length-error result reaches the caller
            an.inline = saved_inline | (bytefns - {n})
            try:
                r = an.analyse(n, None)
            except Exception as e:
                chk.note_inconclusive("leak analysis of %s (other slice length): engine error %r" % (n, e))
                continue
            if r is not None:
                r["other_length"] = True
                results.append(r)
        an.len_delta = 0
        an.inline = saved_inline
        chk.extra["analysed_with_a_second_slice_length"] = [n.replace("filippo.io/edwards25519", "ed") for n in relen]
        unc = uncovered_blocks(prog, only=analysed - an.vartime)
    chk.add(Ob("bounds cover the code: every basic block (from which a return is reachable) of the %d analysed functions was entered by an explored path" % len(analysed),
               "unsat" if not unc else "unexplored:%s" % {k_.replace("filippo.io/edwards25519", "ed"): [p_ for _, p_ in v][:3] for k_, v in unc.items()}, 0, sorted(unc)[:4], "block coverage of the leakage exploration"))
    if ctx_inlined:
        chk.extra["context_sensitive_reanalysis"] = {k_.replace("filippo.io/edwards25519", "ed"): [x.replace("filippo.io/edwards25519", "ed") for x in v] for k_, v in ctx_inlined.items()}
    nsites = 0
    reported = set()
    for r in results:
        for m in r["engine_errors"]:
            chk.note_inconclusive(m)
    for r in results:
        fname = r["fname"]
        label = fname.replace("filippo.io/edwards25519", "ed")
        exempt = fname in VALIDITY
        leaks = [s for s in r["sites"] if s["verdict"] != "unsat"]
        nsites += len(r["sites"])
        for s in r["sites"]:
            nm = "%s: %s at %s does not depend on secrets (self-composition)" % (label, {"branch": "branch condition", "index": "index", "slicebound": "slice bound", "shift": "shift count", "div": "division operand", "extcall": "call to a routine outside the analysed code (not known constant-time)"}[s["kind"]], s["pos"].split("/")[-1])
            if s["verdict"] == "unsat":
                chk.add(Ob(nm, "unsat", s["seconds"], [fname], "BV self-composition"))
            elif (exempt or s["fn"] in VALIDITY) and s["kind"] == "branch":
                chk.add(Ob("%s: validity decision at %s (exempt by the property)" % (label, s["pos"].split("/")[-1]), "unsat", s["seconds"], [fname], "exempt"))
            else:
                ob = chk.add(Ob(nm, s["verdict"], s["seconds"], [fname], "BV self-composition", model=s["witness"]))
                # a site is identified by the function that contains it (it may have been reached inline from a caller)
                sfn = s["fn"]
                key = "%s:%s#%d" % (sfn.split(".")[-1].replace(")", ""), s["kind"], [x for x in r["sites"] if x["kind"] == s["kind"] and x["fn"] == sfn].index(s) + 1)
                if s["verdict"] == "sat":
                    if key in reported:
                        ob.verdict = "violated"     # the same site, reached from another caller: reported once
                        continue
                    reported.add(key)
                    reproduced, detail = True, None
                    if sfn == E + "checkInitialized":
                        reproduced, traces = replay_checkinit(base, chk)
                        detail = dict(traces=[str(t) for t in traces])
                    ob.verdict = "violated" if reproduced else "sat-unreplayed"
                    if reproduced:
                        chk.violation(key, "%s: %s at %s depends on secret data (two witnesses with equal public shape take different values)" % (label, s["kind"], s["pos"].split("/")[-1]),
                                      dict(function=fname, kind=s["kind"], pos=s["pos"], witnesses=s["witness"], concrete_traces=detail))
        if not r["sites"]:
            chk.add(Ob("%s: no secret-dependent leak site (no symbolic branch, index, slice bound, shift count or division operand on any of its %d path(s))" % (label, r["paths"]), "unsat", r["seconds"], [fname], "leakage trace"))
    chk.extra["leak_sites_examined"] = nsites
    chk.extra["functions_analysed"] = len(results)
    chk.extra["exempt_vartime_only"] = vt_only
    chk.samples = [o.j() for o in chk.obs if "self-composition" in o.mode][:8]
