"""C11 - receivers and arguments may alias; arguments are never modified."""
import time, z3, itertools
from sym import kernels as K, l1 as L1m, l2 as L2m, exec as X, dom_lf, dom_bv, absmodes, ptreplay, ref
from sym.dom_lf import LF, LFCond
from sym.check import Ob
from .common import setup, run_kernels
from . import c01, c06, c07, c09, c16

E, F = K.E, K.F
P = K.P


def partitions(names):
    """all set partitions of names, as dict name -> representative"""
    names = list(names)
    if not names:
        yield {}
        return
    first, rest = names[0], names[1:]
    for part in partitions(rest):
        reps = sorted(set(part.values()))
        for r in reps:
            d = dict(part)
            d[first] = r
            yield d
        d = dict(part)
        d[first] = first
        yield d


def pname(part):
    groups = {}
    for k, v in part.items():
        groups.setdefault(v, []).append(k)
    gs = ["=".join(sorted(g)) for g in groups.values() if len(g) > 1]
    return ",".join(sorted(gs)) or "distinct"


def k_field_alias(base, chk, meth, nargs, spec, extra=None):
    """Element arithmetic in Int-LF for every partition of {v, args}: value = spec(initial values) mod p,
    and non-receiver arguments are not written"""
    fname = base.prog.find("Element)." + meth)
    names = ["v"] + ["a", "b"][:nargs]
    for part in partitions(names):
        k = K.LFK(base, chk, fname, label="Element.%s[%s]" % (meth, pname(part)))
        objs, vals = {}, {}
        for rep in sorted(set(part.values())):
            if rep == "v" and all(part[n] != "v" for n in names[1:]):
                objs[rep], vals[rep] = k.out_elem("v")
            else:
                objs[rep], vals[rep] = k.elem(rep)
        args = [objs[part[n]] for n in names]
        if extra is not None:
            args.append(extra(k))
        for p in k.each(args):
            out = k.limbs(p, args[0])
            ins = [K.fval(vals[part[n]]) for n in names[1:]]
            k.goal(p, "congr", "value = %s of the original argument values (mod p)" % spec[0], K.fval(out), spec[1](k.dom, p, *ins, *( [args[-1]] if extra else [])), P)
            for j_, o_ in enumerate(out):
                k.goal(p, "le", "out.l%d within the invariant" % j_, o_, K.B)
            others = set(o.obj for o in args[1:] if isinstance(o, X.Ptr) and o != args[0])
            chk.fact("%s: non-receiver arguments not written" % k.label, not any(w[0] == "w" and w[1] in others for w in p.log), [fname])
        k.replay = lambda models, seed: alias_battery(seed)
        k.settle("Element.%s aliasing" % meth)


def k_chain_alias(base, chk, which):
    """Invert / Pow22523 with v = z"""
    fname = base.prog.find("Element)." + which)
    target = {"Invert": P - 2, "Pow22523": 2**252 - 3}[which]
    ex = base.executor(dom_bv.ConcreteDomain())
    e = z3.Int("e")
    absmodes.install_chain(ex, e)
    path = X.Path()
    path.heap = {k: X.clone_cells(v) for k, v in ex.base_heap.items()}
    z = X.Ptr(ex.new_obj(path, base.prog.T(F + "Element"), init=absmodes.Abs(e)))
    (p,) = ex.call(fname, [z, z], path)
    res = ex.load(p, z).v
    s = z3.Solver()
    s.add(res != target * e)
    chk.used(base.prog, fname, "chain mode")
    chk.add(Ob("Element.%s[v=z]: same exponent as with distinct storage" % which, str(s.check()), 0, [fname], "chain"))


def k_sqrt_alias(base, chk):
    """SqrtRatio with r=u, r=v, u=v, r=u=v (dlog mode): relation holds w.r.t. the original argument values"""
    from .c16 import install_dlog, N, ZERO
    prog = base.prog
    fname = prog.find("Element).SqrtRatio")
    for pat in ("r=u", "r=v", "u=v", "r=u=v"):
        for ca in range(4):
            for cb in (range(4) if "u=v" not in pat else [ca]):
                dom = dom_lf.LFDomain(60000)
                ex = base.executor(dom)
                t_ = dom.input("k_half", 0, 1)
                kform = (t_.scale(2) + 1).scale(N // 4)
                install_dlog(ex, dom, kform)
                path = X.Path()
                heap = {k: X.clone_cells(v) for k, v in ex.base_heap.items()}
                sq_ptr = heap[ex.global_objs[F + "sqrtM1"]][0]
                heap[sq_ptr.obj] = [absmodes.Abs(kform, False)]
                path.heap = heap
                ET = prog.T(F + "Element")
                alpha = dom.input("alpha4", 0, N // 4 - 1).scale(4) + ca
                beta = alpha if "u=v" in pat else dom.input("beta4", 0, N // 4 - 1).scale(4) + cb
                u = X.Ptr(ex.new_obj(path, ET, init=absmodes.Abs(alpha, False)))
                v = u if "u=v" in pat else X.Ptr(ex.new_obj(path, ET, init=absmodes.Abs(beta, False)))
                r = u if pat.startswith("r=u") else (v if pat == "r=v" else X.Ptr(ex.new_obj(path, ET, init=absmodes.Abs(LF({}, 7), False))))
                paths = ex.call(fname, [r, u, v], path)
                label = "Element.SqrtRatio[%s; alpha=%d,beta=%d mod 4]" % (pat, ca, cb)
                is_sq = (ca - cb) % 2 == 0
                bad = 0
                t0 = time.time()
                for p in paths:
                    if p.outcome[0] != "ret":
                        bad += 1
                        continue
                    ws = p.outcome[1][1]
                    rho = ex.load(p, r).v
                    if ws != (1 if is_sq else 0) or rho == ZERO:
                        if dom.check(p, [], "feas", timeout_ms=30000) != "unsat":
                            bad += 1
                        continue
                    target = alpha if ws == 1 else alpha + kform
                    if dom.check(p, [LFCond("modne", rho.scale(2) + beta - target, [N])], "rel", timeout_ms=30000) != "unsat":
                        bad += 1
                    others = set(o.obj for o in (u, v) if o != r)
                    if any(w[0] == "w" and w[1] in others for w in p.log):
                        bad += 1
                chk.add(Ob(label + ": same contract w.r.t. the original values; other arguments unwritten", "unsat" if bad == 0 and paths else "sat", time.time() - t0, [fname], "dlog"))
    chk.used(prog, fname, "dlog mode")


def k_absolute_alias(base, chk):
    fname = base.prog.find("Element).Absolute")
    k = K.BVK(base, chk, fname, label="Element.Absolute[v=u]")

    def neg(ex, path, args):
        v, a = args
        limbs = [z3.BitVec("neg.l%d" % i, 64) for i in range(5)]
        path.dstate["neg_of"] = ex.load(path, a)
        ex.store(path, v, tuple(limbs))
        path.dstate["neg"] = limbs
        return v

    def isneg(ex, path, args):
        b = z3.BitVec("isneg", 64)
        path.pc.append(z3.Or(b == 0, b == 1))
        path.dstate["isneg_of"] = ex.load(path, args[0])
        path.dstate["isneg"] = b
        return b
    k.ex.summaries[base.prog.find("Element).Negate")] = neg
    k.ex.summaries[base.prog.find("Element).IsNegative")] = isneg
    u, ul = k.elem("u")
    (p,) = k.run([u, u])
    out = k.ex.load(p, u)
    b, ng = p.dstate["isneg"], p.dstate["neg"]
    k.prove(p, "aliased: result = (isneg(u) ? -u : u) computed from the original u", z3.And([z3.If(b == 1, out[i] == ng[i], out[i] == ul[i]) for i in range(5)]))
    k.prove(p, "Negate and IsNegative see the original u", tuple(map(str, p.dstate["neg_of"])) == tuple(map(str, ul)) and tuple(map(str, p.dstate["isneg_of"])) == tuple(map(str, ul)))
    k.settle()


def alias_battery(seed):
    """native: every Element/Scalar/Point method under aliasing equals the distinct-storage result"""
    import random
    from sym import native
    rng = random.Random(seed)
    lim = lambda: ref.fmt_limbs(rng.choice(ref.limb_candidates(rng, 12)))
    ops, meta = [], []
    for op, n in (("Add", 2), ("Subtract", 2), ("Multiply", 2), ("Negate", 1), ("Square", 1), ("Invert", 1), ("Pow22523", 1), ("Absolute", 1), ("Set", 1), ("SqrtRatio", 2)):
        for t in range(6 if op != "SqrtRatio" else 24):
            a, b = lim(), lim()
            names = ["v", "a", "b"][:n + 1]
            base_args = names
            for part in partitions(names):
                args = [part[x] for x in names]
                init = {"a": a, "b": b, "v": "9,9,9,9,9"}
                init = {k: v for k, v in init.items() if k in set(args)}
                ops.append({"op": op, "args": args, "init": init})
                meta.append((op, names, part, a, b))
    res = native.run_ops("field", ops)
    # group by (op, a, b): all partitions must agree on the receiver's value mod p
    ref_val = {}
    for (op, names, part, a, b), r, o in zip(meta, res, ops):
        if "panic" in r:
            return dict(what="%s panics under aliasing %s" % (op, pname(part)), op=op, args=o["args"], init=o["init"])
        # value the receiver would have with distinct storage where aliased args share the same *value*
        eff = {n: (a if part[n] in ("a",) or (part[n] == "v" and False) else b) for n in names}
        got = ref.fe_val(ref.parse_limbs(r["slots"][o["args"][0]])) % P
        key = (op, a, b, tuple(sorted((n, part[n]) for n in names[1:] if part[n] != "v")))
        # compute the expected value directly
        va, vb = ref.fe_val(ref.parse_limbs(a)) % P, ref.fe_val(ref.parse_limbs(b)) % P
        vv = 9 + (9 << 51) + (9 << 102) + (9 << 153) + (9 << 204)
        val = {"a": va, "b": vb, "v": vv}
        x = val[part[names[1]]]
        y = val[part[names[2]]] if len(names) > 2 else None
        want = {"Add": lambda: x + y, "Subtract": lambda: x - y, "Multiply": lambda: x * y, "Negate": lambda: -x, "Square": lambda: x * x, "Invert": lambda: pow(x, P - 2, P),
                "Pow22523": lambda: pow(x, 2**252 - 3, P), "Absolute": lambda: x % P if (x % P) % 2 == 0 else -x, "Set": lambda: x}.get(op)
        if want is not None:
            if got != want() % P:
                return dict(what="Element.%s under aliasing %s: got %d expected %d" % (op, pname(part), got, want() % P), op=op, args=o["args"], init=o["init"])
        else:   # SqrtRatio: check relation
            xv, yv = x % P, y % P
            rv, ws = got, r["int"]
            if xv == 0:
                ok = (rv, ws) == (0, 1)
            elif yv == 0:
                ok = (rv, ws) == (0, 0)
            elif ref.is_square(xv * ref.inv(yv)):
                ok = ws == 1 and (yv * rv * rv - xv) % P == 0
            else:
                ok = ws == 0 and (yv * rv * rv - ref.SQRT_M1 * xv) % P == 0
            if not ok:
                return dict(what="Element.SqrtRatio under aliasing %s wrong" % pname(part), op=op, args=o["args"], init=o["init"])
        for n in set(o["args"][1:]):
            if n != o["args"][0] and r["slots"][n] != o["init"][n]:
                return dict(what="Element.%s modified argument %s" % (op, n), op=op, args=o["args"], init=o["init"])
    return None


def run(chk):
    prog, base = setup(chk)
    from .common import state_shape
    state_shape(chk, prog)
    from .common import api_surface, ELEMENT_API
    api_surface(chk, prog, 'Element', ELEMENT_API, 'an aliasing harness')
    maxn = 3 if chk.tier == "thorough" else 2
    chk.bounds = ["input byte slices are modelled as carved out of a larger caller buffer (spare capacity behind them); any write to that buffer is reported",
                  "every exported method of Element, Scalar, Point x every partition of {receiver, pointer arguments}; slices: receiver aliased to points[0], points[0] = points[1]; all argument values symbolic",
                  "multi-scalar term counts n <= %d" % maxn]
    chk.outside = ["byte-slice inputs overlapping typed receivers (impossible in Go without unsafe)"]
    chk.assumptions = ["'same result' is decided as: the aliased run meets the same specification, expressed over the original argument values, as the distinct run (value mod p / mod l / group element)"]
    items = []
    items += [("Element.Add", lambda: k_field_alias(base, chk, "Add", 2, ("a+b", lambda d, p, a, b: a + b))),
              ("Element.Subtract", lambda: k_field_alias(base, chk, "Subtract", 2, ("a-b", lambda d, p, a, b: a - b))),
              ("Element.Multiply", lambda: k_field_alias(base, chk, "Multiply", 2, ("a*b", lambda d, p, a, b: d.mul(p, a, b)))),
              ("Element.Negate", lambda: k_field_alias(base, chk, "Negate", 1, ("-a", lambda d, p, a: -a))),
              ("Element.Square", lambda: k_field_alias(base, chk, "Square", 1, ("a*a", lambda d, p, a: d.mul(p, a, a)))),
              ("Element.Set", lambda: k_field_alias(base, chk, "Set", 1, ("a", lambda d, p, a: a))),
              ("Element.Mult32", lambda: k_field_alias(base, chk, "Mult32", 1, ("a*y", lambda d, p, a, y: d.mul(p, a, y)), extra=lambda k: k.dom.input("y", 0, 2**32 - 1))),
              ("Element.Invert", lambda: k_chain_alias(base, chk, "Invert")), ("Element.Pow22523", lambda: k_chain_alias(base, chk, "Pow22523")),
              ("Element.Absolute", lambda: c09.k_absolute(base, chk, alias=True)),
              ("Element.Select/Swap", lambda: K.k_select_swap(base, chk)),
              ("Element.SqrtRatio", lambda: k_sqrt_alias(base, chk)),
              ("Element.Equal", lambda: K.k_equal_isneg(base, chk)),
              ("Element.SetBytes", lambda: K.k_setbytes(base, chk)), ("Element.SetWideBytes", lambda: K.k_setwide(base, chk)), ("Element.Bytes", lambda: K.k_bytes(base, chk))]
    items += [
        ("Scalar.Add", lambda: c07.api_op(base, chk, "Add", 2, lambda d, p, x, y: x + y, ("x+y", lambda x, y: x + y))),
        ("Scalar.Subtract", lambda: c07.api_op(base, chk, "Subtract", 2, lambda d, p, x, y: x - y, ("x-y", lambda x, y: x - y))),
        ("Scalar.Negate", lambda: c07.api_op(base, chk, "Negate", 1, lambda d, p, x: -x, ("-x", lambda x: -x))),
        ("Scalar.Multiply", lambda: c07.api_op(base, chk, "Multiply", 2, lambda d, p, x, y: d.mul(p, x, y), ("x*y", lambda x, y: x * y))),
        ("Scalar.MultiplyAdd", lambda: c07.api_op(base, chk, "MultiplyAdd", 3, lambda d, p, x, y, z: d.mul(p, x, y) + z, ("x*y+z", lambda x, y, z: x * y + z))),
        ("Scalar.Set", lambda: c07.api_op(base, chk, "Set", 1, lambda d, p, x: x, ("x", lambda x: x))),
        ("Scalar.Invert", lambda: c07.k_invert(base, chk)), ("Scalar.Equal", lambda: c07.k_equal(base, chk)),
    ]
    from . import c04, c08
    l1s = L1m.L1(base, chk)
    items += [
        ("Scalar.SetCanonicalBytes input", lambda: c08.k_setter(base, chk, "SetCanonicalBytes", 32, lambda d, p, bs: K.bval(bs), ("x", lambda b: int.from_bytes(b, "little")), lambda b: int.from_bytes(b, "little") < K.L, canonical=True)),
        ("Scalar.SetUniformBytes input", lambda: c08.k_setter(base, chk, "SetUniformBytes", 64, lambda d, p, bs: K.bval(bs), ("x (512 bit)", lambda b: int.from_bytes(b, "little")))),
        ("Scalar.SetBytesWithClamping input", lambda: c08.k_setter(base, chk, "SetBytesWithClamping", 32, c08.clamp_lf, ("clamp(x)", c08.clamp_py))),
        ("Point.SetBytes input", lambda: c04.k_setbytes(l1s)),
    ]
    l1 = L1m.L1(base, chk)
    for al in ("distinct", "zero receiver", "v=p", "v=q", "p=q", "v=p=q"):
        items.append(("Point.Add " + al, lambda al=al: L1m.api_add_sub(l1, False, al)))
        items.append(("Point.Subtract " + al, lambda al=al: L1m.api_add_sub(l1, True, al)))
    for al in ("distinct", "v=p"):
        items.append(("Point.Negate " + al, lambda al=al: L1m.api_negate(l1, al)))
    items += [("Point.Equal distinct", lambda: c06.k_equal(l1, "distinct")), ("Point.Equal v=u", lambda: c06.k_equal(l1, "v=u"))]
    heavy = []
    for st in ("other", "alias"):
        heavy.append(("VarTimeDoubleScalarBaseMult " + st, lambda st=st: c01.run_one(base, chk, "VarTimeDoubleScalarBaseMult", st)))
        for n in range(maxn, 0, -1):
            heavy.append(("VarTimeMultiScalarMult %d %s" % (n, st), lambda n=n, st=st: c01.run_one(base, chk, "VarTimeMultiScalarMult", st, n)))
            items.append(("MultiScalarMult %d %s" % (n, st), lambda n=n, st=st: c01.run_one(base, chk, "MultiScalarMult", st, n)))
        items.append(("ScalarMult " + st, lambda st=st: c01.run_one(base, chk, "ScalarMult", st)))
    heavy.append(("VarTimeMultiScalarMult alias_last", lambda: c01.run_one(base, chk, "VarTimeMultiScalarMult", "alias_last", 2)))
    items.append(("MultiScalarMult alias_last", lambda: c01.run_one(base, chk, "MultiScalarMult", "alias_last", maxn)))
    heavy.append(("VarTimeMultiScalarMult dup", lambda: c01.run_one(base, chk, "VarTimeMultiScalarMult", "other", 2, True)))
    items.append(("MultiScalarMult dup", lambda: c01.run_one(base, chk, "MultiScalarMult", "other", 2, True)))
    heavy.append(("VarTimeMultiScalarMult dupk", lambda: c01.run_one(base, chk, "VarTimeMultiScalarMult", "other", maxn, "k")))
    heavy.append(("VarTimeMultiScalarMult dupkp", lambda: c01.run_one(base, chk, "VarTimeMultiScalarMult", "alias", 2, "kp")))
    items.append(("MultiScalarMult dupk", lambda: c01.run_one(base, chk, "MultiScalarMult", "other", maxn, "k")))
    items.append(("MultiScalarMult dupkp", lambda: c01.run_one(base, chk, "MultiScalarMult", "alias", 2, "kp")))
    items.append(("ScalarBaseMult", lambda: c01.run_one(base, chk, "ScalarBaseMult", "other")))

    def cof(state):
        h = L2m.L2(base, chk)
        path = h.path()
        t0 = time.time()
        fname = prog.find("Point).MultByCofactor")
        pnt = h.point(path, "P")
        v = pnt if state == "alias" else h.point(path, "R")
        paths = h.ex.call(fname, [v, pnt], path)
        h.check_result("MultByCofactor[receiver=%s]" % state, fname, paths, v, {"P": 8}, t0, [pnt.obj] if v != pnt else [])
    items += [("MultByCofactor alias", lambda: cof("alias")), ("MultByCofactor other", lambda: cof("other"))]
    run_kernels(chk, heavy + items)
    from .common import settle_bounds
    settle_bounds(chk, prog, [prog.find("Point)." + r) for r in ("ScalarMult", "ScalarBaseMult", "VarTimeDoubleScalarBaseMult", "MultiScalarMult", "VarTimeMultiScalarMult")])
    # replays
    groups = [("Element aliasing", lambda o: o.name.startswith("Element."), lambda: alias_battery(chk.seed)),
              ("Point.Add", lambda o: o.name.startswith("Point.Add["), lambda: ptreplay.battery_binary("P.Add", chk.seed, lambda p, q: ref.ed_add(p, q))),
              ("Point.Subtract", lambda o: o.name.startswith("Point.Subtract["), lambda: ptreplay.battery_binary("P.Subtract", chk.seed, lambda p, q: ref.ed_add(p, ref.ed_neg(q)))),
              ("Point.Negate", lambda o: o.name.startswith("Point.Negate["), lambda: ptreplay.battery_unary("P.Negate", chk.seed, lambda p: ref.ed_neg(p))),
              ("Point.Equal", lambda o: o.name.startswith("Point.Equal["), lambda: c06.equal_battery(chk.seed)),
              ("Point.MultByCofactor", lambda o: o.name.startswith("MultByCofactor["), lambda: ptreplay.battery_unary("P.MultByCofactor", chk.seed, lambda p: ref.ed_mul(8, p)))]
    for r_ in ("ScalarMult", "ScalarBaseMult", "VarTimeDoubleScalarBaseMult", "MultiScalarMult", "VarTimeMultiScalarMult"):
        groups.append(("Point." + r_, lambda o, r_=r_: o.name.startswith(r_ + "["), lambda r_=r_: ptreplay.battery_scalarmult(chk.seed, which=("P." + r_,), maxn=maxn)))
    groups.append(("Point.SetBytes", lambda o: o.name.startswith("Point.SetBytes"), lambda: c04.decode_battery(chk.seed)))
    for key, pred, bat in groups:
        L1m.settle(chk, [o for o in chk.obs if pred(o)], bat, key)
    chk.samples = [o.j() for o in chk.obs if "[" in o.name and "=" in o.name.split("[")[1][:12]][:8]


def safety_net(chk):
    return (alias_battery(chk.seed) or c09.absolute_battery(chk.seed) or c07.safety_net(chk) or ptreplay.battery_binary("P.Add", chk.seed, lambda p, q: ref.ed_add(p, q))
            or ptreplay.battery_scalarmult(chk.seed, maxn=3))
