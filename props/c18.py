"""C18 - concurrent use is race-free and first-use table construction happens once."""
import time, itertools, z3
from sym import kernels as K, exec as X
from sym.check import Ob
from .common import setup, run_kernels
from . import sweep

E, F = K.E, K.F
ONCE_TABLES = {E + "basepointTablePrecomp", E + "basepointNafTablePrecomp"}
READERS = {"Bytes", "BytesMontgomery", "Equal", "ExtendedCoordinates", "IsNegative"}


def events_of(base, chk, fname, variant="distinct"):
    """per path: the sequence of accesses to package-level objects, segmented by Once.Do calls:
    [('acc', kind r|w, global name, inside_once) | ('do', once id, ran_initialiser)]"""
    r = sweep.run_api(base, chk, fname, log_reads=True, variant=variant)
    ex = r.ex
    out = []
    sync_other = []
    for p in r.paths:
        if p.outcome[0] != "ret":
            continue
        evs = []
        inside = []
        held = []
        for ev in p.log:
            if ev[0] == "once":
                pass
            elif ev[0] == "lock":
                m_ = ex.meta.get(ev[1])
                held.append(m_.name if m_ is not None and m_.kind == "global" else "(non-global mutex)")
            elif ev[0] == "unlock":
                if held:
                    held.pop()
            elif ev[0] == "once_begin":
                # only a package-level sync.Once orders goroutines; a Once that lives in a local or in an argument does not
                nm = ex.meta[ev[1]].name if ex.meta[ev[1]].kind == "global" else "(non-global Once)"
                inside.append(nm)
                evs.append(("do_begin", nm))
            elif ev[0] == "once_end":
                evs.append(("do_end", inside[-1]))
                inside.pop()
            elif ev[0] in ("r", "w"):
                m = ex.meta.get(ev[1])
                if m is not None and m.kind == "global":
                    e = ("acc", ev[0], m.name, tuple(inside), tuple(h_ for h_ in held if h_ != "(non-global mutex)"))
                    if not evs or evs[-1] != e:
                        evs.append(e)
        # calls of Do that did not run the initialiser (already done) are logged as ('once', obj, path, True)
        out.append(evs)
    return r, out


def analyse(base, chk, fname, variant="distinct"):
    label = fname.replace("filippo.io/edwards25519", "ed") + (" [one object passed for all same-typed arguments / slice elements]" if variant == "shared" else "")
    r, traces = events_of(base, chk, fname, variant)
    chk.used(base.prog, fname, "effects / event extraction (" + r.desc + ")")
    # sync.Pool: an object handed back with Put belongs to whichever goroutine Gets it next; any access to it later on the
    # same path (a deferred or early Put while the object is still in use) is shared mutable state without synchronisation
    uap = []
    for p_ in r.paths:
        put = {}
        for ev in p_.log:
            if ev[0] == "pool_put" and ev[3] is not None:
                put[ev[3]] = True
            elif ev[0] == "pool_get":
                pass
            elif ev[0] in ("r", "w") and ev[1] in put:
                m_ = r.ex.meta.get(ev[1])
                uap.append((ev[0], getattr(m_, "name", None) or str(ev[1])))
    if any(ev[0] == "pool_put" for p_ in r.paths for ev in p_.log):
        chk.fact("%s: no object is read or written after it was handed back to a sync.Pool with Put (another goroutine may already own it)" % label,
                 not uap, [fname], "effects", detail=str(sorted(set(uap))[:4]))
    notret = [p.outcome for p in r.paths if p.outcome[0] != "ret"]
    if notret or not r.paths:
        # a path the engine could not follow to the end has unknown effects: the facts below would be vacuous for it
        chk.add(Ob("%s: every path is followed to its return (effects known)" % label, "error:%s" % (notret[:1],), 0, [fname], "effects"))
    summary = {"writes_outside_once": [], "table_access_before_do": [], "globals_read": set(), "once": set(), "guards": {}, "reads": {}}
    for evs in traces:
        done = set()
        for e in evs:
            if e[0] == "do_begin":
                summary["once"].add(e[1])
            elif e[0] == "do_end":
                done.add(e[1])
            elif e[0] == "acc":
                kind, g, inside = e[1], e[2], e[3]
                locks = e[4] if len(e) > 4 else ()
                real = [o for o in inside if o != "(non-global Once)"]
                summary.setdefault("lock_acc", {}).setdefault(g, []).append((kind, tuple(locks)))
                if kind == "w" and not real and locks:
                    # rewritten under a package-level mutex: race-free iff every access to g, in every operation, holds that
                    # mutex (checked across all operations after the sweep)
                    summary.setdefault("mutex_writes", {}).setdefault(g, set()).update(locks)
                    continue
                if kind == "w":
                    # lazily built package-level data: written only inside the initialiser of a package-level Once
                    if real:
                        # the innermost running initialiser is the one that builds g (initialisers may call one another)
                        summary["guards"].setdefault(g, set()).add(real[-1])
                    else:
                        summary["writes_outside_once"].append(g)
                else:
                    summary["globals_read"].add(g)
                    if not real:
                        # protection of this read: the Once.Do calls that have returned before it on this path
                        summary["reads"].setdefault(g, []).append(sorted(done))
                    if g in ONCE_TABLES and g not in inside and g not in done:
                        summary["table_access_before_do"].append(g)
    short = base.prog.fn(fname)["short"]
    if short in READERS:
        argobjs = set()
        for a in r.args:
            if isinstance(a, X.Ptr):
                argobjs.add(a.obj)
        wr = sorted({(r.ex.meta[ev[1]].name, ev[2]) for p in r.paths for ev in p.log if ev[0] == "w" and ev[1] in argobjs})
        chk.fact("%s: a read-only operation writes neither its receiver nor its arguments (values other goroutines may be reading)" % label, not wr, [fname], "effects", detail=str(wr[:3]))
    # shared arguments are only read: no write to any non-receiver argument, to a slice argument's backing array or to
    # the objects its elements point to (the receiver is the caller's own value and may alias an argument)
    hasrecv = base.prog.fn(fname)["hasrecv"]
    recvobj = r.args[0].obj if hasrecv and r.args and isinstance(r.args[0], X.Ptr) else None
    shared_objs = set()
    for a in r.args[1 if hasrecv else 0:]:
        if isinstance(a, X.Ptr):
            shared_objs.add(a.obj)
        elif isinstance(a, X.SliceV):
            shared_objs.add(a.obj)
            for p in r.paths[:1]:
                for c in p.heap.get(a.obj, []):
                    if isinstance(c, X.Ptr):
                        shared_objs.add(c.obj)
    shared_objs.discard(recvobj)
    inout = short == "Swap"
    wr2 = sorted({(r.ex.meta[ev[1]].name, str(ev[2])) for p in r.paths for ev in p.log if ev[0] == "w" and ev[1] in shared_objs}) if not inout else []
    chk.fact("%s: arguments other than the receiver (values another goroutine may be reading), slice arguments and their elements are only read" % label, not wr2, [fname], "effects", detail=str(wr2[:3]))
    chk.fact("%s: the only package-level writes happen inside the initialiser of a package-level sync.Once (lazily built tables)" % label, not summary["writes_outside_once"], [fname], "effects", detail=str(summary["writes_outside_once"][:3]))
    chk.extra.setdefault("events", {})[fname + (" [shared]" if variant == "shared" else "")] = dict(once=sorted(summary["once"]), globals_read=sorted(summary["globals_read"]), paths=len(traces),
                                                       mutex_writes={g: sorted(v) for g, v in summary.get("mutex_writes", {}).items()},
                                                       lock_acc={g: sorted({(k_, l_) for k_, l_ in v}) for g, v in summary.get("lock_acc", {}).items()},
                                                       guards={g: sorted(v) for g, v in summary["guards"].items()}, reads={g: [list(x) for x in {tuple(y) for y in v}] for g, v in summary["reads"].items()},
                                                       pre_access=sorted(set(summary["table_access_before_do"])), writes_outside=sorted(set(summary["writes_outside_once"])))
    return summary


def schedule_query(chk, ops, ngo, events=None):
    """event-structure query: ngo goroutines, each running one operation from `ops` (op -> set of Once tables it uses);
    Once.Do contract: exactly one caller runs the initialiser; its end happens-before every Do return.
    Is there a schedule with a table write and a table access by another goroutine unordered by happens-before,
    or an initialiser that runs twice?"""
    t0 = time.time()
    names = sorted(ops)
    nq = 0
    bad = []
    for combo in itertools.combinations_with_replacement(names, ngo):
        tables = sorted(set().union(*[ops[c] for c in combo]))
        if not tables:
            continue
        s = z3.Solver()
        s.set("timeout", 60000)
        race = []
        for tb in tables:
            users = [g for g in range(ngo) if tb in ops[combo[g]]]
            call = {g: z3.Int("call_%s_%d" % (tb[-12:], g)) for g in users}
            ret = {g: z3.Int("ret_%s_%d" % (tb[-12:], g)) for g in users}
            read = {g: z3.Int("read_%s_%d" % (tb[-12:], g)) for g in users}     # first table access after Do
            fbeg, fend, wr = z3.Int("fbeg_" + tb[-12:]), z3.Int("fend_" + tb[-12:]), z3.Int("write_" + tb[-12:])
            win = z3.Int("winner_" + tb[-12:])
            s.add(z3.Or([win == g for g in users]))
            for g in users:
                s.add(call[g] >= 0, call[g] < ret[g], ret[g] < read[g])          # program order in goroutine g (from the traces)
                s.add(fend < ret[g])                                              # Once contract: initialiser completion hb every return
                s.add(z3.Implies(win == g, z3.And(call[g] < fbeg, fend < ret[g])))
            s.add(fbeg < wr, wr < fend)
            # a race: the write is not ordered before some access of another goroutine
            for g in users:
                race.append(z3.And(win != g, z3.Not(wr < read[g])))
                ev = (events or {}).get(combo[g], {})
                if tb in ev.get("pre_access", []) or tb in ev.get("writes_outside", []):
                    # the traces of this operation touch the table outside the Once protocol: an access not ordered after the initialiser
                    stray = z3.Int("stray_%s_%d" % (tb[-12:], g))
                    s.add(stray >= 0)
                    race.append(z3.And(win != g, z3.Not(wr < stray)))
        s.add(z3.Or(race) if race else z3.BoolVal(False))
        r = s.check()
        nq += 1
        if r != z3.unsat:
            bad.append((combo, str(r)))
    chk.add(Ob("schedule query, %d goroutines x all %d operation multisets using a precomputed table: no schedule leaves a table write unordered with another goroutine's access (Once contract + program order from traces)" % (ngo, nq),
               "unsat" if not bad else "sat", time.time() - t0, [], "event structure / LIA (z3)", detail=str(bad[:2])))


def race_battery(seed):
    from sym import native
    code = '''package edwards25519
import ("testing";"sync";"bytes")
func TestVerif(t *testing.T){
 k,_:=NewScalar().SetCanonicalBytes([]byte{7,0,0,0,0,0,0,0,0,0,0,0,0,0,0,0,0,0,0,0,0,0,0,0,0,0,0,0,0,0,0,0})
 shared:=NewGeneratorPoint()
 var wg sync.WaitGroup; start:=make(chan struct{}); res:=make([][]byte,8)
 for i:=0;i<8;i++{ wg.Add(1); go func(i int){ defer wg.Done(); <-start
   var p *Point
   switch i%4 { case 0: p=new(Point).ScalarBaseMult(k); case 1: p=new(Point).VarTimeDoubleScalarBaseMult(k,shared,k); p.Subtract(p,new(Point).ScalarMult(k,shared))
     case 2: p=new(Point).ScalarMult(k,NewGeneratorPoint()); default: p=new(Point).MultiScalarMult([]*Scalar{k},[]*Point{shared}) }
   res[i]=p.Bytes() }(i) }
 close(start); wg.Wait()
 for i:=1;i<8;i++{ if !bytes.Equal(res[i],res[0]) {t.Fatalf("goroutine %d differs",i)} }
}
// a second cold-start scenario is in TestVerifAlias (run in its own process): receivers aliased to the point argument
func TestVerifAlias(t *testing.T){
 k,_:=NewScalar().SetCanonicalBytes([]byte{7,0,0,0,0,0,0,0,0,0,0,0,0,0,0,0,0,0,0,0,0,0,0,0,0,0,0,0,0,0,0,0})
 base:=new(Point).Add(NewGeneratorPoint(),NewGeneratorPoint())
 var wg sync.WaitGroup; start:=make(chan struct{}); res:=make([][]byte,8)
 for i:=0;i<8;i++{ wg.Add(1); go func(i int){ defer wg.Done(); p:=new(Point).Set(base); <-start
   switch i%3 { case 0: p.VarTimeDoubleScalarBaseMult(k,p,k); case 1: p.VarTimeMultiScalarMult([]*Scalar{k,k},[]*Point{p,NewGeneratorPoint()}); default: p.MultiScalarMult([]*Scalar{k,k},[]*Point{p,NewGeneratorPoint()}) }
   res[i]=p.Bytes() }(i) }
 close(start); wg.Wait()
 want:=new(Point).Add(new(Point).ScalarMult(k,base),new(Point).ScalarBaseMult(k)).Bytes()
 for i:=0;i<8;i++{ if !bytes.Equal(res[i],want) {t.Fatalf("goroutine %d (receiver aliased to its point argument, simultaneous first use): wrong result",i)} }
}'''
    rc, out = native.go_test(code, race=True, timeout=900)
    if rc != 0:
        return dict(what="cold-start concurrent test under -race failed: " + out[-600:], op="race")
    # third scenario: goroutines working on DISJOINT data (own receivers, own arguments) with the operations that use no
    # lazily built table - hidden shared scratch (pools, memo tables, package-level temporaries) shows as a wrong result or a
    # detector report; the sequential results of the same calls are the oracle
    code3 = '''package edwards25519
import ("testing"; "sync"; "bytes"; "filippo.io/edwards25519/field")
func work(i int) []byte {
 var out []byte
 kb := make([]byte, 32); kb[0] = byte(3 + i); kb[5] = byte(17 * i + 1)
 k, _ := NewScalar().SetCanonicalBytes(kb)
 k2 := NewScalar().Multiply(k, k); k2.Add(k2, k)
 inv := NewScalar().Invert(k2); chk := NewScalar().Multiply(inv, k2)
 out = append(out, inv.Bytes()...); out = append(out, chk.Bytes()...)
 p := new(Point).ScalarMult(k, NewGeneratorPoint()); q := new(Point).Add(p, NewGeneratorPoint()); r := new(Point).Subtract(q, p)
 out = append(out, p.Bytes()...); out = append(out, q.BytesMontgomery()...); out = append(out, r.Bytes()...)
 out = append(out, byte(p.Equal(q)), byte(q.Equal(new(Point).Add(NewGeneratorPoint(), p))), byte(r.Equal(NewGeneratorPoint())))
 d, err := new(Point).SetBytes(q.Bytes()); if err != nil { panic(err) }; out = append(out, d.Bytes()...)
 X, Y, Z, T := q.ExtendedCoordinates(); e, err := new(Point).SetExtendedCoordinates(X, Y, Z, T); if err != nil { panic(err) }; out = append(out, e.Bytes()...)
 u := new(field.Element).Add(X, Y); v := new(field.Element).Multiply(Z, Z); v.Add(v, new(field.Element).One())
 rt, sq := new(field.Element).SqrtRatio(u, v); out = append(out, rt.Bytes()...); out = append(out, byte(sq))
 out = append(out, new(field.Element).Invert(v).Bytes()...); out = append(out, byte(u.Equal(v)), byte(u.IsNegative()))
 w := make([]byte, 64); copy(w, out); s3, _ := NewScalar().SetUniformBytes(w); out = append(out, s3.Bytes()...)
 s4, _ := NewScalar().SetBytesWithClamping(kb); out = append(out, s4.Bytes()...)
 out = append(out, new(Point).MultByCofactor(q).Bytes()...); out = append(out, new(Point).Negate(q).Bytes()...)
 // tight loops of single operations on changing inputs (check-then-use windows of memo tables, pooled scratch)
 acc := make([]byte, 32); one := new(field.Element).One(); uj := new(field.Element).Set(u)
 for j := 0; j < 60; j++ {
  uj.Add(uj, one); r1, s1 := new(field.Element).SqrtRatio(uj, v); b := r1.Bytes(); for x := range acc { acc[x] ^= b[x] + byte(s1) + byte(j) }
  // the same inputs again at once (a memo hit, if there is a memo) while the other goroutines replace whatever is shared
  r2, s2 := new(field.Element).SqrtRatio(uj, v); b = r2.Bytes(); for x := range acc { acc[x] ^= 3*b[x] + 5*byte(s2) }
  if j%8 == 0 { d1, _ := new(Point).SetBytes(p.Bytes()); d2, _ := new(Point).SetBytes(p.Bytes()); acc[3] ^= d1.Bytes()[7] ^ (2 * d2.Bytes()[9]); i1 := NewScalar().Invert(k2).Bytes(); i2 := NewScalar().Invert(k2).Bytes(); acc[4] ^= i1[2] ^ (2 * i2[6]) }
  acc[j%32] ^= byte(p.Equal(q)) + 2*byte(q.Equal(q)) + 4*byte(uj.Equal(u))
 }
 kj := NewScalar().Set(k)
 for j := 0; j < 12; j++ { kj.Add(kj, k2); b := NewScalar().Invert(kj).Bytes(); for x := range acc { acc[x] ^= b[x] }; b2 := new(Point).Add(q, p).Bytes(); acc[j] ^= b2[j]; m := q.BytesMontgomery(); acc[j+1] ^= m[3] }
 out = append(out, acc...)
 return out
}
func TestVerifDisjoint(t *testing.T) {
 const N = 8
 want := make([][]byte, N)
 for i := 0; i < N; i++ { want[i] = work(i) }
 for round := 0; round < 30; round++ {
  var wg sync.WaitGroup; start := make(chan struct{}); got := make([][]byte, N)
  for i := 0; i < N; i++ { wg.Add(1); go func(i int) { defer wg.Done(); <-start; for j := 0; j < 3; j++ { got[i] = work(i) } }(i) }
  close(start); wg.Wait()
  for i := 0; i < N; i++ { if !bytes.Equal(got[i], want[i]) { t.Fatalf("goroutine %d working on its own data: results differ from the sequential run (round %d)", i, round) } }
 }
}'''
    for race in (False, True):
        rc, out = native.go_test(code3, run="TestVerifDisjoint", race=race, timeout=900)
        if rc != 0:
            return dict(what="concurrent calls on disjoint data%s: " % (" under -race" if race else "") + out[-600:], op="race")
    # second cold process (fresh tables), without the detector so that the goroutines really overlap; repeated, because the
    # window is the table construction
    for rep in range(4):
        rc, out = native.go_test(code, run="TestVerifAlias", race=(rep == 3), timeout=900)
        if rc != 0:
            return dict(what="cold-start concurrent test (receivers aliased to arguments) failed: " + out[-600:], op="race")
    return None


def run(chk):
    prog, base = setup(chk)
    from .common import state_shape
    state_shape(chk, prog)
    fns = sweep.api_functions(prog)
    ngo = 3 if chk.tier == "thorough" else 2
    chk.bounds = ["all %d exported operations (effects of every path), %d goroutines x every multiset of operations that use a precomputed table, one call each, object granularity" % (len(fns), ngo)]
    chk.outside = ["the Go memory model below happens-before (sequentially consistent events assumed)", "sync.Once's own implementation (its documented contract is the model)",
                   "more goroutines than %d; synchronisation primitives other than sync.Once (their appearance makes the executor fail, i.e. the check inconclusive)" % ngo]
    chk.assumptions = ["arguments shared between goroutines are only read (C11, re-checked here as 'no write to non-receiver arguments' is part of C19)"]
    results = {}

    def one(fn):
        s = analyse(base, chk, fn)
        chk.extra.setdefault("once_users", {})[fn] = sorted(s["once"])
    items = [(fn, lambda fn=fn: one(fn)) for fn in fns]
    items += [(fn + " shared", lambda fn=fn: analyse(base, chk, fn, "shared")) for fn in fns if sweep.shared_applicable(prog, fn)]
    # the portable multiplication / squaring kernels (the code every field operation runs on in the purego configuration)
    # are executed from their SSA as well: the sweep above sees them only through their contract
    items += [("kernel " + w, lambda w=w: K.k_mul(base, chk, w)) for w in ("feMulGeneric", "feSquareGeneric")]
    items.sort(key=lambda it: 0 if "VarTime" in it[0] else 1)
    run_kernels(chk, items, parallel=False if len(fns) < 3 else None)
    from .common import settle_bounds_history
    settle_bounds_history(chk, prog, [prog.find("Point)." + r) for r in ("ScalarMult", "ScalarBaseMult", "VarTimeDoubleScalarBaseMult", "MultiScalarMult", "VarTimeMultiScalarMult")])
    # lazily built package-level data = every package-level object written inside a Once initialiser by some operation;
    # every read of it, in every operation, must come after a Do call of (one of) its guarding Once objects has returned
    events = chk.extra.get("events", {})
    guard = {}
    for fn_, ev in events.items():
        for g, os_ in ev.get("guards", {}).items():
            guard.setdefault(g, set()).update(os_)
    chk.extra["lazily_built"] = {g: sorted(v) for g, v in guard.items()}
    for fn_, ev in sorted(events.items()):
        bad, n = [], 0
        for g, prots in ev.get("reads", {}).items():
            if g in guard:
                for prot in prots:
                    n += 1
                    if not (guard[g] & set(prot)):
                        bad.append((g.split(".")[-1], prot))
        ev["pre_access"] = sorted({g for g in ev.get("reads", {}) if g in guard and any(not (guard[g] & set(pr)) for pr in ev["reads"][g])})
        if n:
            chk.fact("%s: lazily built package-level data is read only after the Once.Do that builds it has returned (program order, every path)" % fn_.replace("filippo.io/edwards25519", "ed"),
                     not bad, [fn_.split(" [")[0]], "effects", detail=str(bad[:3]))
    # mutex-protected package-level data: every access (read or write, any operation) must hold one common mutex
    mw = {}
    for fn_, ev in events.items():
        for g, ls in ev.get("mutex_writes", {}).items():
            mw.setdefault(g, set()).update(ls)
    for g, ls in sorted(mw.items()):
        unprotected = []
        for fn_, ev in events.items():
            for k_, held_ in ev.get("lock_acc", {}).get(g, []):
                if not (set(held_) & ls):
                    unprotected.append((fn_.split(").")[-1], k_))
        chk.fact("package-level %s is rewritten by operations under a mutex: every access to it, in every operation, holds that mutex (%s)" % (g.split(".")[-1], sorted(x.split(".")[-1] for x in ls)),
                 not unprotected, [], "effects", detail=str(unprotected[:4]))
    multi = {g.split(".")[-1]: sorted(o.split(".")[-1] for o in v) for g, v in guard.items() if len(v) != 1}
    chk.fact("lazily built package-level data found: %s; each is written under exactly one package-level Once (an object filled by the initialisers of two different Once values can be written twice, the second time after publication)"
             % sorted(g.split(".")[-1] for g in guard), not multi, [], "effects", detail=str(multi))
    ops = {}
    for fn in fns:
        f = prog.fn(fn)
        # static reachability of the two accessor functions from fn
        seen, work = set(), [fn]
        uses = set()
        while work:
            x = work.pop()
            if x in seen:
                continue
            seen.add(x)
            fx = prog.funcs.get(x)
            if not fx or fx.get("external"):
                continue
            for b in fx["blocks"]:
                for ins in b["instrs"]:
                    if ins["op"] == "Call" and ins["call"]["mode"] == "static":
                        work.append(ins["call"]["fn"])
                    if ins["op"] == "MakeClosure":
                        work.append(ins["fn"])
                    for key in ("x", "addr", "val"):
                        v = ins.get(key)
                        if isinstance(v, dict) and v.get("k") == "global" and v["n"] in guard:
                            uses.add(v["n"])
        ops[fn] = uses
    chk.extra["table_users"] = {k: sorted(v) for k, v in ops.items() if v}
    schedule_query(chk, {k: v for k, v in ops.items() if v}, ngo, chk.extra.get("events"))
    # package-level objects other than the two tables are never written after init (from the sweep facts above)
    if chk.violations or chk.tier == "thorough" or any(not o.ok() for o in chk.obs):
        hit = race_battery(chk.seed)
        chk.extra["native_race_test"] = "failed" if hit else "passed (go test -race, 8 goroutines, cold start)"
        bad = [o for o in chk.obs if not o.ok()]
        for o in bad:
            o.verdict = "violated" if hit else "sat-unreplayed"
        if hit and bad:
            chk.violation("concurrency", hit["what"], hit)
    chk.samples = [o.j() for o in chk.obs if "schedule" in o.name or "Once.Do" in o.name][:6]


def safety_net(chk):
    return race_battery(chk.seed)
