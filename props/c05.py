"""C05 - point encoding is canonical, representation-independent and round-trips."""
import time, z3
from sym import kernels as K, l1 as L1m, exec as X, certs, ptreplay, ref
from sym.poly import Poly
from sym.check import Ob
from .common import setup, run_kernels
from .c02 import field_contracts


def bytes_battery(seed, extra=()):
    import random
    from sym import native
    rng = random.Random(seed)
    pts = ptreplay.bank(rng, 14)
    ops, meta = [], []
    for raw, q in extra:
        ops.append({"op": "P.Bytes", "args": ["p"], "init": {"p": raw}})
        meta.append(q)
    for p in pts:
        for _ in range(3):
            ops.append({"op": "P.Bytes", "args": ["p"], "init": {"p": ptreplay.mk_point(p, rng)}})
            meta.append(p)
    res = native.run_ops("", ops)
    for p, r, o in zip(meta, res, ops):
        if "panic" in r:
            return dict(what="Bytes panics: %s" % r["panic"], op="P.Bytes", init=o["init"])
        if r["bytes"] != ref.ed_encode(p).hex():
            return dict(what="Bytes of %s = %s, expected %s" % (p, r["bytes"], ref.ed_encode(p).hex()), op="P.Bytes", init=o["init"])
        if r["slots"]["p"] != o["init"]["p"]:
            return dict(what="Bytes modified the point", op="P.Bytes", init=o["init"])
    # round trip incl. non-canonical encodings
    encs = [ref.ed_encode(p).hex() for p in pts]
    encs += [bytes([1] + [0] * 30 + [0x80]).hex(), (ref.P + 1).to_bytes(32, "little").hex(), ((ref.P + 1) | (1 << 255)).to_bytes(32, "little").hex(), (ref.P - 1).to_bytes(32, "little").hex(),
             ((ref.P - 1) | (1 << 255)).to_bytes(32, "little").hex()]
    ops = [{"op": "P.SetBytes", "args": ["v", "x"], "init": {"v": "pt:zero", "x": "hex:" + e}} for e in encs]
    res = native.run_ops("", ops)
    ops2, meta2 = [], []
    for e, r in zip(encs, res):
        want = ref.ed_decode(bytes.fromhex(e))
        if want is None:
            continue
        if r.get("err"):
            return dict(what="SetBytes rejects the encoding %s of %s" % (e, want), op="P.SetBytes", inputs=dict(x=e))
        ops2.append({"op": "P.Bytes", "args": ["p"], "init": {"p": r["slots"]["v"]}})
        meta2.append((e, want))
    res2 = native.run_ops("", ops2)
    for (e, want), r in zip(meta2, res2):
        if r["bytes"] != ref.ed_encode(want).hex():
            return dict(what="re-encoding %s gives %s, expected the canonical %s" % (e, r["bytes"], ref.ed_encode(want).hex()), op="P.Bytes", inputs=dict(x=e))
    return None


def k_bytes(l1):
    chk, prog = l1.chk, l1.prog
    fname = prog.find("Point).Bytes")
    chk.used(prog, fname, "ring mode")
    chk.used(prog, prog.find("Point).bytes"), "ring mode (Invert -> inv symbol, Element.Bytes -> canonical encoding symbol, IsNegative -> parity symbol)")
    chk.used(prog, K.E + "copyFieldElement", "ring mode")
    path = l1.path()
    P1 = l1.p3("1")
    p = l1.obj(path, "Point", P1.coords())
    paths = l1.ex.call(fname, [p], path)
    bad = [r for r in paths if r.outcome[0] != "ret"]
    chk.add(Ob("Point.Bytes: no panic / engine error on a valid point (%d path(s))" % len(paths), "unsat" if paths and not bad else "sat", 0, [fname], "ring mode", detail=str([r.outcome for r in bad][:2])))
    for pi, r in enumerate(paths):
        if r.outcome[0] != "ret":
            continue
        label = "Point.Bytes" if len(paths) == 1 else "Point.Bytes [path %d]" % pi
        sl = r.outcome[1][0]
        hy = r.dstate.get("hyp", [])
        invs = [h for h in hy if h[0] == "inv"]
        encs = [h for h in hy if h[0] == "bytes"]
        negs = [h for h in hy if h[0] == "isneg"]
        eqs = [h for h in hy if h[0] == "eq"]
        ok = len(encs) == 1 and len(negs) == 1 and len(invs) <= 1 and all(h[1] == P1.Z for h in invs)
        chk.add(Ob("%s: at most one inversion (of Z), one field encoding, one sign test" % label, "unsat" if ok else "sat", 0, [fname], "structure"))
        if not ok:
            continue
        stages, mult = l1.stages_p3([P1])
        st = list(stages)
        if invs:
            iv = Poly.var(invs[0][2])
            st = [([P1.Z * iv - 1], [invs[0][2]])] + st
        # data-dependent tests taken on this path (Element.Equal atoms): decide their polarity under the path condition
        for h in eqs:
            so = z3.Solver()
            for c in r.pc:
                so.add(c)
            so.push()
            so.add(z3.Not(h[2]))
            is_true = so.check() == z3.unsat
            so.pop()
            if is_true:
                names = sorted({n for n in ("X1", "Y1", "Z1", "T1")}, key=lambda n: -h[1].degree_in(n))
                st = [([h[1]], ["T1", "Y1", "X1", "Z1", "d"])] + st
        ypoly, xpoly = encs[0][1], negs[0][1]
        l1.goal(label, "encoded field element is y = Y/Z:  y*Z = Y (mod p, under the hypotheses of this path)", ypoly * P1.Z - P1.Y, st, mult, fname)
        l1.goal(label, "sign is taken from x = X/Z:  x*Z = X", xpoly * P1.Z - P1.X, st, mult, fname)
        out = r.heap[sl.obj][0]
        enc, bit = encs[0][2], negs[0][2]
        s = z3.Solver()
        for c in r.pc:
            s.add(c)
        want31 = enc[31] | (z3.Extract(7, 0, bit) << 7)
        goal = z3.And([out[i] == enc[i] for i in range(31)] + [out[31] == want31, z3.Extract(6, 0, out[31]) == z3.Extract(6, 0, enc[31]), z3.Extract(7, 7, out[31]) == z3.Extract(0, 0, bit)])
        s.add(z3.Not(goal))
        t0 = time.time()
        chk.add(Ob("%s: 32 bytes = canonical little-endian y (< p) with bit 255 = parity of the fully reduced x; nothing else altered" % label, str(s.check()), time.time() - t0, [fname], "BV"))
        chk.fact("%s: returns a 32-byte slice of a buffer allocated by the call; point not written" % label,
                 isinstance(sl, X.SliceV) and sl.len == 32 and sl.off == 0 and l1.ex.meta[sl.obj].kind in ("heap", "stack") and not any(w[0] == "w" and w[1] == p.obj for w in r.log), [fname])


def run(chk):
    prog, base = setup(chk)
    from .common import state_shape
    state_shape(chk, prog)
    chk.bounds = ["no bound: symbolic valid point in any projective representation; every limb representation via the field contracts"]
    chk.outside = ["round trip SetBytes(Bytes(P)) = P and canonical re-encoding follow by composing this contract with C04's (both discharged by solver); the composition argument itself is paper reasoning",
                   "z^(p-2) = 1/z (Fermat)"]
    chk.assumptions = ["Invert: z*inv = 1 for z != 0 (C09 chain contract, re-discharged here)", "Element.Bytes = canonical encoding, IsNegative = parity of reduced value (C10 contracts, re-discharged here)"]
    items = list(field_contracts(base, chk))
    items += [("reduce", lambda: K.k_reduce(base, chk)), ("Bytes", lambda: K.k_bytes(base, chk)), ("Equal/IsNegative", lambda: K.k_equal_isneg(base, chk)), ("Invert", lambda: K.k_chain(base, chk, "Invert"))]
    l1 = L1m.L1(base, chk)
    items += [("Point.Bytes", lambda: k_bytes(l1))]
    run_kernels(chk, items)
    L1m.settle(chk, [o for o in chk.obs if o.name.startswith("Point.Bytes")], lambda: bytes_battery(chk.seed, L1m.witness_points(chk, base, "Point.Bytes")), "Point.Bytes")
    chk.samples = [o.j() for o in chk.obs if o.name.startswith("Point.Bytes")][:5]


def safety_net(chk):
    from sym import ptreplay
    return bytes_battery(chk.seed) or ptreplay.battery_receiver_history(chk.seed)
