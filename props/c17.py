"""C17 - BytesMontgomery is the RFC 7748 birational map u = (1+y)/(1-y)."""
import time, z3
from sym import kernels as K, l1 as L1m, exec as X, certs, ptreplay, ref
from sym.poly import Poly
from sym.check import Ob
from .common import setup, run_kernels
from .c02 import field_contracts


def mont_battery(seed, extra=()):
    """extra: (raw point string, affine point) pairs - representations derived from the paths of the real code"""
    import random
    from sym import native
    rng = random.Random(seed)
    pts = ptreplay.bank(rng, 14)
    ops, meta = [], []
    for raw, q in extra:
        ops.append({"op": "P.BytesMontgomery", "args": ["p"], "init": {"p": raw}})
        meta.append(q)
    for p in pts:
        for q in (p, ref.ed_neg(p)):
            ops.append({"op": "P.BytesMontgomery", "args": ["p"], "init": {"p": ptreplay.mk_point(q, rng)}})
            meta.append(q)
    res = native.run_ops("", ops)
    for q, r, o in zip(meta, res, ops):
        if "panic" in r:
            return dict(what="BytesMontgomery panics: %s" % r["panic"], op="P.BytesMontgomery", init=o["init"])
        y = q[1]
        u = 0 if y == 1 else (1 + y) * ref.inv(1 - y) % ref.P
        if r["bytes"] != u.to_bytes(32, "little").hex():
            return dict(what="BytesMontgomery of %s = %s, expected u = %d" % (q, r["bytes"], u), op="P.BytesMontgomery", init=o["init"])
        if r["slots"]["p"] != o["init"]["p"]:
            return dict(what="BytesMontgomery modified the point", op="P.BytesMontgomery", init=o["init"])
    return None


def k_mont(l1):
    chk, prog = l1.chk, l1.prog
    fname = prog.find("Point).BytesMontgomery")
    chk.used(prog, fname, "ring mode")
    chk.used(prog, prog.find("Point).bytesMontgomery"), "ring mode")
    path = l1.path()
    P1 = l1.p3("1")
    p = l1.obj(path, "Point", P1.coords())
    ob0, rets = L1m.returning_paths(l1, fname, [p], path, "Point.BytesMontgomery")
    stages, mult = l1.stages_p3([P1])
    for tag, r in rets:
        label = "Point.BytesMontgomery" + tag
        sl = r.outcome[1][0]
        hy = r.dstate.get("hyp", [])
        invs = [h for h in hy if h[0] == "inv"]
        encs = [h for h in hy if h[0] == "bytes"]
        if len(encs) != 1 or not isinstance(sl, X.SliceV):
            chk.soft("%s: encodes exactly one field element" % label, False, [fname])
            continue
        u = encs[0][1]
        # y = Y/Z is not a program variable we can rely on: state the specification with an own inverse symbol of Z
        zi = Poly.var("specZinv")
        y = P1.Y * zi
        gz = P1.Z * zi - 1
        one = Poly.const(1)
        # hypotheses in elimination order: the code's own inverse symbols (latest first), then "the code's 1/Z is the
        # specification's 1/Z", then Z*specZinv = 1, then the point's equations
        # the code's inverse of Z *is* the specification's (both are 1/Z): rename it, then use the remaining inverse
        # hypotheses (with the renaming applied), then Z*specZinv = 1, then the point's equations
        ren = {h[2]: zi for h in invs if h[1] == P1.Z}
        u = u.subs(ren) if ren else u
        st = []
        for h in hy:
            if h[0] == "inv" and h[1] != P1.Z:
                st = [([h[1].subs(ren) * Poly.var(h[2]) - 1], [h[2]])] + st
        st = st + [([gz], ["specZinv"])] + stages
        invs = [(h[0], h[1].subs(ren) if ren else h[1], h[2]) for h in invs]
        # case y != 1: every inversion the code performed is of a non-zero value on generic points; u*(1-y) = 1+y
        l1.goal(label, "y != 1: u*(1-y) = 1+y with y = Y/Z", u * (one - y) - (one + y), st, mult, fname)
        # case y = 1: substitute the convention inv(0) = 0 for inversions of expressions that vanish at y = 1
        u1 = u
        for h in invs:
            if h[1] != P1.Z:
                u1 = u1.subs({h[2]: Poly()})
        st1 = [([P1.Y - P1.Z], ["Y1"])] + st       # hypothesis y = 1, i.e. Y = Z
        l1.goal(label, "y = 1 (the identity; 0^-1 = 0): u = 0", u1, st1, mult, fname)
        l1.goal(label, "u does not depend on X or T (so P and -P encode alike)", Poly.const(1) if (u.vars() & {Poly.var("X1").vars().pop(), Poly.var("T1").vars().pop()}) else Poly(), [], [], fname)
        out = r.heap[sl.obj][0]
        enc = encs[0][2]
        s = z3.Solver()
        for c in r.pc:
            s.add(c)
        if not all(isinstance(x, int) or z3.is_bv(x) for x in out[:32]):
            chk.add(Ob("%s: output = canonical 32-byte little-endian encoding of u" % label, "error:output bytes are not plain values (%r)" % (out[:2],), 0, [fname], "BV"))
            continue
        s.add(z3.Not(z3.And([out[i] == enc[i] for i in range(32)])))
        chk.add(Ob("%s: output = canonical 32-byte little-endian encoding of u" % label, str(s.check()), 0, [fname], "BV"))
        chk.fact("%s: fresh 32-byte buffer; point not written" % label, sl.len == 32 and l1.ex.meta[sl.obj].kind in ("heap", "stack") and not any(w[0] == "w" and w[1] == p.obj for w in r.log), [fname])
    dv = l1.base.global_val(K.E + "d")
    dval = sum(int(l) << (51 * k) for k, l in enumerate(dv)) % ref.P
    chk.fact("Point.BytesMontgomery: d != -1 mod p (so y = 1 forces x = 0: only the identity has y = 1)", (dval + 1) % ref.P != 0, [K.E + "init"], "concrete")
    xx, yy, dd = Poly.var("x"), Poly.var("y"), l1.d
    from sym.poly import z3_identity_unsat
    rr, _ = z3_identity_unsat([[(-(xx ** 2) + yy ** 2 - 1 - dd * xx ** 2 * yy ** 2).subs({"y": Poly.const(1)})]], [[Poly.const(-1), xx ** 2, Poly.const(1) + dd]])
    chk.add(Ob("Point.BytesMontgomery: curve equation at y = 1 reduces to -x^2*(1+d) = 0", rr, 0, [fname], "polynomial identity (z3)"))


def run(chk):
    prog, base = setup(chk)
    from .common import state_shape
    state_shape(chk, prog)
    chk.bounds = ["no bound: symbolic valid point in any projective representation"]
    chk.outside = ["'equals the X25519 public key of k' (RFC 7748 birational equivalence + a different implementation's ladder) is a stated consequence, not decided here",
                   "z^(p-2) = 1/z, 0 -> 0 (Fermat)"]
    chk.assumptions = ["Invert contract (C09), Element.Bytes canonical (C10) - re-discharged here"]
    items = list(field_contracts(base, chk))
    items += [("reduce", lambda: K.k_reduce(base, chk)), ("Bytes", lambda: K.k_bytes(base, chk)), ("Invert", lambda: K.k_chain(base, chk, "Invert"))]
    l1 = L1m.L1(base, chk)
    items += [("BytesMontgomery", lambda: k_mont(l1))]
    run_kernels(chk, items)
    L1m.settle(chk, [o for o in chk.obs if o.name.startswith("Point.BytesMontgomery")], lambda: mont_battery(chk.seed, L1m.witness_points(chk, base, "Point.BytesMontgomery")), "Point.BytesMontgomery")
    chk.samples = [o.j() for o in chk.obs if o.name.startswith("Point.BytesMontgomery")][:5]


def safety_net(chk):
    from .c19 import fresh_battery
    from sym import ptreplay
    return mont_battery(chk.seed) or fresh_battery(chk.seed) or ptreplay.battery_receiver_history(chk.seed)
