"""C17 - BytesMontgomery is the RFC 7748 birational map u = (1+y)/(1-y)."""
import time, z3
from sym import kernels as K, l1 as L1m, exec as X, certs, ptreplay, ref
from sym.poly import Poly
from sym.check import Ob
from .common import setup, run_kernels
from .c02 import field_contracts


def mont_battery(seed):
    import random
    from sym import native
    rng = random.Random(seed)
    pts = ptreplay.bank(rng, 14)
    ops, meta = [], []
    for p in pts:
        for q in (p, ref.ed_neg(p)):
            ops.append({"op": "P.BytesMontgomery", "args": ["p"], "init": {"p": ptreplay.mk_point(q, rng)}})
            meta.append(q)
    res = native.run_ops("", ops)
    for q, r, o in zip(meta, res, ops):
        if "panic" in r:
            return dict(what="BytesMontgomery panics: %s" % r["panic"], op="P.BytesMontgomery", init=o["init"])
        y = q[1]
        u = 0 if y == 1 else (1 + y) * ref.inv(1 - y) % ref.P
        if r["bytes"] != u.to_bytes(32, "little").hex():
            return dict(what="BytesMontgomery of %s = %s, expected u = %d" % (q, r["bytes"], u), op="P.BytesMontgomery", init=o["init"])
        if r["slots"]["p"] != o["init"]["p"]:
            return dict(what="BytesMontgomery modified the point", op="P.BytesMontgomery", init=o["init"])
    return None


def k_mont(l1):
    chk, prog = l1.chk, l1.prog
    fname = prog.find("Point).BytesMontgomery")
    chk.used(prog, fname, "ring mode")
    chk.used(prog, prog.find("Point).bytesMontgomery"), "ring mode")
    label = "Point.BytesMontgomery"
    path = l1.path()
    P1 = l1.p3("1")
    p = l1.obj(path, "Point", P1.coords())
    r = l1.call1(fname, [p], path)
    sl = r.outcome[1][0]
    hy = r.dstate.get("hyp", [])
    invs = [h for h in hy if h[0] == "inv"]
    encs = [h for h in hy if h[0] == "bytes"]
    ok = len(invs) == 2 and len(encs) == 1 and invs[0][1] == P1.Z
    chk.add(Ob("%s: two inversions (Z, then 1-y), one field encoding" % label, "unsat" if ok else "sat", 0, [fname], "structure", detail=str([repr(h[1])[:60] for h in invs])))
    if not ok:
        return
    i1, i2 = Poly.var(invs[0][2]), Poly.var(invs[1][2])
    y = P1.Y * i1
    g1 = P1.Z * i1 - 1
    den = invs[1][1]
    stages, mult = l1.stages_p3([P1])
    l1.goal(label, "second inversion is of 1 - y with y = Y/Z", den - (Poly.const(1) - y), [], [], fname)
    l1.goal(label, "y*Z = Y", y * P1.Z - P1.Y, [([g1], [invs[0][2]])] + stages, mult, fname)
    u = encs[0][1]
    # case y != 1: (1-y)*i2 = 1  =>  u*(1-y) = 1+y
    g2 = den * i2 - 1
    l1.goal(label, "y != 1: u*(1-y) = 1+y  (u = (1+y)/(1-y))", u * (Poly.const(1) - y) - (Poly.const(1) + y), [([g2], [invs[1][2], invs[0][2]])], [], fname)
    # case y = 1 (the identity): inv(0) = 0 => u = 0
    l1.goal(label, "y = 1 (identity, 0^-1 = 0): u = 0", u.subs({invs[1][2]: Poly()}), [], [], fname)
    l1.goal(label, "u does not depend on X or T (so P and -P encode alike)", Poly.const(1) if (u.vars() & {Poly.var("X1").vars().pop(), Poly.var("T1").vars().pop()}) else Poly(), [], [], fname)
    out = r.heap[sl.obj][0]
    enc = encs[0][2]
    s = z3.Solver()
    for c in r.pc:
        s.add(c)
    s.add(z3.Not(z3.And([out[i] == enc[i] for i in range(32)])))
    chk.add(Ob("%s: output = canonical 32-byte little-endian encoding of u" % label, str(s.check()), 0, [fname], "BV"))
    chk.fact("%s: fresh 32-byte buffer; point not written" % label, isinstance(sl, X.SliceV) and sl.len == 32 and l1.ex.meta[sl.obj].kind in ("heap", "stack") and not any(w[0] == "w" and w[1] == p.obj for w in r.log), [fname])
    # y = 1 only for the identity among valid points: y=1 => x^2 (1+d) = 0 and d != -1
    dv = l1.base.global_val(K.E + "d")
    dval = sum(int(l) << (51 * k) for k, l in enumerate(dv)) % ref.P
    chk.fact("%s: d != -1 mod p (so y = 1 forces x = 0: only the identity has y = 1)" % label, (dval + 1) % ref.P != 0, [K.E + "init"], "concrete")
    xx, yy, dd = Poly.var("x"), Poly.var("y"), l1.d
    from sym.poly import z3_identity_unsat
    rr, _ = z3_identity_unsat([[(-(xx ** 2) + yy ** 2 - 1 - dd * xx ** 2 * yy ** 2).subs({"y": Poly.const(1)})]], [[Poly.const(-1), xx ** 2, Poly.const(1) + dd]])
    chk.add(Ob("%s: curve equation at y = 1 reduces to -x^2*(1+d) = 0" % label, rr, 0, [fname], "polynomial identity (z3)"))


def run(chk):
    prog, base = setup(chk)
    chk.bounds = ["no bound: symbolic valid point in any projective representation"]
    chk.outside = ["'equals the X25519 public key of k' (RFC 7748 birational equivalence + a different implementation's ladder) is a stated consequence, not decided here",
                   "z^(p-2) = 1/z, 0 -> 0 (Fermat)"]
    chk.assumptions = ["Invert contract (C09), Element.Bytes canonical (C10) - re-discharged here"]
    items = list(field_contracts(base, chk))
    items += [("reduce", lambda: K.k_reduce(base, chk)), ("Bytes", lambda: K.k_bytes(base, chk)), ("Invert", lambda: K.k_chain(base, chk, "Invert"))]
    l1 = L1m.L1(base, chk)
    items += [("BytesMontgomery", lambda: k_mont(l1))]
    run_kernels(chk, items)
    L1m.settle(chk, [o for o in chk.obs if o.name.startswith("Point.BytesMontgomery")], lambda: mont_battery(chk.seed), "Point.BytesMontgomery")
    chk.samples = [o.j() for o in chk.obs if o.name.startswith("Point.BytesMontgomery")][:5]


def safety_net(chk):
    return mont_battery(chk.seed)
