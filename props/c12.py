"""C12 - every reachable Point is a valid curve point (one inductive step per Point-producing operation)."""
import time
from sym import kernels as K, l1 as L1m, l2 as L2m, exec as X, ptreplay, ref
from sym.check import Ob
from .common import setup, run_kernels
from .c02 import field_contracts
from . import c01, c04, c13

E = K.E
COVERED = {"Add", "Subtract", "Negate", "MultByCofactor", "ScalarMult", "ScalarBaseMult", "VarTimeDoubleScalarBaseMult", "MultiScalarMult", "VarTimeMultiScalarMult",
           "SetBytes", "SetExtendedCoordinates", "Set"}
READERS = {"Bytes", "BytesMontgomery", "Equal", "ExtendedCoordinates"}


def validity_battery(seed):
    """native: results of every producer from valid inputs / zero receivers are valid points"""
    hit = ptreplay.battery_scalarmult(seed)
    if hit:
        return hit
    hit = ptreplay.battery_binary("P.Add", seed, lambda p, q: ref.ed_add(p, q)) or ptreplay.battery_unary("P.MultByCofactor", seed, lambda p: ref.ed_mul(8, p))
    if hit:
        return hit
    return c13.setext_battery(seed) or c04.decode_battery(seed)


def encapsulation(base, chk, fname):
    """frame condition of the induction: the coordinates of a Point can only be written by the covered *Point methods,
    so no exported operation may hand out a pointer or slice into a pre-existing object (receiver, argument, package
    state) - except a pointer argument itself (methods return their receiver)"""
    from . import sweep
    r = sweep.run_api(base, chk, fname)
    label = fname.replace("filippo.io/edwards25519", "ed")
    bad = []
    for p in r.paths:
        if p.outcome[0] != "ret":
            continue
        for v in p.outcome[1]:
            if isinstance(v, (X.Ptr, X.SliceV)) and v.obj in r.pre_objs:
                if isinstance(v, X.Ptr) and any(isinstance(a, X.Ptr) and a == v for a in r.args):
                    continue
                m = r.ex.meta.get(v.obj)
                bad.append((m.name if m else v.obj, getattr(v, "path", ())))
    chk.used(base.prog, fname, "effects (" + r.desc + ")")
    if not any(p.outcome[0] == "ret" for p in r.paths) or any(p.outcome[0] == "error" for p in r.paths):
        chk.add(Ob("%s: every path is followed to its return (effects known)" % label, "error:%s" % ([p.outcome for p in r.paths if p.outcome[0] != "ret"][:1],), 0, [fname], "effects"))
        return
    chk.fact("%s: no result is a pointer/slice into the storage of its receiver, an argument or package state (Point coordinates stay writable only through *Point methods)" % label,
             not bad, [fname], "effects", detail=str(bad[:4]))


def run(chk):
    prog, base = setup(chk)
    from .common import state_shape
    state_shape(chk, prog)
    chk.bounds = ["one inductive step per exported operation from arbitrary valid inputs (symbolic coordinates / abstract group elements) and arbitrary receivers (zero value, valid point, aliased); multi-scalar term counts n <= 2 (quick) / 4 (thorough)"]
    chk.outside = ["as C02 (completeness paper step), n above the bound"]
    chk.assumptions = ["the invariant 'valid point' is inductive: every exported mutator of *Point is covered (list computed from the SSA)"]
    # mutator coverage computed from SSA
    methods = sorted(f["short"] for n, f in prog.funcs.items() if n.startswith("(*filippo.io/edwards25519.Point).") and f.get("exported"))
    unknown = [m for m in methods if m not in COVERED and m not in READERS]
    chk.add(Ob("every exported *Point method is either a covered producer or a reader (%d methods)" % len(methods), "unsat" if not unknown else "uncovered:%s" % unknown, 0, [], "API surface from SSA"))
    items = list(field_contracts(base, chk))
    l1 = L1m.L1(base, chk)
    items += [("lemmas", l1.lemmas), ("internal", lambda: L1m.internal_contracts(l1)), ("completeness", lambda: L1m.completeness(l1)), ("selector primitives", lambda: L1m.selector_contracts(l1))]
    for al in ("distinct", "zero receiver", "v=p", "v=q", "p=q", "v=p=q"):
        items.append(("Add " + al, lambda al=al: L1m.api_add_sub(l1, False, al)))
        items.append(("Subtract " + al, lambda al=al: L1m.api_add_sub(l1, True, al)))
    for al in ("distinct", "zero receiver", "v=p"):
        items.append(("Negate " + al, lambda al=al: L1m.api_negate(l1, al)))
    l1b = L1m.L1(base, chk)
    items.append(("SetBytes", lambda: c04.k_setbytes(l1b)))
    # the SqrtRatio contract used by the SetBytes step is discharged here too (case analysis of the real body, as in C16)
    from . import c16
    items += c16.sqrt_case_items(base, chk)
    l1c = L1m.L1(base, chk)
    items.append(("SetExtendedCoordinates", lambda: c13.k_setext(l1c)))
    maxn = 4 if chk.tier == "thorough" else 2
    heavy = []
    for st in ("zero", "other"):
        heavy.append(("VarTimeDoubleScalarBaseMult " + st, lambda st=st: c01.run_one(base, chk, "VarTimeDoubleScalarBaseMult", st)))
        for n in range(maxn, -1, -1):
            heavy.append(("VarTimeMultiScalarMult %d %s" % (n, st), lambda n=n, st=st: c01.run_one(base, chk, "VarTimeMultiScalarMult", st, n)))
            items.append(("MultiScalarMult %d %s" % (n, st), lambda n=n, st=st: c01.run_one(base, chk, "MultiScalarMult", st, n)))
        items.append(("ScalarMult " + st, lambda st=st: c01.run_one(base, chk, "ScalarMult", st)))
        items.append(("ScalarBaseMult " + st, lambda st=st: c01.run_one(base, chk, "ScalarBaseMult", st)))

    def cofactor(state):
        h = L2m.L2(base, chk)
        path = h.path()
        t0 = time.time()
        fname = prog.find("Point).MultByCofactor")
        pnt = h.point(path, "P")
        v = h.point(path, None) if state == "zero" else h.point(path, "R")
        paths = h.ex.call(fname, [v, pnt], path)
        h.check_result("MultByCofactor[receiver=%s]" % state, fname, paths, v, {"P": 8}, t0, [pnt.obj])
    items += [("MultByCofactor zero", lambda: cofactor("zero")), ("MultByCofactor other", lambda: cofactor("other"))]

    def constructors():
        from sym import groupmode as GM
        # the package-level identity and generator are valid points (concrete, from the executed init)
        for nm, want in (("identity", (0, 1)), ("generator", ref.BASE)):
            g = base.global_val(E + nm)
            vals = [sum(int(l) << (51 * i) for i, l in enumerate(c)) % ref.P for c in g[1:]]
            Xv, Yv, Zv, Tv = vals
            ok = Zv != 0 and (Xv * Yv - Zv * Tv) % ref.P == 0 and (-Xv * Xv + Yv * Yv - Zv * Zv - ref.D * Tv * Tv) % ref.P == 0 and (Xv * ref.inv(Zv) % ref.P, Yv * ref.inv(Zv) % ref.P) == want
            chk.fact("package-level %s is the valid point %s" % (nm, "(0,1)" if nm == "identity" else "B (RFC 8032 base point)"), ok, [E + "init"], "concrete (init executed by the engine)")
        h = L2m.L2(base, chk)
        for ctor, gen in (("NewIdentityPoint", {}), ("NewGeneratorPoint", {"B": 1})):
            path = h.path()
            (p,) = h.ex.call(E + ctor, [], path)
            r = p.outcome[1][0]
            g = h.result(p, r)
            okc = isinstance(g, GM.G) and g.kind == "vec" and {k: v for k, v in g.v.items()} == gen and h.ex.meta[r.obj].kind in ("heap", "stack")
            chk.fact("%s returns a fresh copy of the package-level point; package state not written" % ctor, okc and not any(w[0] == "w" and h.ex.meta[w[1]].kind == "global" for w in p.log), [E + ctor])
        # Set copies
        path = h.path()
        src = h.point(path, "P")
        dst = h.point(path, None)
        (p,) = h.ex.call(prog.find("Point).Set"), [dst, src], path)
        g = h.result(p, dst)
        chk.fact("Point.Set copies its argument (a valid point stays valid)", isinstance(g, GM.G) and g.kind == "vec" and list(g.v.items()) == [("P", 1)], [prog.find("Point).Set")])
    items.append(("constructors", constructors))
    from . import sweep
    for fn in sweep.api_functions(prog):
        short = prog.fn(fn)["short"]
        if (fn.startswith("(*filippo.io/edwards25519.Point).") and short not in ("ScalarMult", "ScalarBaseMult", "VarTimeDoubleScalarBaseMult", "MultiScalarMult", "VarTimeMultiScalarMult")) \
                or fn in (E + "NewIdentityPoint", E + "NewGeneratorPoint"):
            items.append(("encapsulation " + short, lambda fn=fn: encapsulation(base, chk, fn)))
    run_kernels(chk, heavy + items)
    from .common import settle_bounds
    settle_bounds(chk, prog, [prog.find("Point)." + r) for r in ("ScalarMult", "ScalarBaseMult", "VarTimeDoubleScalarBaseMult", "MultiScalarMult", "VarTimeMultiScalarMult")])
    groups = [
        ("Point.SetExtendedCoordinates", lambda o: "SetExtendedCoordinates" in o.name, lambda: c13.setext_battery_with_witnesses(chk, base)),
        ("Point.SetBytes", lambda o: o.name.startswith("Point.SetBytes"), lambda: c04.decode_battery(chk.seed)),
        ("Point.Add", lambda o: o.name.startswith("Point.Add["), lambda: ptreplay.battery_binary("P.Add", chk.seed, lambda p, q: ref.ed_add(p, q))),
        ("Point.Subtract", lambda o: o.name.startswith("Point.Subtract["), lambda: ptreplay.battery_binary("P.Subtract", chk.seed, lambda p, q: ref.ed_add(p, ref.ed_neg(q)))),
        ("Point.Negate", lambda o: o.name.startswith("Point.Negate["), lambda: ptreplay.battery_unary("P.Negate", chk.seed, lambda p: ref.ed_neg(p))),
        ("Point.MultByCofactor", lambda o: o.name.startswith("MultByCofactor["), lambda: ptreplay.battery_unary("P.MultByCofactor", chk.seed, lambda p: ref.ed_mul(8, p))),
    ]
    for r_ in ("ScalarMult", "ScalarBaseMult", "VarTimeDoubleScalarBaseMult", "MultiScalarMult", "VarTimeMultiScalarMult"):
        groups.append(("Point." + r_, lambda o, r_=r_: o.name.startswith(r_ + "["), lambda r_=r_: ptreplay.battery_scalarmult(chk.seed, which=("P." + r_,), maxn=maxn)))
    taken = set()
    for key, pred, bat in groups:
        obs = [o for o in chk.obs if pred(o)]
        taken.update(id(o) for o in obs)
        L1m.settle(chk, obs, bat, key)
    c16.sqrt_settle(chk)
    taken.update(id(o) for o in chk.obs if o.name.startswith("SqrtRatio["))
    rest = [o for o in chk.obs if id(o) not in taken and not o.ok() and not o.verdict.startswith("uncovered")]
    L1m.settle(chk, rest, lambda: validity_battery(chk.seed), "point formulas (internal)")
    chk.extra.pop("setext_accept_polys", None); chk.extra.pop("setext_reject_polys", None)
    chk.samples = [o.j() for o in chk.obs if "well-defined group element" in o.name or "output satisfies" in o.name][:6]


def safety_net(chk):
    from sym import ptreplay
    return validity_battery(chk.seed) or ptreplay.battery_receiver_history(chk.seed)
