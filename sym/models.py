"""Models of external functions (no SSA body): math/bits intrinsics, errors.New,
sync.Once.Do, and the default treatment of the assembly-backed feMul/feSquare."""
from .exec import Iface, TailCall, ExecError, Closure, Ptr, wrap

M64 = (1 << 64) - 1


def install(ex):
    ex.summaries["math/bits.Add64"] = add64
    ex.summaries["math/bits.Sub64"] = sub64
    ex.summaries["math/bits.Mul64"] = mul64
    ex.summaries["errors.New"] = errors_new
    ex.summaries["(*sync.Once).Do"] = once_do
    ex.summaries["math/bits.Add32"] = lambda ex_, path, a: addsub_w(ex_, path, a, 32, False)
    ex.summaries["math/bits.Sub32"] = lambda ex_, path, a: addsub_w(ex_, path, a, 32, True)
    for nm in ("(*sync.Mutex).Lock", "(*sync.RWMutex).Lock", "(*sync.RWMutex).RLock"):
        ex.summaries[nm] = lambda ex_, path, a: path.log.append(("lock", a[0].obj, a[0].path)) or None
    for nm in ("(*sync.Mutex).Unlock", "(*sync.RWMutex).Unlock", "(*sync.RWMutex).RUnlock"):
        ex.summaries[nm] = lambda ex_, path, a: path.log.append(("unlock", a[0].obj, a[0].path)) or None
    ex.summaries["(*sync.Pool).Get"] = pool_get
    ex.summaries["(*sync.Pool).Put"] = pool_put


def add64(ex, path, args):
    x, y, c = args
    if all(type(a) is int for a in args):
        s = x + y + c
        return (s & M64, s >> 64)
    return ex.dom.add64(path, x, y, c)


def sub64(ex, path, args):
    x, y, b = args
    if all(type(a) is int for a in args):
        d = x - y - b
        return (d & M64, 1 if d < 0 else 0)
    return ex.dom.sub64(path, x, y, b)


def mul64(ex, path, args):
    x, y = args
    if type(x) is int and type(y) is int:
        p = x * y
        return (p >> 64, p & M64)
    return ex.dom.mul64(path, x, y)


def addsub_w(ex, path, args, w, sub):
    """bits.Add32 / bits.Sub32: (sum or difference mod 2^w, carry or borrow out)"""
    x, y, c = args
    m = (1 << w) - 1
    if all(type(a) is int for a in args):
        r = x - y - c if sub else x + y + c
        return (r & m, (1 if r < 0 else 0) if sub else r >> w)
    import z3
    if any(z3.is_bv(a) for a in args):
        e = [z3.ZeroExt(1, a if z3.is_bv(a) else z3.BitVecVal(a, w)) for a in args]
        r = e[0] - e[1] - e[2] if sub else e[0] + e[1] + e[2]
        return (z3.Extract(w - 1, 0, r), z3.ZeroExt(w - 1, z3.Extract(w, w, r)))
    if hasattr(ex.dom, "divmod"):
        from .dom_lf import LF
        f = LF.of(x) - LF.of(y) - LF.of(c) if sub else LF.of(x) + LF.of(y) + LF.of(c)
        q, r = ex.dom.divmod(path, f, 1 << w)
        return (ex.dom.out(path, r), ex.dom.out(path, -q if sub else q))
    raise ExecError("bits.%s%d on abstract values" % ("Sub" if sub else "Add", w))


def _poison(c):
    """every scalar leaf of a cell tree becomes indeterminate (stale data of unknown origin)"""
    from .exec import INDET
    if type(c) is list:
        return [_poison(x) for x in c]
    return INDET


def pool_get(ex, path, args):
    """sync.Pool.Get by its documented contract: the result is either New() or an item some earlier call Put there, whose
    contents are unknown - modelled as New() with every cell poisoned (a caller that reads before it writes, or trusts a
    recycled length, ends in a 'use of indeterminate value' error outcome); Put is a no-op"""
    p = args[0]
    t = ex.meta[p.obj].type
    tt = t
    for i in p.path:
        tt = tt.field_type(i) if getattr(tt.u, "k", None) == "struct" else tt
    names = [f["name"] for f in tt.u.fields]
    newf = ex.load(path, Ptr(p.obj, p.path + (names.index("New"),)))
    path.log.append(("pool_get", p.obj, p.path))
    if newf is None:
        return None
    if not isinstance(newf, Closure):
        raise ExecError("Pool.New is not a function value")

    def then(path, caller, vals):
        v = vals[0]
        tgt = v.val if isinstance(v, Iface) else v
        if isinstance(tgt, Ptr):
            cells, idx = ex._walk(path, tgt)
            cells[idx] = _poison(cells[idx])
        ins = caller.fn["blocks"][caller.block]["instrs"][caller.ip]
        caller.env[ins["name"]] = v
    ex.push(path, newf.fn, [], newf.bindings, then, None)
    return _Pushed


def pool_put(ex, path, args):
    """Put hands the item to the pool: from here on it is package-level state that any later Get (in any goroutine) may
    receive and overwrite; the effects checks treat references into it as retained by package state"""
    v = args[1] if len(args) > 1 else None
    tgt = v.val if isinstance(v, Iface) else v
    path.log.append(("pool_put", args[0].obj, args[0].path, tgt.obj if isinstance(tgt, Ptr) else None))
    return None


def errors_new(ex, path, args):
    return Iface("error", ("error", args[0]))


def once_do(ex, path, args):
    o, f = args
    done = path.dstate.setdefault("once_done", {})
    key = (o.obj, o.path)
    path.log.append(("once", o.obj, o.path, key in done))
    if key in done:
        return None
    done[key] = True
    if not isinstance(f, Closure):
        raise ExecError("Once.Do of non-closure")
    fn = ex.prog.fn(f.fn)

    def then(path, caller, vals):
        path.log.append(("once_end", o.obj, o.path))

    # execute f(); its frame returns nothing
    ex.push(path, f.fn, [], f.bindings, then, None)
    path.log.append(("once_begin", o.obj, o.path))
    return _Pushed


class _PushedT:
    pass


_Pushed = _PushedT()
