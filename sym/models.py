"""Models of external functions (no SSA body): math/bits intrinsics, errors.New,
sync.Once.Do, and the default treatment of the assembly-backed feMul/feSquare."""
from .exec import Iface, TailCall, ExecError, Closure, Ptr, wrap

M64 = (1 << 64) - 1


def install(ex):
    ex.summaries["math/bits.Add64"] = add64
    ex.summaries["math/bits.Sub64"] = sub64
    ex.summaries["math/bits.Mul64"] = mul64
    ex.summaries["errors.New"] = errors_new
    ex.summaries["(*sync.Once).Do"] = once_do


def add64(ex, path, args):
    x, y, c = args
    if all(type(a) is int for a in args):
        s = x + y + c
        return (s & M64, s >> 64)
    return ex.dom.add64(path, x, y, c)


def sub64(ex, path, args):
    x, y, b = args
    if all(type(a) is int for a in args):
        d = x - y - b
        return (d & M64, 1 if d < 0 else 0)
    return ex.dom.sub64(path, x, y, b)


def mul64(ex, path, args):
    x, y = args
    if type(x) is int and type(y) is int:
        p = x * y
        return (p >> 64, p & M64)
    return ex.dom.mul64(path, x, y)


def errors_new(ex, path, args):
    return Iface("error", ("error", args[0]))


def once_do(ex, path, args):
    o, f = args
    done = path.dstate.setdefault("once_done", {})
    key = (o.obj, o.path)
    path.log.append(("once", o.obj, o.path, key in done))
    if key in done:
        return None
    done[key] = True
    if not isinstance(f, Closure):
        raise ExecError("Once.Do of non-closure")
    fn = ex.prog.fn(f.fn)

    def then(path, caller, vals):
        path.log.append(("once_end", o.obj, o.path))

    # execute f(); its frame returns nothing
    ex.push(path, f.fn, [], f.bindings, then, None)
    path.log.append(("once_begin", o.obj, o.path))
    return _Pushed


class _PushedT:
    pass


_Pushed = _PushedT()
