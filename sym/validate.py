"""Translator validation: the executor (concrete mode, incl. the amd64 interpreter) is run on seeded random and
boundary inputs and compared with the natively compiled function (driver via go test -overlay)."""
import random
from . import exec as X, dom_bv, native, ref, kernels as K

F, E = K.F, K.E


def _conc_exec(base):
    ex = base.executor(dom_bv.ConcreteDomain())
    return ex


def field_kernels(base, chk, n=40):
    """returns number of (function, input) pairs on which interpreter and native build agree; records mismatches"""
    prog = base.prog
    rng = random.Random(chk.seed + 17)
    ex = _conc_exec(base)
    ET = prog.T(F + "Element")
    cands = ref.limb_candidates(rng, n) + ref.limb_candidates(rng, n // 2, bound=2**52 - 1)
    specs = [("Add", 2), ("Subtract", 2), ("Multiply", 2), ("Square", 1), ("Negate", 1), ("feMulGeneric", 2), ("feSquareGeneric", 1), ("feMul", 2), ("feSquare", 1),
             ("carryPropagate", 0), ("reduce", 0), ("Invert", 1), ("Pow22523", 1), ("Absolute", 1)]
    ops, meta = [], []
    for op, nin in specs:
        reps = n if op not in ("Invert", "Pow22523") else 4
        for i in range(reps):
            a, b = cands[(i * 3) % len(cands)], cands[(i * 7 + 1) % len(cands)]
            if nin == 0:
                ops.append({"op": op, "args": ["a"], "init": {"a": ref.fmt_limbs(a)}})
            elif nin == 1:
                ops.append({"op": op, "args": ["v", "a"], "init": {"v": "7,7,7,7,7", "a": ref.fmt_limbs(a)}})
            else:
                ops.append({"op": op, "args": ["v", "a", "b"], "init": {"v": "7,7,7,7,7", "a": ref.fmt_limbs(a), "b": ref.fmt_limbs(b)}})
            meta.append((op, nin, a, b))
    res = native.run_ops("field", ops)
    ok = 0
    bad = []
    for (op, nin, a, b), r in zip(meta, res):
        path = X.Path()
        path.heap = {k: X.clone_cells(v) for k, v in ex.base_heap.items()}
        pa = X.Ptr(ex.new_obj(path, ET, init=list(a)))
        pb = X.Ptr(ex.new_obj(path, ET, init=list(b)))
        pv = X.Ptr(ex.new_obj(path, ET, init=[7] * 5))
        fname = (F + op) if op.startswith("fe") else prog.find("Element)." + op)
        args = [pa] if nin == 0 else ([pv, pa] if nin == 1 else [pv, pa, pb])
        if fname in ex.summaries and op in ("feMul", "feSquare"):
            ex.summaries[fname](ex, path, args)
            p = path
        else:
            (p,) = ex.call(fname, args, path)
        got = list(p.heap[(pa if nin == 0 else pv).obj][0])
        want = ref.parse_limbs(r["slots"]["a" if nin == 0 else "v"])
        if got == want:
            ok += 1
        else:
            bad.append((op, a, b, got, want))
    if bad:
        chk.note_inconclusive("translator validation: interpreter and native build disagree on %s (engine defect): %s" % (bad[0][0], bad[0][1:]))
    chk.validated += ok
    return ok


def scalar_kernels(base, chk, n=30):
    prog = base.prog
    rng = random.Random(chk.seed + 23)
    ex = _conc_exec(base)
    ST = prog.T(E + "Scalar")
    L = K.L
    vals = [0, 1, L - 1, 2**252, 2**64 - 1, 2**128, 2**192] + [rng.randrange(L) for _ in range(n)]
    w = lambda v: [(v >> (64 * i)) & (2**64 - 1) for i in range(4)]
    ops, meta = [], []
    for op, nin in (("fiatScalarMul", 2), ("fiatScalarAdd", 2), ("fiatScalarSub", 2), ("fiatScalarOpp", 1), ("fiatScalarToMontgomery", 1), ("fiatScalarFromMontgomery", 1)):
        for i in range(n):
            a, b = vals[(i * 3) % len(vals)], vals[(i * 5 + 2) % len(vals)]
            init = {"out": "w:7,7,7,7", "a": "w:" + ",".join(map(str, w(a)))}
            args = ["out", "a"]
            if nin == 2:
                init["b"] = "w:" + ",".join(map(str, w(b)))
                args.append("b")
            ops.append({"op": op, "args": args, "init": init})
            meta.append((op, nin, a, b))
    for i in range(n):
        k = vals[i % len(vals)]
        ops.append({"op": "S.signedRadix16", "args": ["s"], "init": {"s": "w:" + ",".join(map(str, w(k * 2**256 % L)))}})
        meta.append(("signedRadix16", 0, k, 0))
        for wd in (5, 8):
            ops.append({"op": "S.nonAdjacentForm", "args": ["s", str(wd)], "init": {"s": "w:" + ",".join(map(str, w(k * 2**256 % L)))}})
            meta.append(("nonAdjacentForm", wd, k, 0))
    res = native.run_ops("", ops)
    ok, bad = 0, []
    for (op, nin, a, b), r in zip(meta, res):
        path = X.Path()
        path.heap = {k: X.clone_cells(v) for k, v in ex.base_heap.items()}
        if op.startswith("fiat"):
            pa = X.Ptr(ex.new_obj(path, ST, init=[w(a)]))
            pb = X.Ptr(ex.new_obj(path, ST, init=[w(b)]))
            po = X.Ptr(ex.new_obj(path, ST, init=[[7] * 4]))
            f0 = lambda p: X.Ptr(p.obj, (0,))
            args = [f0(po), f0(pa)] + ([f0(pb)] if nin == 2 else [])
            (p,) = ex.call(E + op, args, path)
            got = list(p.heap[po.obj][0][0])
            want = [int(x) for x in r["slots"]["out"][2:].split(",")]
        else:
            ps = X.Ptr(ex.new_obj(path, ST, init=[w(a * 2**256 % L)]))
            if op == "signedRadix16":
                (p,) = ex.call(prog.find("Scalar).signedRadix16"), [ps], path)
            else:
                (p,) = ex.call(prog.find("Scalar).nonAdjacentForm"), [ps, nin], path)
            got = list(p.outcome[1][0])
            want = r["digits"]
        if got == want:
            ok += 1
        else:
            bad.append((op, a, b, got[:4], want[:4]))
    if bad:
        chk.note_inconclusive("translator validation: interpreter and native build disagree on %s (engine defect): %s" % (bad[0][0], bad[0][1:]))
    chk.validated += ok
    return ok
