"""Cross-solver validation (thorough tier): every recorded goal query is re-decided by z3 4.8.12 (/usr/bin/z3)
and cvc5 1.0.3 from its SMT-LIB2 text.  A definite disagreement makes the check inconclusive."""
import os, subprocess, tempfile, time

ENABLED = os.environ.get("VERIF_TIER", "quick") == "thorough" or os.environ.get("VERIF_XSOLVE") == "1"
TIMEOUT = int(os.environ.get("VERIF_XSOLVE_TIMEOUT", "60"))
stats = {"queries": 0, "z3-4.8.12": {}, "cvc5": {}, "disagreements": []}


def run(cmd, text, timeout):
    try:
        r = subprocess.run(cmd, input=text, capture_output=True, text=True, timeout=timeout + 5)
        out = r.stdout.strip().splitlines()
        if any("(error" in l for l in out) or "(error" in r.stderr:
            return "error"
        for l in out:
            if l.strip() in ("sat", "unsat", "unknown"):
                return l.strip()
        return "unknown"
    except subprocess.TimeoutExpired:
        return "timeout"


def cross(solver, name, expect):
    """solver: z3.Solver holding the asserted query (before/after check).  expect: z3's own verdict string"""
    if not ENABLED:
        return None
    text = solver.to_smt2()
    if "(check-sat)" not in text:
        text += "\n(check-sat)\n"
    stats["queries"] += 1
    res = {}
    res["z3-4.8.12"] = run(["/usr/bin/z3", "-in", "-T:%d" % TIMEOUT], text, TIMEOUT)
    res["cvc5"] = run(["cvc5", "--lang", "smt2", "--tlimit=%d" % (TIMEOUT * 1000)], text, TIMEOUT)
    for k, v in res.items():
        stats[k][v] = stats[k].get(v, 0) + 1
        if v in ("sat", "unsat") and expect in ("sat", "unsat") and v != expect:
            stats["disagreements"].append((name, k, v, expect))
    return res
