"""Algebraic witness search for replays: when a path of the real code has established some polynomial equalities over
the coordinates of its (valid) input point - through Element.Equal tests that came out true - and the obligation on that
path fails, the inputs on which the path fires are the *representations* (l*x : l*y : l : l*x*y) of valid points that
satisfy those equalities.  Each equality becomes a univariate polynomial in the scaling factor l; its roots mod p are
computed exactly (gcd with x^p - x, equal-degree splitting).  The search is untrusted: witnesses are only candidates for
the native replay."""
from . import ref, ptreplay
from .poly import Poly


def _pmod(a, P):
    while a and a[-1] % P == 0:
        a.pop()
    return [c % P for c in a]


def _pdivmod(a, b, P):
    a = list(a)
    q = [0] * max(0, len(a) - len(b) + 1)
    ib = pow(b[-1], P - 2, P)
    while len(a) >= len(b) and a:
        c = a[-1] * ib % P
        sh = len(a) - len(b)
        q[sh] = c
        for i, bc in enumerate(b):
            a[sh + i] = (a[sh + i] - c * bc) % P
        a = _pmod(a, P)
    return q, a


def _pmul(a, b, P, f=None):
    r = [0] * (len(a) + len(b) - 1) if a and b else []
    for i, x in enumerate(a):
        if x:
            for j, y in enumerate(b):
                r[i + j] = (r[i + j] + x * y) % P
    r = _pmod(r, P)
    if f is not None and len(r) >= len(f):
        r = _pdivmod(r, f, P)[1]
    return r


def _pgcd(a, b, P):
    while b:
        a, b = b, _pdivmod(a, b, P)[1]
    return a


def _ppow(base, e, f, P):
    r = [1]
    while e:
        if e & 1:
            r = _pmul(r, base, P, f)
        base = _pmul(base, base, P, f)
        e >>= 1
    return r


def roots_mod_p(coeffs, rng):
    """all roots in GF(p) of the polynomial sum coeffs[i]*x^i (small degree): gcd with x^p - x, then equal-degree splitting"""
    P = ref.P
    f = _pmod(list(coeffs), P)
    if len(f) <= 1:
        return []
    xp = _ppow([0, 1], P, f, P)
    g = list(xp) + [0] * max(0, 2 - len(xp))
    g[1] = (g[1] - 1) % P
    g = _pgcd(f, _pmod(g, P), P)
    out = []

    def split(h):
        h = _pmod(list(h), P)
        if len(h) <= 1:
            return
        if len(h) == 2:
            out.append((-h[0]) * pow(h[1], P - 2, P) % P)
            return
        for _ in range(60):
            a = rng.randrange(P)
            t = _ppow([a, 1], (P - 1) // 2, h, P)
            t = list(t) + [0] * max(0, 1 - len(t))
            t[0] = (t[0] - 1) % P
            d = _pgcd(h, _pmod(t, P), P)
            if 1 < len(d) < len(h):
                split(d)
                split(_pdivmod(h, d, P)[0])
                return
    split(g)
    return sorted(set(out))


def scaling_witnesses(polys, dval, seed, names=("X", "Y", "Z", "T"), points=None):
    """VALID quadruples (l*x, l*y, l, l*x*y) of bank points that satisfy all `polys` (the tests a path performs): every
    polynomial becomes univariate in the scaling factor l; its non-zero roots common to all tests are the witnesses.
    These are the representations on which a path that wrongly rejects (or wrongly accepts) fires."""
    import random
    from sym.poly import var_index
    rng = random.Random(seed)
    P = ref.P
    out = []
    lam = Poly.var("lam")
    li = var_index("lam")
    pts = list(points) if points is not None else [q for q in ptreplay.bank(rng, 6) if q[0] * q[1] % P != 0][:6] + [(0, 1), (0, P - 1)]
    for (x, y) in pts:
        sub = {names[0]: lam * (x % P), names[1]: lam * (y % P), names[2]: lam, names[3]: lam * (x * y % P), "d": Poly.const(dval)}
        cands = None
        for g in polys:
            q = g.subs(sub)
            co = {}
            ok = True
            for m, c in q.t.items():
                e = 0
                for v_, ex_ in m:
                    if v_ == li:
                        e = ex_
                    else:
                        ok = False
                co[e] = (co.get(e, 0) + c) % P
            if not ok:
                cands = set()
                break
            cf = [co.get(i, 0) for i in range(max(co) + 1)] if co else []
            if not any(cf):
                continue     # vanishes identically on valid points
            rs = set(r for r in roots_mod_p(cf, rng) if r)
            cands = rs if cands is None else cands & rs
        for l in sorted(cands or []):
            out.append((l * x % P, l * y % P, l, l * x * y % P))
    return out




def pair_witnesses(polys, dval, seed, names1=("X1", "Y1", "Z1", "T1"), names2=("X2", "Y2", "Z2", "T2"), points=None, limit=24):
    """pairs of DISTINCT valid points (affine) on which a polynomial that a comparison path tests vanishes: the first point is
    taken from the bank, the second is the unknown (x, y) on the curve.  With x^2 = N/D (N = y^2 - 1, D = d*y^2 + 1) every
    tested polynomial g(x, y) becomes A(y) + x*B(y) (after clearing D); a common zero with the curve has A^2*D - B^2*N = 0,
    a univariate polynomial whose roots in GF(p) are computed exactly; x follows from -A/B (or from the curve when B = 0).
    These are the pairs on which a comparison that tests the wrong quantity answers 'equal' for different points."""
    import random
    from sym.poly import var_index
    rng = random.Random(seed)
    P = ref.P
    xi, yi = var_index("wx"), var_index("wy")
    wx, wy = Poly.var("wx"), Poly.var("wy")
    pts = list(points) if points is not None else [q for q in ptreplay.bank(rng, 8)][:12]
    N = [P - 1, 0, 1]
    D = [1, 0, dval % P]

    def ppow(a, e):
        r = [1]
        for _ in range(e):
            r = _pmul(r, a, P)
        return r

    def padd(a, b):
        n = max(len(a), len(b))
        return _pmod([((a[i] if i < len(a) else 0) + (b[i] if i < len(b) else 0)) % P for i in range(n)], P)

    def peval(a, v):
        t = 0
        for c in reversed(a):
            t = (t * v + c) % P
        return t
    out = []
    for (x1, y1) in pts:
        sub = {names1[0]: Poly.const(x1 % P), names1[1]: Poly.const(y1 % P), names1[2]: Poly.const(1), names1[3]: Poly.const(x1 * y1 % P),
               names2[0]: wx, names2[1]: wy, names2[2]: Poly.const(1), names2[3]: wx * wy, "d": Poly.const(dval % P)}
        for g in polys:
            q = g.subs(sub)
            byx = {}
            ok = True
            for m, c in q.t.items():
                ex_, ey_ = 0, 0
                for v_, e_ in m:
                    if v_ == xi:
                        ex_ = e_
                    elif v_ == yi:
                        ey_ = e_
                    else:
                        ok = False
                co = byx.setdefault(ex_, {})
                co[ey_] = (co.get(ey_, 0) + c) % P
            if not ok or not byx:
                continue
            M = max(byx) // 2 + 1
            A, B = [0], [0]
            for j, co in byx.items():
                gj = [co.get(i, 0) for i in range(max(co) + 1)]
                term = _pmul(_pmul(gj, ppow(N, j // 2), P), ppow(D, M - j // 2), P)
                if j % 2 == 0:
                    A = padd(A, term)
                else:
                    B = padd(B, term)
            R = padd(_pmul(_pmul(A, A, P), D, P), [(-c) % P for c in _pmul(_pmul(B, B, P), N, P)])
            R = _pmod(R, P)
            if len(R) <= 1 or len(R) > 40:
                continue
            for y0 in roots_mod_p(R, rng):
                b0, a0 = peval(B, y0), peval(A, y0)
                d0 = peval(D, y0)
                if d0 == 0:
                    continue
                cands = []
                if b0:
                    cands.append((-a0) * pow(b0, P - 2, P) % P)
                else:
                    r2 = peval(N, y0) * pow(d0, P - 2, P) % P
                    s = ref.sqrt(r2)
                    if s is not None:
                        cands += [s, (-s) % P]
                for x0 in cands:
                    if ref.ed_on_curve((x0, y0)) and (x0, y0) != (x1 % P, y1 % P) and q.eval_mod({"wx": x0, "wy": y0}, P) == 0:
                        out.append(((x1 % P, y1 % P), (x0, y0)))
                        if len(out) >= limit:
                            return out
    return out
