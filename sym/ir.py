"""Loader for the SSA JSON produced by /verif/bin/ssa2json."""
import json, os, subprocess, hashlib

VERIF = os.path.dirname(os.path.dirname(os.path.abspath(__file__)))
REPO = os.environ.get("VERIF_REPO", "/repo")

INT_INFO = {
    "int": (64, True), "int8": (8, True), "int16": (16, True), "int32": (32, True), "int64": (64, True),
    "uint": (64, False), "uint8": (8, False), "uint16": (16, False), "uint32": (32, False),
    "uint64": (64, False), "uintptr": (64, False), "byte": (8, False), "rune": (32, True),
    "untyped int": (64, True), "untyped rune": (32, True),
}


class Type:
    __slots__ = ("id", "k", "name", "under_id", "elem_id", "fields", "len", "elems", "tab")

    def __init__(self, tid, d, tab):
        self.id = tid
        self.k = d["k"]
        self.name = d.get("name")
        self.under_id = d.get("under")
        self.elem_id = d.get("elem")
        self.fields = d.get("fields")
        self.len = d.get("len")
        self.elems = d.get("elems")
        self.tab = tab

    @property
    def u(self):
        """underlying type (strip named)"""
        t = self
        while t.k == "named":
            t = self.tab[t.under_id]
        return t

    @property
    def elem(self):
        return self.tab[self.u.elem_id]

    def field_type(self, i):
        return self.tab[self.u.fields[i]["type"]]

    def is_int(self):
        u = self.u
        return u.k == "basic" and u.name in INT_INFO

    def is_bool(self):
        u = self.u
        return u.k == "basic" and u.name in ("bool", "untyped bool")

    def int_info(self):
        return INT_INFO[self.u.name]

    def __repr__(self):
        return "T<%s>" % self.id


class Program:
    def __init__(self, doc):
        self.doc = doc
        self.types = {}
        for tid, d in doc["types"].items():
            self.types[tid] = Type(tid, d, self.types)
        self.funcs = {f["name"]: f for f in doc["funcs"]}
        self.packages = {p["path"]: p for p in doc["packages"]}
        self.globals = {}
        for p in doc["packages"]:
            for g in p["globals"]:
                self.globals[g["name"]] = g
        for f in doc["funcs"]:
            if f.get("external"):
                continue
            for b in f["blocks"]:
                for ins in b["instrs"]:
                    ins["_fn"] = f["name"]

    def T(self, tid):
        return self.types[tid]

    def fn(self, name):
        return self.funcs[name]

    def find(self, short):
        """find function by suffix, e.g. 'Point).Add' or 'field.feMulGeneric'"""
        c = [n for n in self.funcs if n.endswith(short)]
        if len(c) != 1:
            raise KeyError("%s: %d candidates %s" % (short, len(c), c[:5]))
        return c[0]

    def ipdom(self, fname):
        """immediate post-dominators of the blocks of fname: dict block -> block (or -1 for exit)"""
        c = self.__dict__.setdefault("_ipdom", {})
        if fname in c:
            return c[fname]
        blocks = self.funcs[fname]["blocks"]
        n = len(blocks)
        EXIT = n
        succ = {b["index"]: (list(b["succs"]) or [EXIT]) for b in blocks}
        succ[EXIT] = []
        nodes = list(range(n + 1))
        full = set(nodes)
        pd = {v: set(full) for v in nodes}
        pd[EXIT] = {EXIT}
        changed = True
        while changed:
            changed = False
            for v in range(n - 1, -1, -1):
                ss = succ[v]
                new = set.intersection(*[pd[x] for x in ss]) | {v}
                if new != pd[v]:
                    pd[v] = new
                    changed = True
        res = {}
        for v in range(n):
            cands = pd[v] - {v}
            # immediate: the candidate that is post-dominated by all other candidates
            ip = None
            for x in cands:
                if all((y in pd[x]) for y in cands):
                    ip = x
                    break
            res[v] = -1 if ip is None or ip == EXIT else ip
        c[fname] = res
        return res

    def source_hash(self):
        h = hashlib.sha256()
        for p in self.doc["packages"]:
            for f in p["files"]:
                h.update(f["sha256"].encode())
        return h.hexdigest()[:16]


_cache = {}


def load(tags="", repo=None, workdir=None, goarch=""):
    """(Re)generate the SSA dump from the repo working tree and load it."""
    repo = repo or REPO
    key = (tags, repo, goarch)
    if key in _cache:
        return _cache[key]
    workdir = workdir or os.environ.get("VERIF_WORK") or os.path.join(VERIF, "work")
    os.makedirs(workdir, exist_ok=True)
    out = os.path.join(workdir, "ssa_%s%s_%d.json" % (tags or "default", goarch, os.getpid()))
    env = dict(os.environ, GOFLAGS="-mod=mod", GOPROXY="off", GOSUMDB="off", GOTOOLCHAIN="local")
    if goarch:
        env["GOARCH"] = goarch
    cmd = [os.path.join(VERIF, "bin", "ssa2json"), "-dir", repo, "-o", out]
    if tags:
        cmd += ["-tags", tags]
    r = subprocess.run(cmd, env=env, capture_output=True, text=True)
    if r.returncode != 0:
        raise RuntimeError("ssa2json failed: " + r.stderr)
    with open(out) as f:
        doc = json.load(f)
    os.unlink(out)
    p = Program(doc)
    _cache[key] = p
    return p
