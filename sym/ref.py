"""Independent reference semantics (Python big integers) used as the oracle when a solver
counterexample is replayed against the real compiled package."""
import random

P = 2**255 - 19
L = 2**252 + 27742317777372353535851937790883648493
B = 2**51 + 2**38
D = (-121665 * pow(121666, P - 2, P)) % P
SQRT_M1 = pow(2, (P - 1) // 4, P)


def fe_val(limbs):
    return sum(int(l) << (51 * i) for i, l in enumerate(limbs))


def limbs_of(v):
    """the canonical (fully reduced, 51-bit) limb vector of v mod p"""
    v %= P
    return [(v >> (51 * i)) & (2**51 - 1) for i in range(5)]


def parse_limbs(s):
    return [int(x) for x in s.split(",")]


def fmt_limbs(l):
    return ",".join(str(int(x)) for x in l)


def inv(x, m=P):
    return pow(x % m, m - 2, m)


def is_square(x):
    x %= P
    return x == 0 or pow(x, (P - 1) // 2, P) == 1


def sqrt(x):
    """a square root of x mod p, or None"""
    x %= P
    r = pow(x, (P + 3) // 8, P)
    if (r * r - x) % P == 0:
        return r
    r = r * SQRT_M1 % P
    if (r * r - x) % P == 0:
        return r
    return None


def limb_candidates(rng, n, bound=B, extra=()):
    """structured limb vectors: corners, near-boundary values, random"""
    specials = [0, 1, 2**51 - 1, 2**51, 2**51 + 1, bound, bound - 1, 2**51 - 19, 2**51 - 18, 2**50, 19, 18]
    specials = [s for s in specials if 0 <= s <= bound]
    out = [[bound] * 5, [0] * 5, [2**51 - 1] * 5, [2**51 - 19] + [2**51 - 1] * 4, [2**51 - 20] + [2**51 - 1] * 4]
    out += list(extra)
    while len(out) < n:
        mode = rng.randrange(3)
        if mode == 0:
            out.append([rng.choice(specials) for _ in range(5)])
        elif mode == 1:
            out.append([rng.randrange(bound + 1) for _ in range(5)])
        else:
            out.append([min(bound, max(0, rng.choice(specials) + rng.randrange(-3, 4))) for _ in range(5)])
    return out


# ---- Edwards curve reference (affine, math on ints mod p)
def ed_add(p1, p2):
    x1, y1 = p1
    x2, y2 = p2
    den = D * x1 * x2 * y1 * y2 % P
    x3 = (x1 * y2 + y1 * x2) * inv(1 + den) % P
    y3 = (y1 * y2 + x1 * x2) * inv(1 - den) % P
    return (x3, y3)


def ed_neg(p1):
    return ((-p1[0]) % P, p1[1])


def ed_mul(k, p1):
    r = (0, 1)
    q = p1
    while k > 0:
        if k & 1:
            r = ed_add(r, q)
        q = ed_add(q, q)
        k >>= 1
    return r


def ed_on_curve(pt):
    x, y = pt
    return (-x * x + y * y - 1 - D * x * x * y * y) % P == 0


def ed_decode(b):
    """RFC 8032 decoding with the library's documented laxness (non-canonical y, x=0 with sign bit)"""
    if len(b) != 32:
        return None
    y = int.from_bytes(b, "little")
    sign = y >> 255
    y &= (1 << 255) - 1
    y %= P
    u = (y * y - 1) % P
    v = (D * y * y + 1) % P
    x2 = u * inv(v) % P
    x = sqrt(x2)
    if x is None:
        return None
    if x & 1 != sign:
        x = (-x) % P
    return (x, y)


def ed_encode(pt):
    x, y = pt
    return (y | ((x & 1) << 255)).to_bytes(32, "little")


BASE = ed_decode(bytes([0x58] + [0x66] * 31))


def small_order_points():
    """the eight points of order dividing 8"""
    pts = [(0, 1), (0, P - 1)]
    s = sqrt(P - 1)
    pts += [(s, 0), ((-s) % P, 0)]
    # order 8: x^2 = y^2 ... solve from doubling: points with y^2 = x^2 * ... use known encoding
    t = ed_decode(bytes.fromhex("26e8958fc2b227b045c3f489f2ef98f0d5dfac05d3c63339b13802886d53fc05"))
    if t is not None:
        for k in (1, 3, 5, 7):
            pts.append(ed_mul(k, t))
    return pts


def limb_combinations(rng, per=2):
    """values whose 51-bit limbs are drawn from a tiny alphabet {0, r, all-ones} (every combination): inputs on which
    mistakes in limb folds / comparisons (a `^` for a `|`, a dropped limb, two limbs compared with each other) show, which
    no random value and no single-limb pattern reaches"""
    M = 2**51 - 1
    out = []
    for _ in range(per):
        r = rng.randrange(1, 2**51)
        alpha = (0, r, M)
        for code in range(3**5):
            ls = []
            c = code
            for _i in range(5):
                ls.append(alpha[c % 3])
                c //= 3
            out.append(fe_val(ls) % P)
    return sorted(set(out))


def chain_preimages(rng, limit=400):
    """inputs z whose early chain values (z itself, z^2) have combinatorial limb patterns: z = t and z = sqrt(t)"""
    out = []
    for t in limb_combinations(rng, 1):
        out.append(t)
        r = sqrt(t)
        if r is not None:
            out.append(r)
            out.append(P - r)
    rng.shuffle(out)
    return out[:limit]
