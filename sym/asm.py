"""Translator/interpreter for the amd64 subset used by field/fe_amd64.s.

The file is parsed on every run from the working tree; instructions execute on the
same value domain as the SSA executor (so the assembly is checked with the same
encodings as the portable Go code).  Anything outside the subset raises
AsmUnsupported, which makes the check inconclusive rather than green."""
import os, re
from .exec import Ptr, ExecError

REGS = {"AX", "BX", "CX", "DX", "SI", "DI", "BP", "R8", "R9", "R10", "R11", "R12", "R13", "R14", "R15"}


class AsmUnsupported(ExecError):
    pass


def parse(path):
    funcs = {}
    cur = None
    for raw in open(path):
        line = raw.split("//")[0].strip()
        if not line or line.startswith("#include"):
            continue
        if line.startswith("#") or line.endswith("\\"):
            # macro definitions are not expanded: a function that uses one meets an unknown mnemonic and is unsupported
            continue
        ml = re.match(r"^(\w+):$", line)
        if ml and cur is not None:
            cur["labels"][ml.group(1)] = len(cur["ins"])
            continue
        m = re.match(r"TEXT\s+·(\w+)\(SB\)\s*,\s*([\w|]+)\s*,\s*\$(\d+)-(\d+)", line)
        if m:
            cur = {"name": m.group(1), "flags": m.group(2), "frame": int(m.group(3)), "argsize": int(m.group(4)), "ins": [], "labels": {}}
            funcs[cur["name"]] = cur
            continue
        if cur is None:
            continue      # macro bodies etc. before the first TEXT: a routine that uses them meets an unknown mnemonic when run
        parts = line.split(None, 1)
        mn = parts[0]
        ops = [o.strip() for o in parts[1].split(",")] if len(parts) > 1 else []
        cur["ins"].append((mn, ops, raw.strip()))
    return funcs


STRAIGHT = ("MOVQ", "MULQ", "IMUL3Q", "ADDQ", "ADCQ", "SHLQ", "SHRQ", "ANDQ", "RET", "SUBQ", "SBBQ", "XORQ", "ORQ", "NOTQ", "NEGQ", "DECQ", "INCQ", "CMPQ")
JUMPS = ("JNZ", "JNE", "JZ", "JE", "JMP")


def static_checks(fn, int_args=()):
    """constant-time / memory-safety shape: no calls; memory operands are constant offsets from registers that hold
    pointer arguments; a conditional jump is allowed only when the flags it tests were set by DECQ/INCQ/SUBQ $imm/CMPQ $imm
    on a register that holds nothing but an integer argument (a public loop count) and constants"""
    problems = []
    ptr_regs, cnt_regs = set(), set()
    flags_public = False
    for mn, ops, raw in fn["ins"]:
        if mn in JUMPS:
            if mn != "JMP" and not flags_public:
                problems.append("conditional jump on flags not derived from an integer argument: " + raw)
            if not ops or ops[0] not in fn.get("labels", {}):
                problems.append("jump target: " + raw)
            continue
        if mn not in STRAIGHT:
            problems.append("mnemonic outside the supported subset: " + raw)
            continue
        for i, o in enumerate(ops):
            m = re.match(r"^(-?\d*)\((\w+)\)$", o)
            if m:
                if m.group(2) not in ptr_regs:
                    problems.append("memory operand through a non-argument register: " + raw)
            elif re.match(r"^\w+\+\d+\(FP\)$", o):
                pass
            elif o.startswith("$") or o in REGS:
                pass
            else:
                problems.append("operand form: " + raw)
        mfp = re.match(r"^(\w+)\+\d+\(FP\)$", ops[0]) if ops else None
        if mn == "MOVQ" and mfp:
            # loaded from FP: a pointer argument, or an integer argument (a public count)
            (cnt_regs if mfp.group(1) in int_args else ptr_regs).add(ops[1])
            (ptr_regs if mfp.group(1) in int_args else cnt_regs).discard(ops[1])
        elif mn == "MOVQ" and ops[0] in ptr_regs and ops[1] in REGS:
            ptr_regs.add(ops[1])       # copy of a pointer argument
            cnt_regs.discard(ops[1])
        elif mn in ("DECQ", "INCQ") and ops[0] in cnt_regs:
            flags_public = True
            continue
        elif mn in ("SUBQ", "CMPQ") and ops[0].startswith("$") and ops[1] in cnt_regs:
            flags_public = True
            continue
        elif ops:
            dst = ops[-1]
            if mn not in ("RET", "CMPQ"):
                ptr_regs.discard(dst)
                cnt_regs.discard(dst)
            if mn == "MULQ":
                for r_ in ("AX", "DX"):
                    ptr_regs.discard(r_)
                    cnt_regs.discard(r_)
        if mn != "MOVQ":
            flags_public = False
    return problems


class AsmMachine:
    def __init__(self, ex, path, fn, args, argnames):
        self.ex, self.path, self.fn = ex, path, fn
        self.regs = {}
        self.cf = 0
        self.zf = None      # the value whose being zero the Z flag reports (None: undefined)
        self.args = dict(zip(argnames, args))
        self.u64 = ex.prog.T("uint64")

    def rd(self, o):
        ex = self.ex
        if o.startswith("$"):
            return int(o[1:], 0)
        if o in REGS:
            if o not in self.regs:
                raise AsmUnsupported("read of undefined register " + o)
            return self.regs[o]
        m = re.match(r"^(\w+)\+(\d+)\(FP\)$", o)
        if m:
            return self.args[m.group(1)]
        m = re.match(r"^(-?\d*)\((\w+)\)$", o)
        if m:
            off = int(m.group(1) or "0")
            base = self.regs[m.group(2)]
            if not isinstance(base, Ptr) or off % 8 or not (0 <= off < 64):
                raise AsmUnsupported("memory operand " + o)
            return ex.load(self.path, Ptr(base.obj, base.path + (off // 8,)), self.u64)
        raise AsmUnsupported("operand " + o)

    def wr(self, o, v):
        if o in REGS:
            self.regs[o] = v
            return
        m = re.match(r"^(-?\d*)\((\w+)\)$", o)
        if m:
            off = int(m.group(1) or "0")
            base = self.regs[m.group(2)]
            if not isinstance(base, Ptr) or off % 8 or not (0 <= off < 64):
                raise AsmUnsupported("memory operand " + o)
            if isinstance(v, Ptr):
                raise AsmUnsupported("pointer stored to memory")
            self.ex.store(self.path, Ptr(base.obj, base.path + (off // 8,)), v)
            return
        raise AsmUnsupported("destination " + o)

    def bin(self, op, x, y):
        if isinstance(x, Ptr) or isinstance(y, Ptr):
            raise AsmUnsupported("arithmetic on pointer")
        return self.ex.binop(self.path, op, x, y, self.u64, self.u64, self.u64)

    def concrete(self, v, raw):
        if type(v) is int:
            return v
        if hasattr(v, "is_const") and v.is_const():        # Int-LF constant
            return int(v.c)
        try:
            import z3
            if z3.is_bv_value(v):
                return v.as_long()
        except Exception:
            pass
        raise AsmUnsupported("jump on a symbolic condition: " + raw)

    def run(self):
        ex = self.ex
        m = ex.summaries
        ins, labels = self.fn["ins"], self.fn.get("labels", {})
        pc, steps = 0, 0
        M64 = (1 << 64) - 1
        while pc < len(ins):
            mn, ops, raw = ins[pc]
            pc += 1
            steps += 1
            if steps > 200000:
                raise AsmUnsupported("step limit in " + self.fn["name"])
            if mn == "MOVQ":
                self.wr(ops[1], self.rd(ops[0]))
            elif mn == "MULQ":
                hi, lo = m["math/bits.Mul64"](ex, self.path, [self.rd("AX"), self.rd(ops[0])])
                self.regs["AX"], self.regs["DX"] = lo, hi
            elif mn == "IMUL3Q":
                self.wr(ops[2], self.bin("*", self.rd(ops[1]), self.rd(ops[0])))
            elif mn == "ADDQ":
                s, c = m["math/bits.Add64"](ex, self.path, [self.rd(ops[1]), self.rd(ops[0]), 0])
                self.wr(ops[1], s)
                self.cf, self.zf = c, s
            elif mn == "ADCQ":
                s, c = m["math/bits.Add64"](ex, self.path, [self.rd(ops[1]), self.rd(ops[0]), self.cf])
                self.wr(ops[1], s)
                self.cf, self.zf = c, s
            elif mn in ("SUBQ", "CMPQ"):
                # Go operand order: SUBQ src, dst (dst -= src); CMPQ a, b compares a with b (flags of a - b)
                a, b = (self.rd(ops[1]), self.rd(ops[0])) if mn == "SUBQ" else (self.rd(ops[0]), self.rd(ops[1]))
                d, bo = m["math/bits.Sub64"](ex, self.path, [a, b, 0])
                if mn == "SUBQ":
                    self.wr(ops[1], d)
                self.cf, self.zf = bo, d
            elif mn == "SBBQ":
                d, bo = m["math/bits.Sub64"](ex, self.path, [self.rd(ops[1]), self.rd(ops[0]), self.cf])
                self.wr(ops[1], d)
                self.cf, self.zf = bo, d
            elif mn in ("DECQ", "INCQ"):
                v = self.bin("-" if mn == "DECQ" else "+", self.rd(ops[0]), 1)
                self.wr(ops[0], v)
                self.zf = v         # CF is not affected
            elif mn == "SHLQ":
                k = self.rd(ops[0])
                if type(k) is not int:
                    raise AsmUnsupported(raw)
                if len(ops) == 3:
                    lo, hi = self.rd(ops[1]), self.rd(ops[2])
                    r = self.bin("|", self.bin("<<", hi, k), self.bin(">>", lo, 64 - k))
                    self.wr(ops[2], r)
                else:
                    self.wr(ops[1], self.bin("<<", self.rd(ops[1]), k))
                self.cf = self.zf = None
            elif mn == "SHRQ":
                k = self.rd(ops[0])
                if type(k) is not int or len(ops) != 2:
                    raise AsmUnsupported(raw)
                self.wr(ops[1], self.bin(">>", self.rd(ops[1]), k))
                self.cf = self.zf = None
            elif mn in ("ANDQ", "ORQ", "XORQ"):
                r = 0 if (mn == "XORQ" and ops[0] == ops[1]) else self.bin({"ANDQ": "&", "ORQ": "|", "XORQ": "^"}[mn], self.rd(ops[1]), self.rd(ops[0]))
                self.wr(ops[1], r)
                self.cf, self.zf = 0, r
            elif mn == "NOTQ":
                self.wr(ops[0], self.bin("^", self.rd(ops[0]), M64))
            elif mn == "NEGQ":
                d, bo = m["math/bits.Sub64"](ex, self.path, [0, self.rd(ops[0]), 0])
                self.wr(ops[0], d)
                self.cf, self.zf = bo, d
            elif mn in JUMPS:
                if ops[0] not in labels:
                    raise AsmUnsupported("jump target " + raw)
                if mn == "JMP":
                    pc = labels[ops[0]]
                else:
                    if self.zf is None:
                        raise AsmUnsupported("jump on undefined flags: " + raw)
                    z = self.concrete(self.zf, raw) == 0
                    if z == (mn in ("JZ", "JE")):
                        pc = labels[ops[0]]
            elif mn == "RET":
                return
            else:
                raise AsmUnsupported("mnemonic " + raw)
        raise AsmUnsupported("fell off the end of " + self.fn["name"])


_parsed = {}


def install(ex, repo=None):
    """route every body-less function that has a TEXT symbol in an amd64 assembly file of the two packages to the
    assembly interpreter (feMul / feSquare today; a new assembly routine is picked up from its Go declaration)"""
    from .ir import REPO
    import glob
    root = repo or REPO
    funcs = {}
    for pkg, d in (("filippo.io/edwards25519/field.", os.path.join(root, "field")), ("filippo.io/edwards25519.", root)):
        for path in sorted(glob.glob(os.path.join(d, "*_amd64.s"))):
            for name, fn in parse(path).items():
                decl = ex.prog.funcs.get(pkg + name)
                if decl is None or not decl.get("external"):
                    continue
                fn["go_name"] = pkg + name
                fn["argnames"] = [p["name"] for p in decl["params"]]
                fn["int_args"] = [p["name"] for p in decl["params"] if ex.prog.T(p["type"]).u.k == "basic"]
                funcs[name] = fn
    for name in ("feMul", "feSquare"):
        if name not in funcs:
            raise AsmUnsupported("missing TEXT " + name)
    for name, fn in funcs.items():
        def summ(ex_, p, args, fn=fn):
            AsmMachine(ex_, p, fn, args, fn["argnames"]).run()
            return None
        ex.summaries[fn["go_name"]] = summ
    return funcs
