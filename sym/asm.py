"""Translator/interpreter for the amd64 subset used by field/fe_amd64.s.

The file is parsed on every run from the working tree; instructions execute on the
same value domain as the SSA executor (so the assembly is checked with the same
encodings as the portable Go code).  Anything outside the subset raises
AsmUnsupported, which makes the check inconclusive rather than green."""
import os, re
from .exec import Ptr, ExecError

REGS = {"AX", "BX", "CX", "DX", "SI", "DI", "BP", "R8", "R9", "R10", "R11", "R12", "R13", "R14", "R15"}


class AsmUnsupported(ExecError):
    pass


def parse(path):
    funcs = {}
    cur = None
    for raw in open(path):
        line = raw.split("//")[0].strip()
        if not line or line.startswith("#"):
            continue
        m = re.match(r"TEXT\s+·(\w+)\(SB\)\s*,\s*([\w|]+)\s*,\s*\$(\d+)-(\d+)", line)
        if m:
            cur = {"name": m.group(1), "flags": m.group(2), "frame": int(m.group(3)), "argsize": int(m.group(4)), "ins": []}
            funcs[cur["name"]] = cur
            continue
        if cur is None:
            raise AsmUnsupported("instruction outside TEXT: " + line)
        parts = line.split(None, 1)
        mn = parts[0]
        ops = [o.strip() for o in parts[1].split(",")] if len(parts) > 1 else []
        cur["ins"].append((mn, ops, raw.strip()))
    return funcs


def static_checks(fn):
    """constant-time / memory-safety shape: no jumps or calls, memory operands are constant
    offsets from registers loaded from pointer arguments only"""
    problems = []
    ptr_regs = set()
    for mn, ops, raw in fn["ins"]:
        if mn not in ("MOVQ", "MULQ", "IMUL3Q", "ADDQ", "ADCQ", "SHLQ", "SHRQ", "ANDQ", "RET"):
            problems.append("mnemonic outside the straight-line subset: " + raw)
            continue
        for i, o in enumerate(ops):
            m = re.match(r"^(-?\d*)\((\w+)\)$", o)
            if m:
                if m.group(2) not in ptr_regs:
                    problems.append("memory operand through a non-argument register: " + raw)
            elif re.match(r"^\w+\+\d+\(FP\)$", o):
                pass
            elif o.startswith("$") or o in REGS:
                pass
            else:
                problems.append("operand form: " + raw)
        # track pointer registers: loaded from FP, never overwritten by data
        if mn == "MOVQ" and re.match(r"^\w+\+\d+\(FP\)$", ops[0]):
            ptr_regs.add(ops[1])
        elif ops:
            dst = ops[-1]
            if dst in ptr_regs and mn != "RET":
                # pointer register overwritten with data: later memory operands through it are flagged
                ptr_regs.discard(dst)
            if mn == "MULQ":
                ptr_regs.discard("AX")
                ptr_regs.discard("DX")
    return problems


class AsmMachine:
    def __init__(self, ex, path, fn, args, argnames):
        self.ex, self.path, self.fn = ex, path, fn
        self.regs = {}
        self.cf = 0
        self.args = dict(zip(argnames, args))
        self.u64 = ex.prog.T("uint64")

    def rd(self, o):
        ex = self.ex
        if o.startswith("$"):
            return int(o[1:], 0)
        if o in REGS:
            if o not in self.regs:
                raise AsmUnsupported("read of undefined register " + o)
            return self.regs[o]
        m = re.match(r"^(\w+)\+(\d+)\(FP\)$", o)
        if m:
            return self.args[m.group(1)]
        m = re.match(r"^(-?\d*)\((\w+)\)$", o)
        if m:
            off = int(m.group(1) or "0")
            base = self.regs[m.group(2)]
            if not isinstance(base, Ptr) or off % 8 or not (0 <= off < 40):
                raise AsmUnsupported("memory operand " + o)
            return ex.load(self.path, Ptr(base.obj, base.path + (off // 8,)), self.u64)
        raise AsmUnsupported("operand " + o)

    def wr(self, o, v):
        if o in REGS:
            self.regs[o] = v
            return
        m = re.match(r"^(-?\d*)\((\w+)\)$", o)
        if m:
            off = int(m.group(1) or "0")
            base = self.regs[m.group(2)]
            if not isinstance(base, Ptr) or off % 8 or not (0 <= off < 40):
                raise AsmUnsupported("memory operand " + o)
            if isinstance(v, Ptr):
                raise AsmUnsupported("pointer stored to memory")
            self.ex.store(self.path, Ptr(base.obj, base.path + (off // 8,)), v)
            return
        raise AsmUnsupported("destination " + o)

    def bin(self, op, x, y):
        if isinstance(x, Ptr) or isinstance(y, Ptr):
            raise AsmUnsupported("arithmetic on pointer")
        return self.ex.binop(self.path, op, x, y, self.u64, self.u64, self.u64)

    def run(self):
        ex = self.ex
        m = ex.summaries
        for mn, ops, raw in self.fn["ins"]:
            if mn == "MOVQ":
                self.wr(ops[1], self.rd(ops[0]))
            elif mn == "MULQ":
                hi, lo = m["math/bits.Mul64"](ex, self.path, [self.rd("AX"), self.rd(ops[0])])
                self.regs["AX"], self.regs["DX"] = lo, hi
            elif mn == "IMUL3Q":
                self.wr(ops[2], self.bin("*", self.rd(ops[1]), self.rd(ops[0])))
            elif mn == "ADDQ":
                s, c = m["math/bits.Add64"](ex, self.path, [self.rd(ops[1]), self.rd(ops[0]), 0])
                self.wr(ops[1], s)
                self.cf = c
            elif mn == "ADCQ":
                s, c = m["math/bits.Add64"](ex, self.path, [self.rd(ops[1]), self.rd(ops[0]), self.cf])
                self.wr(ops[1], s)
                self.cf = c
            elif mn == "SHLQ":
                k = self.rd(ops[0])
                if type(k) is not int:
                    raise AsmUnsupported(raw)
                if len(ops) == 3:
                    lo, hi = self.rd(ops[1]), self.rd(ops[2])
                    r = self.bin("|", self.bin("<<", hi, k), self.bin(">>", lo, 64 - k))
                    self.wr(ops[2], r)
                else:
                    self.wr(ops[1], self.bin("<<", self.rd(ops[1]), k))
                self.cf = None
            elif mn == "SHRQ":
                k = self.rd(ops[0])
                if type(k) is not int or len(ops) != 2:
                    raise AsmUnsupported(raw)
                self.wr(ops[1], self.bin(">>", self.rd(ops[1]), k))
                self.cf = None
            elif mn == "ANDQ":
                self.wr(ops[1], self.bin("&", self.rd(ops[1]), self.rd(ops[0])))
                self.cf = 0
            elif mn == "RET":
                return
            else:
                raise AsmUnsupported("mnemonic " + raw)
        raise AsmUnsupported("fell off the end of " + self.fn["name"])


_parsed = {}


def install(ex, repo=None):
    """route the body-less feMul/feSquare to the assembly interpreter"""
    from .ir import REPO
    path = os.path.join(repo or REPO, "field", "fe_amd64.s")
    funcs = parse(path)
    F = "filippo.io/edwards25519/field."
    sigs = {"feMul": ["out", "a", "b"], "feSquare": ["out", "a"]}
    for name, argn in sigs.items():
        if name not in funcs:
            raise AsmUnsupported("missing TEXT " + name)

        def summ(ex_, p, args, fn=funcs[name], argn=argn):
            AsmMachine(ex_, p, fn, args, argn).run()
            return None
        ex.summaries[F + name] = summ
    return funcs
