"""Bit-vector domain (z3).  Symbolic ints are z3 BitVecRef of the Go type's
width; conditions are z3 BoolRef.  Concrete operands arrive as Python ints."""
import z3
from .exec import ExecError, wrap, ForkRequest


class ConcreteDomain:
    """domain used for fully concrete runs: any symbolic op is an error"""
    ex = None

    def _no(self, *a, **k):
        raise ExecError("symbolic operation in concrete mode")

    binop = unop = convert = cmp = ite = add64 = sub64 = mul64 = not_ = and_ = _no

    def truth(self, path, c):
        raise ExecError("symbolic condition in concrete mode")

    def feasible(self, path, conds):
        return True

    def assume(self, path, c, orig, branch):
        pass

    def cond_key(self, c):
        return ("z3", c.get_id()) if hasattr(c, "get_id") else ("py", id(c))


class BVDomain:
    def __init__(self, timeout_ms=60000):
        self.ex = None
        self.solver = z3.Solver()
        self.solver.set("timeout", timeout_ms)
        self.queries = 0
        self.qtime = 0.0
        self.assumptions = []  # global assumptions (z3 BoolRef) - input preconditions

    # -- helpers
    def bv(self, x, w):
        if type(x) is int:
            return z3.BitVecVal(x, w)
        if isinstance(x, bool):
            return z3.BitVecVal(1 if x else 0, w)
        return x

    def fold(self, r):
        if z3.is_bv_value(r):
            return r.as_long()
        return r

    def norm(self, r, ty):
        if z3.is_bv_value(r):
            w, s = ty.int_info()
            return wrap(r.as_long(), w, s)
        return r

    def fresh(self, name, ty):
        w, s = ty.int_info()
        return z3.BitVec(name, w)

    # -- ops
    def binop(self, path, op, x, y, ty, xty, yty):
        w, s = ty.int_info()
        if op in ("<<", ">>"):
            yw, ys = yty.int_info()
            xv = self.bv(x, w)
            yv = self.bv(y, yw)
            if yw < w:
                yv = z3.ZeroExt(w - yw, yv)
            elif yw > w:
                big = z3.UGE(yv, z3.BitVecVal(w, yw))
                yv2 = z3.Extract(w - 1, 0, yv)
                if op == "<<":
                    r = z3.If(big, z3.BitVecVal(0, w), xv << yv2)
                elif s:
                    r = z3.If(big, xv >> z3.BitVecVal(w - 1, w), xv >> yv2)
                else:
                    r = z3.If(big, z3.BitVecVal(0, w), z3.LShR(xv, yv2))
                return self.norm(z3.simplify(r), ty)
            if op == "<<":
                r = xv << yv
            elif s:
                r = xv >> yv
            else:
                r = z3.LShR(xv, yv)
            return self.norm(z3.simplify(r), ty)
        xv, yv = self.bv(x, w), self.bv(y, w)
        if op == "+":
            r = xv + yv
        elif op == "-":
            r = xv - yv
        elif op == "*":
            r = xv * yv
        elif op == "&":
            r = xv & yv
        elif op == "|":
            r = xv | yv
        elif op == "^":
            r = xv ^ yv
        elif op == "&^":
            r = xv & ~yv
        elif op == "/":
            r = (xv / yv) if s else z3.UDiv(xv, yv)
        elif op == "%":
            r = z3.SRem(xv, yv) if s else z3.URem(xv, yv)
        else:
            raise ExecError("bv binop " + op)
        return self.norm(z3.simplify(r), ty)

    def unop(self, path, u, x, ty):
        r = -x if u == "-" else ~x
        return self.norm(z3.simplify(r), ty)

    def convert(self, path, x, ft, tt):
        fw, fs = ft.int_info()
        tw, ts = tt.int_info()
        if tw == fw:
            return x
        if tw < fw:
            return self.norm(z3.simplify(z3.Extract(tw - 1, 0, x)), tt)
        r = z3.SignExt(tw - fw, x) if fs else z3.ZeroExt(tw - fw, x)
        return self.norm(z3.simplify(r), tt)

    def cmp(self, path, op, x, y, ty):
        if ty.is_bool():
            xv = x if not isinstance(x, bool) else z3.BoolVal(x)
            yv = y if not isinstance(y, bool) else z3.BoolVal(y)
            r = (xv == yv) if op == "==" else (xv != yv)
        else:
            w, s = ty.int_info()
            xv, yv = self.bv(x, w), self.bv(y, w)
            if op == "==":
                r = xv == yv
            elif op == "!=":
                r = xv != yv
            elif s:
                r = {"<": xv < yv, "<=": xv <= yv, ">": xv > yv, ">=": xv >= yv}[op]
            else:
                r = {"<": z3.ULT(xv, yv), "<=": z3.ULE(xv, yv), ">": z3.UGT(xv, yv), ">=": z3.UGE(xv, yv)}[op]
        r = z3.simplify(r)
        if z3.is_true(r):
            return True
        if z3.is_false(r):
            return False
        return r

    def not_(self, c):
        return z3.simplify(z3.Not(c))

    def and_(self, a, b):
        return z3.And(a, b)

    def ite(self, path, c, a, b, ty):
        if ty.is_bool():
            av = a if not isinstance(a, bool) else z3.BoolVal(a)
            bv = b if not isinstance(b, bool) else z3.BoolVal(b)
            return z3.If(c, av, bv)
        w, s = ty.int_info()
        return z3.If(c, self.bv(a, w), self.bv(b, w))

    def add64(self, path, x, y, c):
        t = z3.ZeroExt(1, self.bv(x, 64)) + z3.ZeroExt(1, self.bv(y, 64)) + z3.ZeroExt(1, self.bv(c, 64))
        return (self.fold(z3.simplify(z3.Extract(63, 0, t))), self.fold(z3.simplify(z3.ZeroExt(63, z3.Extract(64, 64, t)))))

    def sub64(self, path, x, y, b):
        t = z3.ZeroExt(1, self.bv(x, 64)) - z3.ZeroExt(1, self.bv(y, 64)) - z3.ZeroExt(1, self.bv(b, 64))
        return (self.fold(z3.simplify(z3.Extract(63, 0, t))), self.fold(z3.simplify(z3.ZeroExt(63, z3.Extract(64, 64, t)))))

    def mul64(self, path, x, y):
        t = z3.ZeroExt(64, self.bv(x, 64)) * z3.ZeroExt(64, self.bv(y, 64))
        return (self.fold(z3.simplify(z3.Extract(127, 64, t))), self.fold(z3.simplify(z3.Extract(63, 0, t))))

    # -- decisions
    def check(self, conds):
        import time
        t0 = time.time()
        self.solver.push()
        for a in self.assumptions:
            self.solver.add(a)
        for c in conds:
            if isinstance(c, bool):
                c = z3.BoolVal(c)
            self.solver.add(c)
        r = self.solver.check()
        self.solver.pop()
        self.queries += 1
        self.qtime += time.time() - t0
        return r

    def truth(self, path, c):
        # cheap syntactic decision only; otherwise ask for a fork (which prunes by feasibility)
        return None

    def feasible(self, path, conds):
        r = self.check(conds)
        return r != z3.unsat

    def assume(self, path, c, orig, branch):
        pass

    def cond_key(self, c):
        return ("z3", c.get_id()) if hasattr(c, "get_id") else ("py", id(c))
