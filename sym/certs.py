"""Ideal-membership certificates for ring-mode goals.

Goal G (an integer polynomial produced by executing the real code) must vanish in GF(p) whenever the
hypotheses h_j vanish and the multiplier M (a product of coordinates known to be non-zero) is non-zero.
An untrusted search (multivariate division, poly.divide) proposes cofactors q_j with
        M * G = sum_j q_j * h_j          (identity in Z[...], hence in every commutative ring)
and the SMT solver validates the identity (refutes lhs != rhs).  Only the solver's verdict counts."""
import time, itertools
from .poly import Poly, divide, z3_identity_unsat, var_index


class PointSyms:
    def __init__(self, suffix, d):
        self.names = ["X" + suffix, "Y" + suffix, "Z" + suffix, "T" + suffix]
        self.X, self.Y, self.Z, self.T = [Poly.var(n) for n in self.names]
        self.d = d
        self.h = self.Z * self.T - self.X * self.Y                                   # XY = ZT
        self.c = -(self.X ** 2) + self.Y ** 2 - self.Z ** 2 - d * self.T ** 2          # curve (extended)
        # T-free curve equation:  c' = Z^2*c + d*h*(2XY + h)
        self.c2 = -(self.X ** 2) * self.Z ** 2 + self.Y ** 2 * self.Z ** 2 - self.Z ** 4 - d * self.X ** 2 * self.Y ** 2

    def coords(self):
        return [self.X, self.Y, self.Z, self.T]


def lemma_cprime(pt):
    """validate c' = Z^2*c + d*h*(2XY+h) with the solver"""
    t0 = time.time()
    two = Poly.const(2)
    r, _ = z3_identity_unsat([[pt.c2]], [[pt.Z ** 2, pt.c], [pt.d, pt.h, two * pt.X * pt.Y + pt.h]])
    return r, time.time() - t0


def search(goal, stages, mult_vars, max_pow=8, fixed=None):
    """stages: list of (generators, lex order).  mult_vars: names of variables allowed in the multiplier.
    returns (M, [(q, g) ...]) or None"""
    cands = []
    rng = range(0, max_pow + 1)
    combos = sorted(itertools.product(rng, repeat=len(mult_vars)), key=lambda t: (sum(t), t))
    for ks in combos:
        M = Poly.const(1)
        for n, k in zip(mult_vars, ks):
            M = M * (Poly.var(n) ** k)
        r = M * goal
        cof = []
        ok = True
        try:
            for gens, order in stages:
                qs, r = divide(r, gens, order)
                cof += list(zip(qs, gens))
        except ValueError:
            return None     # a hypothesis polynomial without a +-1 leading coefficient: no certificate from this search
        if r.is_zero():
            return M, cof
        if sum(ks) > 0 and len(r.t) > 20000:
            break
    return None


def prove(goal, stages, mult_vars, max_pow=8, timeout_ms=120000):
    """returns dict(verdict, seconds, search_s, multiplier, ...). verdict 'unsat' = identity validated"""
    t0 = time.time()
    if goal.is_zero():
        r, _ = z3_identity_unsat([[goal]], [])
        return dict(verdict=r, seconds=time.time() - t0, search_s=0.0, multiplier="1", note="goal polynomial is identically zero")
    res = search(goal, stages, mult_vars, max_pow)
    ts = time.time() - t0
    if res is None:
        return dict(verdict="no-certificate", seconds=ts, search_s=ts, multiplier=None)
    M, cof = res
    t1 = time.time()
    r, _ = z3_identity_unsat([[M, goal]], [[q, g] for q, g in cof if not q.is_zero()], timeout_ms)
    return dict(verdict=r, seconds=time.time() - t1, search_s=ts, multiplier=repr(M), cofactor_terms=[len(q.t) for q, g in cof])
