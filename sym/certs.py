"""Ideal-membership certificates for ring-mode goals.

Goal G (an integer polynomial produced by executing the real code) must vanish in GF(p) whenever the
hypotheses h_j vanish and the multiplier M (a product of coordinates known to be non-zero) is non-zero.
An untrusted search (multivariate division, poly.divide) proposes cofactors q_j with
        M * G = sum_j q_j * h_j          (identity in Z[...], hence in every commutative ring)
and the SMT solver validates the identity (refutes lhs != rhs).  Only the solver's verdict counts."""
import time, itertools
from .poly import Poly, divide, z3_identity_unsat, var_index


class PointSyms:
    def __init__(self, suffix, d):
        self.names = ["X" + suffix, "Y" + suffix, "Z" + suffix, "T" + suffix]
        self.X, self.Y, self.Z, self.T = [Poly.var(n) for n in self.names]
        self.d = d
        self.h = self.Z * self.T - self.X * self.Y                                   # XY = ZT
        self.c = -(self.X ** 2) + self.Y ** 2 - self.Z ** 2 - d * self.T ** 2          # curve (extended)
        # T-free curve equation:  c' = Z^2*c + d*h*(2XY + h)
        self.c2 = -(self.X ** 2) * self.Z ** 2 + self.Y ** 2 * self.Z ** 2 - self.Z ** 4 - d * self.X ** 2 * self.Y ** 2

    def coords(self):
        return [self.X, self.Y, self.Z, self.T]


def lemma_cprime(pt):
    """validate c' = Z^2*c + d*h*(2XY+h) with the solver"""
    t0 = time.time()
    two = Poly.const(2)
    r, _ = z3_identity_unsat([[pt.c2]], [[pt.Z ** 2, pt.c], [pt.d, pt.h, two * pt.X * pt.Y + pt.h]])
    return r, time.time() - t0


def _inverse_stage(gens, order):
    """a stage that is one inverse hypothesis  A*w - 1  with w its only elimination variable -> (A, w) or None"""
    if len(gens) != 1 or len(order) != 1:
        return None
    w = order[0]
    wi = var_index(w)
    g = gens[0]
    A = Poly()
    rest = Poly()
    for m, c in g.t.items():
        e = dict(m).get(wi, 0)
        if e == 1:
            A = A + Poly({tuple(x for x in m if x[0] != wi): c})
        elif e == 0:
            rest = rest + Poly({m: c})
        else:
            return None
    if A.is_zero() or wi in A.vars() or not (rest + 1).is_zero():
        return None
    return A, w


def _eliminate_inverse(r, A, w):
    """pseudo-division by the inverse hypothesis h = A*w - 1 (valid because A != 0 is what h says):
         A^d * r = q*h + r'   with r' free of w,   r = sum_i g_i w^i,  r' = sum_i g_i A^(d-i),
         q = sum_i g_i A^(d-i) * sum_{j<i} (A*w)^j.   returns (A^d, q, r')"""
    wi = var_index(w)
    gi = {}
    for m, c in r.t.items():
        e = dict(m).get(wi, 0)
        gi[e] = gi.get(e, Poly()) + Poly({tuple(x for x in m if x[0] != wi): c})
    d = max(gi) if gi else 0
    Aw = A * Poly.var(w)
    rp, q = Poly(), Poly()
    for i, g in gi.items():
        t = g * (A ** (d - i))
        rp = rp + t
        geo = Poly()
        for j in range(i):
            geo = geo + Aw ** j
        q = q + t * geo
    return A ** d, q, rp


def search(goal, stages, mult_vars, max_pow=8, fixed=None, pseudo=False):
    """stages: list of (generators, lex order).  mult_vars: names of variables allowed in the multiplier.
    returns (M, [(q, g) ...]) or None.  pseudo: inverse hypotheses A*w - 1 with a non-monomial A are eliminated by
    pseudo-division (the multiplier then also contains powers of A, non-zero by that very hypothesis)"""
    cands = []
    rng = range(0, max_pow + 1)
    combos = sorted(itertools.product(rng, repeat=len(mult_vars)), key=lambda t: (sum(t), t))
    for ks in combos:
        M = Poly.const(1)
        for n, k in zip(mult_vars, ks):
            M = M * (Poly.var(n) ** k)
        r = M * goal
        cof = []
        ok = True
        try:
            for gens, order in stages:
                inv = _inverse_stage(gens, order) if pseudo else None
                if inv is not None and len(inv[0].t) > 1:
                    Ad, q, r = _eliminate_inverse(r, inv[0], inv[1])
                    cof = [(Ad * q0, g0) for q0, g0 in cof] + [(q, gens[0])]
                    M = M * Ad
                    continue
                qs, r = divide(r, gens, order)
                cof += list(zip(qs, gens))
        except ValueError:
            return None     # a hypothesis polynomial without a +-1 leading coefficient: no certificate from this search
        if r.is_zero():
            return M, cof
        if sum(ks) > 0 and len(r.t) > 20000:
            break
    return None


def prove(goal, stages, mult_vars, max_pow=8, timeout_ms=120000):
    """returns dict(verdict, seconds, search_s, multiplier, ...). verdict 'unsat' = identity validated"""
    t0 = time.time()
    if goal.is_zero():
        r, _ = z3_identity_unsat([[goal]], [])
        return dict(verdict=r, seconds=time.time() - t0, search_s=0.0, multiplier="1", note="goal polynomial is identically zero")
    res = search(goal, stages, mult_vars, max_pow)
    if res is None and any(_inverse_stage(g_, o_) is not None and len(_inverse_stage(g_, o_)[0].t) > 1 for g_, o_ in stages):
        res = search(goal, stages, mult_vars, min(max_pow, 4), pseudo=True)
    ts = time.time() - t0
    if res is None:
        return dict(verdict="no-certificate", seconds=ts, search_s=ts, multiplier=None)
    M, cof = res
    t1 = time.time()
    r, _ = z3_identity_unsat([[M, goal]], [[q, g] for q, g in cof if not q.is_zero()], timeout_ms)
    return dict(verdict=r, seconds=time.time() - t1, search_s=ts, multiplier=repr(M), cofactor_terms=[len(q.t) for q, g in cof])
