"""Abstract ("opaque") value modes for field.Element / Scalar cells: the executor treats the Go
type as a single leaf cell holding an abstract value; the type's methods are replaced by summaries
whose justification is the L0 contract discharged in the same run (kernels.py)."""
import z3
from .exec import ExecError, GoPanic, Ptr

F = "filippo.io/edwards25519/field."
E = "filippo.io/edwards25519."
EM = "(*filippo.io/edwards25519/field.Element)."
SM = "(*filippo.io/edwards25519.Scalar)."


class Abs:
    """abstract element: v is mode specific; zero_limbs marks the Go zero value (all limbs 0)"""
    __slots__ = ("v", "zero_limbs", "tag")

    def __init__(self, v, zero_limbs=False, tag=None):
        self.v, self.zero_limbs, self.tag = v, zero_limbs, tag

    def __repr__(self):
        return "Abs(%r%s)" % (self.v, ",zero" if self.zero_limbs else "")


def elem_ptr_store(ex, path, p, v):
    ex.store(path, p, v)


def install_chain(ex, unit_exp):
    """chain mode: an element is z^e for the single input z; cells hold e (int or z3 Int term).
    Multiply adds exponents, Square doubles.  Counts the field calls made."""
    ex.opaque[F + "Element"] = lambda: Abs(None, True)
    stats = {"mul": 0, "sq": 0}

    def mul(ex_, path, args):
        v, x, y = args
        a, b = ex_.load(path, x), ex_.load(path, y)
        if a.v is None or b.v is None:
            raise ExecError("chain mode: read of uninitialised element")
        stats["mul"] += 1
        ex_.store(path, v, Abs(a.v + b.v))
        return v

    def sq(ex_, path, args):
        v, x = args
        a = ex_.load(path, x)
        if a.v is None:
            raise ExecError("chain mode: read of uninitialised element")
        stats["sq"] += 1
        ex_.store(path, v, Abs(a.v * 2))
        return v

    def set_(ex_, path, args):
        v, x = args
        ex_.store(path, v, ex_.load(path, x))
        return v
    ex.summaries[EM + "Multiply"] = mul
    ex.summaries[EM + "Square"] = sq
    ex.summaries[EM + "Set"] = set_
    return stats
