"""L0 kernel contracts (DESIGN.md section 4), each discharged against the SSA (or the
amd64 assembly) of the real function.  Every function returns nothing and records
obligations in the Check; a `sat` verdict carries the model for replay."""
import time, itertools
import z3
from . import exec as X, dom_lf, dom_bv, asm
from .dom_lf import LF, LFCond
from .check import Ob

F = "filippo.io/edwards25519/field."
E = "filippo.io/edwards25519."
P = 2**255 - 19
L = 2**252 + 27742317777372353535851937790883648493
B = 2**51 + 2**38          # representation invariant: every limb <= B
M51 = 2**51 - 1


class Base:
    """shared concrete state: program + initialised globals"""

    def __init__(self, prog, use_asm=True):
        self.prog = prog
        ex = X.Executor(prog, dom_bv.ConcreteDomain())
        self.asm_funcs = None
        self.has_asm = prog.funcs.get(F + "feMul", {}).get("external", False)
        if self.has_asm:
            self.asm_funcs = asm.install(ex)
        ex.run_init()
        self.ex0 = ex

    def executor(self, dom):
        ex = X.Executor(self.prog, dom)
        ex.meta = dict(self.ex0.meta)
        ex.global_objs = dict(self.ex0.global_objs)
        ex.base_heap = self.ex0.base_heap
        ex._ids = itertools.count(max(ex.meta) + 1000)
        if self.has_asm:
            asm.install(ex)
        return ex

    def global_val(self, name):
        ex = self.ex0
        p = X.Path()
        p.heap = ex.base_heap
        v = ex.load(p, X.Ptr(ex.global_objs[name]))
        if isinstance(v, X.Ptr):
            v = ex.load(p, v)
        return v


def fval(limbs):
    r = LF()
    for i, l in enumerate(limbs):
        r = r + LF.of(l).scale(2 ** (51 * i))
    return r


class LFK:
    """one LF-mode kernel run: fresh domain + executor, helpers for inputs and goals"""

    def __init__(self, base, chk, fname, label=None, timeout_ms=60000):
        self.base, self.chk, self.fname = base, chk, fname
        self.label = label or fname.split(".")[-1].replace(")", "")
        self.dom = dom_lf.LFDomain(timeout_ms)
        self.ex = base.executor(self.dom)
        self.path = X.Path()
        self.path.heap = {k: X.clone_cells(v) for k, v in self.ex.base_heap.items()}
        self.ET = base.prog.T(F + "Element")
        self.inputs = {}
        self.sat_obs = []
        self.replay = None
        chk.used(base.prog, fname, "Int-LF")

    def elem(self, name, bound=B, lo=0):
        limbs = [self.dom.input("%s.l%d" % (name, i), lo, bound) for i in range(5)]
        self.inputs[name] = limbs
        oid = self.ex.new_obj(self.path, self.ET, name=name, init=list(limbs))
        return X.Ptr(oid), limbs

    def out_elem(self, name="out"):
        # receiver with arbitrary prior contents
        return self.elem(name, (1 << 64) - 1)

    def run(self, args, expect_paths=None):
        paths = self.ex.call(self.fname, args, self.path)
        bad = [p for p in paths if p.outcome[0] != "ret"]
        if bad:
            raise X.ExecError("%s: unexpected outcome %s" % (self.fname, bad[0].outcome))
        if expect_paths is not None and len(paths) != expect_paths:
            raise X.ExecError("%s: %d paths, expected %d" % (self.fname, len(paths), expect_paths))
        return paths

    def limbs(self, path, ptr):
        return self.ex.load(path, ptr)

    def model_inputs(self, model):
        out = {}
        for n, limbs in self.inputs.items():
            out[n] = [model.get(next(iter(l.t)), 0) if isinstance(l, LF) and l.t else (l.c if isinstance(l, LF) else l) for l in limbs]
        return out

    def goal(self, path, kind, name, *a):
        t0 = time.time()
        dom = self.dom
        n0 = len(dom.queries)
        if kind == "le":
            r = dom.prove_le(path, a[0], a[1], name)
            neg = [LFCond("<=", -(LF.of(a[0]) - LF.of(a[1])) + 1)]
        elif kind == "eq":
            r = dom.prove_eq(path, a[0], a[1], name)
            neg = [LFCond("!=", dom.expand(LF.of(a[0]) - LF.of(a[1])))]
        elif kind == "congr":
            r = dom.prove_congr(path, a[0], a[1], a[2], name)
            neg = [LFCond("modne", dom.expand(LF.of(a[0]) - LF.of(a[1])), [a[2]])]
        else:
            raise ValueError(kind)
        model = None
        if r == "sat":
            rr, m = dom.check(path, neg, name + "/model", want_model=True)
            if m:
                model = self.model_inputs(m)
        ob = Ob("%s: %s" % (self.label, name), r, time.time() - t0, [self.fname], "Int-LF",
                detail="; ".join("%s=%s" % (q[0].split("/")[-1], q[1]) for q in dom.queries[n0:]), model=model)
        self.chk.add(ob)
        if r == "sat":
            self.sat_obs.append(ob)
        return ob

    def settle(self, site=None):
        """after all goals of this kernel: replay the counterexamples of sat obligations on the real code"""
        if not self.sat_obs:
            return
        site = site or self.label
        hit = None
        if self.replay is not None:
            models = [o.model for o in self.sat_obs if o.model]
            try:
                hit = self.replay(models, self.chk.seed)
            except Exception as e:
                self.chk.note_inconclusive("replay of %s failed: %r" % (self.label, e))
        for o in self.sat_obs:
            o.verdict = "violated" if hit else "sat-unreplayed"
        if hit:
            self.chk.violation(site, "%s: %s" % (self.label, hit["what"]), hit)

    def no_wraps(self, path, name="no unintended wrap-around"):
        """the executor introduces a wrap (quotient atom) for + - * << only when the interval does not
        exclude it; for kernels whose arithmetic must never wrap we require that none was introduced"""
        pass


# ---------------------------------------------------------------------------
# field kernels, Int-LF
# ---------------------------------------------------------------------------
def out_bounds(k, path, out, tight=True):
    for i, o in enumerate(out):
        bound = 2**51 + (19 * 2**13 if i == 0 else 2**13) - 1
        k.goal(path, "le", "out.l%d <= 2^51+%s-1" % (i, "19*2^13" if i == 0 else "2^13"), o, bound)
        k.goal(path, "le", "out.l%d >= 0" % i, 0, o)


def k_carry(base, chk, fname=F + "carryPropagateGeneric"):
    fname = base.prog.find("Element).carryPropagateGeneric") if "Generic" in fname else base.prog.find("Element).carryPropagate")
    k = LFK(base, chk, fname)
    v, vl = k.elem("v", (1 << 64) - 1)
    (p,) = k.run([v], 1)
    out = k.limbs(p, v)
    k.goal(p, "congr", "value preserved mod p (any 64-bit limbs)", fval(out), fval(vl), P)
    out_bounds(k, p, out)
    k.replay = field_replayer("carryPropagateGeneric" if "Generic" in fname else "carryPropagate", ["v"], lambda v, raw: v["v"], bound=(1 << 64) - 1, inplace=True,
                              check_bounds=2**51 + 19 * 2**13)
    k.settle()


def k_add(base, chk):
    fname = base.prog.find("Element).Add")
    k = LFK(base, chk, fname)
    a, al = k.elem("a")
    b, bl = k.elem("b")
    v, _ = k.out_elem()
    (p,) = k.run([v, a, b], 1)
    out = k.limbs(p, v)
    k.goal(p, "congr", "value = a+b mod p", fval(out), fval(al) + fval(bl), P)
    out_bounds(k, p, out)
    # exactness: no 64-bit wrap in the limb additions (value congruence would fail otherwise); also
    # state it directly: sum of limbs below 2^64
    for i in range(5):
        k.goal(p, "le", "a.l%d+b.l%d < 2^64" % (i, i), LF.of(al[i]) + bl[i], 2**64 - 1)
    k.replay = field_replayer("Add", ["a", "b"], lambda v, raw: v["a"] + v["b"])
    k.settle()


def k_sub(base, chk, negate=False):
    fname = base.prog.find("Element).Negate" if negate else "Element).Subtract")
    k = LFK(base, chk, fname)
    a, al = k.elem("a")
    v, _ = k.out_elem()
    if negate:
        (p,) = k.run([v, a], 1)
        spec = -fval(al)
    else:
        b, bl = k.elem("b")
        (p,) = k.run([v, a, b], 1)
        spec = fval(al) - fval(bl)
    out = k.limbs(p, v)
    k.goal(p, "congr", "value = %s mod p" % ("-a" if negate else "a-b"), fval(out), spec, P)
    out_bounds(k, p, out)
    if not negate:
        two_p = [0xFFFFFFFFFFFDA] + [0xFFFFFFFFFFFFE] * 4
        for i in range(5):
            k.goal(p, "le", "no underflow: a.l%d + 2p.l%d - b.l%d >= 0" % (i, i, i), 0, LF.of(al[i]) + two_p[i] - bl[i])
    k.replay = field_replayer("Negate", ["a"], lambda v, raw: -v["a"]) if negate else field_replayer("Subtract", ["a", "b"], lambda v, raw: v["a"] - v["b"])
    k.settle()


def k_mul(base, chk, which):
    """which in feMulGeneric, feSquareGeneric, feMul, feSquare (the latter two: assembly when present)"""
    fname = F + which
    k = LFK(base, chk, fname, label=which + (" [asm]" if which in ("feMul", "feSquare") and base.has_asm else ""))
    if which in ("feMul", "feSquare") and base.has_asm:
        chk.functions[fname] = {"mode": "Int-LF (amd64 assembly interpreter)", "asm_instrs": len(base.asm_funcs[which]["ins"])}
    a, al = k.elem("a")
    v, _ = k.out_elem()
    if "Square" in which:
        args = [v, a]
        bl = al
    else:
        b, bl = k.elem("b")
        args = [v, a, b]
    if which in ("feMul", "feSquare") and not base.has_asm:
        pass
    # call through the executor (summary for asm, SSA body for Go)
    path = k.path
    if fname in k.ex.summaries:
        k.ex.summaries[fname](k.ex, path, args)
        p = path
    else:
        (p,) = k.run(args, 1)
    out = k.limbs(p, v)
    spec = k.dom.mul(p, fval(al), fval(bl))
    k.goal(p, "congr", "value = a*b mod p", fval(out), spec, P)
    out_bounds(k, p, out)
    if "Square" in which:
        k.replay = field_replayer(which, ["a"], lambda v, raw: v["a"] * v["a"])
    else:
        k.replay = field_replayer(which, ["a", "b"], lambda v, raw: v["a"] * v["b"])
    k.settle()
    return k, p, out, al, bl


def k_mul_equiv(base, chk, sq=False):
    """assembly and portable multiplication produce identical limbs (same atoms on both sides)"""
    g, a_ = (("feSquareGeneric", "feSquare") if sq else ("feMulGeneric", "feMul"))
    k = LFK(base, chk, F + a_, label="%s vs %s" % (a_, g))
    chk.used(base.prog, F + g, "Int-LF")
    a, al = k.elem("a")
    args2 = []
    if not sq:
        b, bl = k.elem("b")
        args2 = [b]
    v1, _ = k.out_elem("out1")
    v2, _ = k.out_elem("out2")
    path = k.path
    k.ex.summaries[F + a_](k.ex, path, [v1, a] + args2)
    # run the portable code on the same state
    (p,) = k.ex.call(F + g, [v2, a] + args2, path)
    o1, o2 = k.limbs(p, v1), k.limbs(p, v2)
    for i in range(5):
        k.goal(p, "eq", "limb %d identical" % i, o1[i], o2[i])
    k.replay = equiv_replayer(g, a_, sq)
    k.settle()


def k_mult32(base, chk):
    fname = base.prog.find("Element).Mult32")
    k = LFK(base, chk, fname)
    chk.used(base.prog, F + "mul51", "Int-LF")
    x, xl = k.elem("x")
    y = k.dom.input("y", 0, 2**32 - 1)
    v, _ = k.out_elem()
    (p,) = k.run([v, x, y], 1)
    out = k.limbs(p, v)
    spec = k.dom.mul(p, fval(xl), y)
    k.goal(p, "congr", "value = x*y mod p", fval(out), spec, P)
    for i, o in enumerate(out):
        k.goal(p, "le", "out.l%d <= B (invariant closed under Mult32)" % i, o, B)
        k.goal(p, "le", "out.l%d >= 0" % i, 0, o)
    k.replay = mult32_replayer()
    k.settle()


def k_reduce(base, chk):
    fname = base.prog.find("Element).reduce")
    k = LFK(base, chk, fname)
    v, vl = k.elem("v")
    (p,) = k.run([v], 1)
    out = k.limbs(p, v)
    k.goal(p, "congr", "value preserved mod p", fval(out), fval(vl), P)
    for i, o in enumerate(out):
        k.goal(p, "le", "out.l%d <= 2^51-1" % i, o, M51)
        k.goal(p, "le", "out.l%d >= 0" % i, 0, o)
    k.goal(p, "le", "value(out) <= p-1 (fully reduced)", fval(out), P - 1)
    k.replay = reduce_replayer()
    k.settle()


# ---------------------------------------------------------------------------
# replay of field-kernel counterexamples on the real package
# ---------------------------------------------------------------------------
def field_replayer(op, names, spec, out="v", bound=B, extra_args=(), check_bounds=None, n=96, inplace=False):
    """returns replay(models, seed): runs op natively on candidate inputs; spec(vals: dict name->int value,
    raw: dict name->limbs) -> expected value mod p.  names: input element slot names in argument order."""
    from . import native, ref
    import random

    def replay(models, seed):
        rng = random.Random(seed)
        cands = []
        for m in models:
            if all(nm in m for nm in names):
                cands.append({nm: [min(max(int(x), 0), bound) for x in m[nm]] for nm in names})
        pool = ref.limb_candidates(rng, n, bound)
        for i in range(n):
            cands.append({nm: pool[(i * (j + 1) + j) % len(pool)] if j else pool[i] for j, nm in enumerate(names)})
        ops = []
        for c in cands:
            init = {nm: ref.fmt_limbs(c[nm]) for nm in names}
            if not inplace:
                init[out] = "7,7,7,7,7"
                args = [out] + list(names)
            else:
                args = list(names)
            ops.append({"op": op, "args": args + [str(a) for a in extra_args], "init": init})
        res = native.run_ops("field", ops)
        for c, r in zip(cands, res):
            if "panic" in r:
                return dict(what="panic %s" % r["panic"], op=op, inputs=c)
            o = ref.parse_limbs(r["slots"][names[0] if inplace else out])
            want = spec({nm: ref.fe_val(c[nm]) for nm in names}, c) % P
            got = ref.fe_val(o) % P
            if want != got:
                return dict(what="%s returns %d, expected %d (mod p)" % (op, got, want), op=op, inputs=c, got_limbs=o)
            lim = check_bounds or B
            if any(x > lim for x in o):
                return dict(what="%s output limb above the representation invariant: %s" % (op, o), op=op, inputs=c, got_limbs=o)
        return None
    return replay


def mult32_replayer():
    from . import native, ref
    import random

    def replay(models, seed):
        rng = random.Random(seed)
        cands = []
        for m in models:
            if "x" in m:
                cands.append((m["x"], rng.randrange(2**32)))
                cands.append((m["x"], 2**32 - 1))
        for l in ref.limb_candidates(rng, 64):
            cands.append((l, rng.choice([2**32 - 1, 2**31, 1, 0, rng.randrange(2**32)])))
        ops = [{"op": "Mult32", "args": ["v", "x", str(y)], "init": {"v": "7,7,7,7,7", "x": ref.fmt_limbs(x)}} for x, y in cands]
        res = native.run_ops("field", ops)
        for (x, y), r in zip(cands, res):
            o = ref.parse_limbs(r["slots"]["v"])
            if ref.fe_val(o) % P != ref.fe_val(x) * y % P:
                return dict(what="Mult32 wrong value", op="Mult32", inputs=dict(x=x, y=y), got_limbs=o)
            if any(v > B for v in o):
                return dict(what="Mult32 output limb above the invariant bound: %s" % o, op="Mult32", inputs=dict(x=x, y=y), got_limbs=o)
        return None
    return replay


def reduce_replayer():
    from . import native, ref
    import random

    def replay(models, seed):
        rng = random.Random(seed)
        cands = [m["v"] for m in models if "v" in m] + ref.limb_candidates(rng, 96)
        # values around p and 2p in many limb forms
        for t in (P - 1, P, P + 1, 2 * P - 1, 2 * P, 2 * P + 1, 2**255 - 1, 2**255, 2**255 + 18, 2**255 + 19, P - 19, P + 18, P + 19):
            cands.append([(t >> (51 * i)) & (2**51 - 1) if i < 4 else t >> 204 for i in range(5)])
        ops = [{"op": "reduce", "args": ["v"], "init": {"v": ref.fmt_limbs(c)}} for c in cands]
        res = native.run_ops("field", ops)
        for c, r in zip(cands, res):
            o = ref.parse_limbs(r["slots"]["v"])
            if ref.fe_val(o) != ref.fe_val(c) % P:
                return dict(what="reduce(%s) = %d, expected the canonical residue %d" % (c, ref.fe_val(o), ref.fe_val(c) % P), op="reduce", inputs=dict(v=c), got_limbs=o)
            if any(v >= 2**51 for v in o):
                return dict(what="reduce output limb >= 2^51", op="reduce", inputs=dict(v=c), got_limbs=o)
        return None
    return replay


def equiv_replayer(g, a_, sq):
    from . import native, ref
    import random

    def replay(models, seed):
        rng = random.Random(seed)
        cands = []
        for m in models:
            if "a" in m:
                cands.append((m["a"], m.get("b", m["a"])))
        pool = ref.limb_candidates(rng, 128)
        for i in range(0, 128, 2):
            cands.append((pool[i], pool[i + 1]))
        ops = []
        for a, b in cands:
            for fn in (g, a_):
                init = {"v": "7,7,7,7,7", "a": ref.fmt_limbs(a)}
                args = ["v", "a"]
                if not sq:
                    init["b"] = ref.fmt_limbs(b)
                    args.append("b")
                ops.append({"op": fn, "args": args, "init": init})
        res = native.run_ops("field", ops)
        for i, (a, b) in enumerate(cands):
            r1, r2 = res[2 * i]["slots"]["v"], res[2 * i + 1]["slots"]["v"]
            if r1 != r2:
                return dict(what="%s and %s disagree: %s vs %s" % (g, a_, r1, r2), op=a_, inputs=dict(a=a, b=b))
        return None
    return replay


# ---------------------------------------------------------------------------
# scalar (fiat-crypto Montgomery) kernels, Int-LF
# ---------------------------------------------------------------------------
R256 = 2**256


def sval(limbs):
    r = LF()
    for i, l in enumerate(limbs):
        r = r + LF.of(l).scale(2 ** (64 * i))
    return r


def bval(bs):
    r = LF()
    for i, l in enumerate(bs):
        r = r + LF.of(l).scale(2 ** (8 * i))
    return r


class SK(LFK):
    def words(self, name, below_m=True, tyname=E + "fiatScalarMontgomeryDomainFieldElement", n=4, hi=(1 << 64) - 1):
        limbs = [self.dom.input("%s[%d]" % (name, i), 0, hi) for i in range(n)]
        self.inputs[name] = limbs
        ty = self.base.prog.T(tyname)
        oid = self.ex.new_obj(self.path, ty, name=name, init=list(limbs))
        if below_m:
            self.path.pc.append(LFCond("<=", sval(limbs) - (L - 1)))
        return X.Ptr(oid), limbs


def scalar_replayer(op, names, spec, nin=None):
    """replay fiat kernels natively: spec(vals) -> expected eval(out) (exact integer)"""
    from . import native
    import random

    def replay(models, seed):
        rng = random.Random(seed)
        cands = []
        for m in models:
            if all(nm in m for nm in names):
                c = {}
                for nm in names:
                    v = sum(int(x) << (64 * i) for i, x in enumerate(m[nm])) % L
                    c[nm] = v
                cands.append(c)
        specials = [0, 1, 2, L - 1, L - 2, (L - 1) // 2, (L + 1) // 2, 2**252, 2**252 - 1, 2**64 - 1, 2**64, 2**128, 2**192, R256 % L, (R256 * R256) % L, L - (R256 % L)]
        for i in range(80):
            cands.append({nm: rng.choice(specials) if rng.random() < 0.5 else rng.randrange(L) for nm in names})
        ops = [{"op": op, "args": ["out"] + names, "init": dict({nm: "w:" + ",".join(str((c[nm] >> (64 * i)) & (2**64 - 1)) for i in range(4)) for nm in names}, out="w:7,7,7,7")} for c in cands]
        res = native.run_ops("", ops)
        for c, r in zip(cands, res):
            if "panic" in r:
                return dict(what="panic " + r["panic"], op=op, inputs=c)
            o = [int(x) for x in r["slots"]["out"][2:].split(",")]
            got = sum(x << (64 * i) for i, x in enumerate(o))
            want = spec(c)
            if got != want:
                return dict(what="%s: eval(out)=%d, expected %d" % (op, got, want), op=op, inputs={k: str(v) for k, v in c.items()})
        return None
    return replay


def k_fiat_mul(base, chk):
    fname = E + "fiatScalarMul"
    k = SK(base, chk, fname)
    chk.used(base.prog, E + "fiatScalarCmovznzU64", "Int-LF (fork on the 0/1 selector)")
    a, al = k.words("a")
    b, bl = k.words("b")
    o, _ = k.words("out", below_m=False)
    # product bound lemma: eval(a)*eval(b) <= (m-1)^2  (sound: both factors in [0, m-1])
    prod = None
    paths = k.run([o, a, b])
    for i, p in enumerate(paths):
        out = k.limbs(p, o)
        prod = k.dom.mul(p, sval(al), sval(bl))
        p.pc.append(LFCond("<=", prod - (L - 1) ** 2))
        p.pc.append(LFCond("<=", -prod))
        k.goal(p, "le", "path %d: eval(out) <= m-1" % i, sval(out), L - 1)
        k.goal(p, "congr", "path %d: out*2^256 = a*b mod m" % i, sval(out).scale(R256), prod, L)
    chk.addq("fiatScalarMul: paths = 2 (final conditional subtraction forks once)", "unsat" if len(paths) == 2 else "error:%d paths" % len(paths), mode="structure", funcs=[fname])
    Rinv = pow(R256, L - 2, L)
    k.replay = scalar_replayer("fiatScalarMul", ["a", "b"], lambda c: c["a"] * c["b"] * Rinv % L)
    k.settle()


def k_fiat_mont(base, chk, to):
    fname = E + ("fiatScalarToMontgomery" if to else "fiatScalarFromMontgomery")
    k = SK(base, chk, fname)
    a, al = k.words("a", tyname=E + ("fiatScalarNonMontgomeryDomainFieldElement" if to else "fiatScalarMontgomeryDomainFieldElement"))
    o, _ = k.words("out", below_m=False, tyname=E + ("fiatScalarMontgomeryDomainFieldElement" if to else "fiatScalarNonMontgomeryDomainFieldElement"))
    paths = k.run([o, a])
    for i, p in enumerate(paths):
        out = k.limbs(p, o)
        k.goal(p, "le", "path %d: eval(out) <= m-1" % i, sval(out), L - 1)
        if to:
            # out * 2^256 = a * 2^512  (i.e. out = a*R)
            k.goal(p, "congr", "path %d: out = a*2^256 mod m" % i, sval(out).scale(R256), sval(al).scale((R256 * R256) % L), L)
        else:
            k.goal(p, "congr", "path %d: out*2^256 = a mod m" % i, sval(out).scale(R256), sval(al), L)
    Rinv = pow(R256, L - 2, L)
    k.replay = scalar_replayer(fname.split(".")[-1], ["a"], (lambda c: c["a"] * R256 % L) if to else (lambda c: c["a"] * Rinv % L))
    k.settle()


def k_fiat_addsub(base, chk, which):
    fname = E + "fiatScalar" + which
    k = SK(base, chk, fname)
    a, al = k.words("a")
    args = [a]
    if which != "Opp":
        b, bl = k.words("b")
        args.append(b)
    o, _ = k.words("out", below_m=False)
    paths = k.run([o] + args)
    for i, p in enumerate(paths):
        out = k.limbs(p, o)
        k.goal(p, "le", "path %d: eval(out) <= m-1" % i, sval(out), L - 1)
        k.goal(p, "le", "path %d: eval(out) >= 0" % i, 0, sval(out))
        spec = {"Add": lambda: sval(al) + sval(bl), "Sub": lambda: sval(al) - sval(bl), "Opp": lambda: -sval(al)}[which]()
        k.goal(p, "congr", "path %d: out = %s mod m" % (i, {"Add": "a+b", "Sub": "a-b", "Opp": "-a"}[which]), sval(out), spec, L)
    pyspec = {"Add": lambda c: (c["a"] + c["b"]) % L, "Sub": lambda c: (c["a"] - c["b"]) % L, "Opp": lambda c: (-c["a"]) % L}[which]
    k.replay = scalar_replayer("fiatScalar" + which, ["a"] if which == "Opp" else ["a", "b"], pyspec)
    k.settle()


def k_fiat_tobytes(base, chk):
    fname = E + "fiatScalarToBytes"
    k = SK(base, chk, fname)
    a, al = k.words("a", tyname="[4]uint64")
    bt = base.prog.T("[32]uint8")
    bs = [k.dom.input("out[%d]" % i, 0, 255) for i in range(32)]
    o = X.Ptr(k.ex.new_obj(k.path, bt, init=list(bs)))
    (p,) = k.run([o, a], 1)
    out = k.limbs(p, o)
    k.goal(p, "eq", "little-endian bytes = eval(arg) (arg < m)", bval(out), sval(al))
    for i, x in enumerate(out):
        if i in (0, 7, 15, 23, 31):
            k.goal(p, "le", "byte %d <= 255" % i, x, 255)
    k.settle()


def k_fiat_frombytes(base, chk):
    fname = E + "fiatScalarFromBytes"
    k = SK(base, chk, fname)
    bt = base.prog.T("[32]uint8")
    bs = [k.dom.input("in[%d]" % i, 0, 255) for i in range(32)]
    k.inputs["in"] = bs
    a = X.Ptr(k.ex.new_obj(k.path, bt, init=list(bs)))
    o, _ = k.words("out", below_m=False, tyname="[4]uint64")
    (p,) = k.run([o, a], 1)
    out = k.limbs(p, o)
    k.goal(p, "eq", "eval(out) = little-endian value of the 32 bytes", sval(out), bval(bs))
    for i, x in enumerate(out):
        k.goal(p, "le", "out[%d] < 2^64" % i, x, 2**64 - 1)
    k.settle()
