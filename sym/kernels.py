"""L0 kernel contracts (DESIGN.md section 4), each discharged against the SSA (or the
amd64 assembly) of the real function.  Every function returns nothing and records
obligations in the Check; a `sat` verdict carries the model for replay."""
import time, itertools
import z3
from . import exec as X, dom_lf, dom_bv, asm
from .dom_lf import LF, LFCond
from .check import Ob

F = "filippo.io/edwards25519/field."
E = "filippo.io/edwards25519."
P = 2**255 - 19
L = 2**252 + 27742317777372353535851937790883648493
B = 2**51 + 2**38          # representation invariant: every limb <= B
M51 = 2**51 - 1


class Base:
    """shared concrete state: program + initialised globals"""

    def __init__(self, prog, use_asm=True):
        self.prog = prog
        ex = X.Executor(prog, dom_bv.ConcreteDomain())
        self.asm_funcs = None
        self.has_asm = prog.funcs.get(F + "feMul", {}).get("external", False)
        if self.has_asm:
            self.asm_funcs = asm.install(ex)
        ex.run_init()
        self.ex0 = ex

    def executor(self, dom):
        ex = X.Executor(self.prog, dom)
        ex.meta = dict(self.ex0.meta)
        ex.global_objs = dict(self.ex0.global_objs)
        ex.base_heap = self.ex0.base_heap
        ex._ids = itertools.count(max(ex.meta) + 1000)
        if self.has_asm:
            asm.install(ex)
        return ex

    def global_val(self, name):
        ex = self.ex0
        p = X.Path()
        p.heap = ex.base_heap
        v = ex.load(p, X.Ptr(ex.global_objs[name]))
        if isinstance(v, X.Ptr):
            v = ex.load(p, v)
        return v


def fval(limbs):
    r = LF()
    for i, l in enumerate(limbs):
        r = r + LF.of(l).scale(2 ** (51 * i))
    return r


class LFK:
    """one LF-mode kernel run: fresh domain + executor, helpers for inputs and goals"""

    def __init__(self, base, chk, fname, label=None, timeout_ms=60000):
        self.base, self.chk, self.fname = base, chk, fname
        self.label = label or fname.split(".")[-1].replace(")", "")
        self.dom = dom_lf.LFDomain(timeout_ms)
        self.ex = base.executor(self.dom)
        self.path = X.Path()
        self.path.heap = {k: X.clone_cells(v) for k, v in self.ex.base_heap.items()}
        self.ET = base.prog.T(F + "Element")
        self.inputs = {}
        self.sat_obs = []
        self.replay = None
        chk.used(base.prog, fname, "Int-LF")

    def elem(self, name, bound=B, lo=0):
        limbs = [self.dom.input("%s.l%d" % (name, i), lo, bound) for i in range(5)]
        self.inputs[name] = limbs
        oid = self.ex.new_obj(self.path, self.ET, name=name, init=list(limbs))
        return X.Ptr(oid), limbs

    def out_elem(self, name="out"):
        # receiver with arbitrary prior contents
        return self.elem(name, (1 << 64) - 1)

    def run(self, args, expect_paths=None):
        paths = self.ex.call(self.fname, args, self.path)
        bad = [p for p in paths if p.outcome[0] != "ret"]
        if bad:
            raise X.ExecError("%s: unexpected outcome %s" % (self.fname, bad[0].outcome))
        if expect_paths is not None and len(paths) != expect_paths:
            raise X.ExecError("%s: %d paths, expected %d" % (self.fname, len(paths), expect_paths))
        return paths

    def limbs(self, path, ptr):
        return self.ex.load(path, ptr)

    def each(self, args):
        """explore; returning paths are yielded one by one (goal names get a path tag when there are several);
        a path that panics or hits an engine limitation is recorded as an open obligation (settled by the replay)"""
        paths = self.ex.call(self.fname, args, self.path)
        good = [p for p in paths if p.outcome[0] == "ret"]
        bad = [p for p in paths if p.outcome[0] != "ret"]
        base = self.label
        if bad or not good:
            ob = Ob("%s: returns normally on every path" % base, "sat", 0, [self.fname], "Int-LF", detail=str([p.outcome for p in bad][:2]))
            self.chk.add(ob)
            self.sat_obs.append(ob)
        # a computational kernel keeps no state: it writes only through its pointer arguments, never to package-level
        # storage (a shared scratch variable makes every caller unsafe for concurrent use and impure)
        gw = sorted({self.ex.meta[w[1]].name for p in paths for w in p.log if w[0] == "w" and w[1] in self.ex.meta and self.ex.meta[w[1]].kind == "global"})
        self.chk.fact("%s: writes no package-level storage (no hidden scratch state shared between calls or goroutines)" % base, not gw, [self.fname], "effects", detail=str(gw[:3]))
        for i, p in enumerate(good):
            self.label = base if len(good) == 1 else "%s [path %d/%d]" % (base, i + 1, len(good))
            yield p
        self.label = base

    def model_inputs(self, model):
        out = {}
        for n, limbs in self.inputs.items():
            out[n] = [model.get(next(iter(l.t)), 0) if isinstance(l, LF) and l.t else (l.c if isinstance(l, LF) else l) for l in limbs]
        return out

    def goal(self, path, kind, name, *a):
        t0 = time.time()
        dom = self.dom
        n0 = len(dom.queries)
        if kind == "le":
            r = dom.prove_le(path, a[0], a[1], name)
            neg = [LFCond("<=", -(LF.of(a[0]) - LF.of(a[1])) + 1)]
        elif kind == "eq":
            r = dom.prove_eq(path, a[0], a[1], name)
            neg = [LFCond("!=", dom.expand(LF.of(a[0]) - LF.of(a[1])))]
        elif kind == "congr":
            r = dom.prove_congr(path, a[0], a[1], a[2], name)
            neg = [LFCond("modne", dom.expand(LF.of(a[0]) - LF.of(a[1])), [a[2]])]
        else:
            raise ValueError(kind)
        model = None
        if r == "sat":
            rr, m = dom.check(path, neg, name + "/model", want_model=True)
            if m:
                model = self.model_inputs(m)
        ob = Ob("%s: %s" % (self.label, name), r, time.time() - t0, [self.fname], "Int-LF",
                detail="; ".join("%s=%s" % (q[0].split("/")[-1], q[1]) for q in dom.queries[n0:]), model=model)
        self.chk.add(ob)
        if r != "unsat":
            self.sat_obs.append(ob)
        return ob

    def settle(self, site=None):
        """after all goals of this kernel: replay the counterexamples of sat obligations on the real code"""
        if not self.sat_obs:
            return
        site = site or self.label
        hit = None
        if self.replay is not None:
            models = [o.model for o in self.sat_obs if o.model]
            try:
                hit = self.replay(models, self.chk.seed)
            except Exception as e:
                self.chk.note_inconclusive("replay of %s failed: %r" % (self.label, e))
        for o in self.sat_obs:
            o.verdict = "violated" if hit else ("sat-unreplayed" if o.verdict == "sat" else o.verdict)
        if hit:
            self.chk.violation(site, "%s: %s" % (self.label, hit["what"]), hit)

    def no_wraps(self, path, name="no unintended wrap-around"):
        """the executor introduces a wrap (quotient atom) for + - * << only when the interval does not
        exclude it; for kernels whose arithmetic must never wrap we require that none was introduced"""
        pass


# ---------------------------------------------------------------------------
# field kernels, Int-LF
# ---------------------------------------------------------------------------
def out_bounds(k, path, out, tight=True):
    for i, o in enumerate(out):
        bound = 2**51 + (19 * 2**13 if i == 0 else 2**13) - 1
        k.goal(path, "le", "out.l%d <= 2^51+%s-1" % (i, "19*2^13" if i == 0 else "2^13"), o, bound)
        k.goal(path, "le", "out.l%d >= 0" % i, 0, o)


def k_carry(base, chk, fname=F + "carryPropagateGeneric"):
    fname = base.prog.find("Element).carryPropagateGeneric") if "Generic" in fname else base.prog.find("Element).carryPropagate")
    k = LFK(base, chk, fname)
    v, vl = k.elem("v", (1 << 64) - 1)
    for p in k.each([v]):
        out = k.limbs(p, v)
        k.goal(p, "congr", "value preserved mod p (any 64-bit limbs)", fval(out), fval(vl), P)
        out_bounds(k, p, out)
    k.replay = field_replayer("carryPropagateGeneric" if "Generic" in fname else "carryPropagate", ["v"], lambda v, raw: v["v"], bound=(1 << 64) - 1, inplace=True,
                              check_bounds=2**51 + 19 * 2**13)
    k.settle()


def k_add(base, chk):
    fname = base.prog.find("Element).Add")
    k = LFK(base, chk, fname)
    a, al = k.elem("a")
    b, bl = k.elem("b")
    v, _ = k.out_elem()
    for p in k.each([v, a, b]):
        out = k.limbs(p, v)
        k.goal(p, "congr", "value = a+b mod p", fval(out), fval(al) + fval(bl), P)
        out_bounds(k, p, out)
        # exactness: no 64-bit wrap in the limb additions (value congruence would fail otherwise); also
        # state it directly: sum of limbs below 2^64
        for i in range(5):
            k.goal(p, "le", "a.l%d+b.l%d < 2^64" % (i, i), LF.of(al[i]) + bl[i], 2**64 - 1)
    k.replay = field_replayer("Add", ["a", "b"], lambda v, raw: v["a"] + v["b"])
    k.settle()


def k_sub(base, chk, negate=False):
    fname = base.prog.find("Element).Negate" if negate else "Element).Subtract")
    k = LFK(base, chk, fname)
    a, al = k.elem("a")
    v, _ = k.out_elem()
    if negate:
        args = [v, a]
        spec = -fval(al)
    else:
        b, bl = k.elem("b")
        args = [v, a, b]
        spec = fval(al) - fval(bl)
    for p in k.each(args):
        out = k.limbs(p, v)
        k.goal(p, "congr", "value = %s mod p" % ("-a" if negate else "a-b"), fval(out), spec, P)
        out_bounds(k, p, out)
    k.replay = field_replayer("Negate", ["a"], lambda v, raw: -v["a"]) if negate else field_replayer("Subtract", ["a", "b"], lambda v, raw: v["a"] - v["b"])
    k.settle()


def k_mul(base, chk, which):
    """which in feMulGeneric, feSquareGeneric, feMul, feSquare (the latter two: assembly when present)"""
    fname = F + which
    k = LFK(base, chk, fname, label=which + (" [asm]" if which in ("feMul", "feSquare") and base.has_asm else ""))
    if which in ("feMul", "feSquare") and base.has_asm:
        chk.functions[fname] = {"mode": "Int-LF (amd64 assembly interpreter)", "asm_instrs": len(base.asm_funcs[which]["ins"])}
    a, al = k.elem("a")
    v, _ = k.out_elem()
    if "Square" in which:
        args = [v, a]
        bl = al
    else:
        b, bl = k.elem("b")
        args = [v, a, b]
    if which in ("feMul", "feSquare") and not base.has_asm:
        pass
    # call through the executor (summary for asm, SSA body for Go)
    path = k.path
    if fname in k.ex.summaries:
        k.ex.summaries[fname](k.ex, path, args)
        plist = [path]
    else:
        plist = list(k.each(args))
    p = out = None
    for p in plist:
        out = k.limbs(p, v)
        spec = k.dom.mul(p, fval(al), fval(bl))
        k.goal(p, "congr", "value = a*b mod p", fval(out), spec, P)
        out_bounds(k, p, out)
    if "Square" in which:
        k.replay = field_replayer(which, ["a"], lambda v, raw: v["a"] * v["a"])
    else:
        k.replay = field_replayer(which, ["a", "b"], lambda v, raw: v["a"] * v["b"])
    k.settle()
    return k, p, out, al, bl


def k_mul_equiv(base, chk, sq=False):
    """assembly and portable multiplication produce identical limbs (same atoms on both sides)"""
    g, a_ = (("feSquareGeneric", "feSquare") if sq else ("feMulGeneric", "feMul"))
    k = LFK(base, chk, F + a_, label="%s vs %s" % (a_, g))
    chk.used(base.prog, F + g, "Int-LF")
    a, al = k.elem("a")
    args2 = []
    if not sq:
        b, bl = k.elem("b")
        args2 = [b]
    v1, _ = k.out_elem("out1")
    v2, _ = k.out_elem("out2")
    path = k.path
    k.ex.summaries[F + a_](k.ex, path, [v1, a] + args2)
    # run the portable code on the same state
    (p,) = k.ex.call(F + g, [v2, a] + args2, path)
    o1, o2 = k.limbs(p, v1), k.limbs(p, v2)
    n0 = len(chk.obs)
    for i in range(5):
        k.goal(p, "eq", "limb %d identical" % i, o1[i], o2[i])
    limb_obs = chk.obs[n0:]
    if all(o.ok() for o in limb_obs):
        k.replay = equiv_replayer(g, a_, sq)
        k.settle()
        return
    # limb identity is sufficient, not necessary: the property asks for the same field VALUE within the same bounds.
    # When the two routines arrange their partial products differently the limbs need not coincide (or the solver cannot
    # tell); the weaker statement is proved instead - equal values mod p and both outputs within the invariant
    for o in limb_obs:
        chk.obs.remove(o)
        if o in k.sat_obs:
            k.sat_obs.remove(o)
    chk.extra.setdefault("limb_identity_not_established", []).append("%s vs %s: %s" % (a_, g, [o.verdict for o in limb_obs]))
    k.goal(p, "congr", "same value mod p (limb identity not established)", fval(o1), fval(o2), P)
    for i in range(5):
        k.goal(p, "le", "asm out.l%d within the invariant" % i, o1[i], B)
        k.goal(p, "le", "portable out.l%d within the invariant" % i, o2[i], B)
    k.replay = equiv_replayer(g, a_, sq)
    k.settle()


def k_mult32(base, chk):
    fname = base.prog.find("Element).Mult32")
    k = LFK(base, chk, fname)
    chk.used(base.prog, F + "mul51", "Int-LF")
    x, xl = k.elem("x")
    y = k.dom.input("y", 0, 2**32 - 1)
    v, _ = k.out_elem()
    for p in k.each([v, x, y]):
        out = k.limbs(p, v)
        spec = k.dom.mul(p, fval(xl), y)
        k.goal(p, "congr", "value = x*y mod p", fval(out), spec, P)
        for i, o in enumerate(out):
            k.goal(p, "le", "out.l%d <= B (invariant closed under Mult32)" % i, o, B)
            k.goal(p, "le", "out.l%d >= 0" % i, 0, o)
    k.replay = mult32_replayer()
    k.settle()


def k_reduce(base, chk, bound=B):
    """reduce on every limb vector up to `bound` (default: the closed invariant of C09; C10 uses the
    documented bound limbs < 2^52, because encodings and predicates must be right for every representation)"""
    fname = base.prog.find("Element).reduce")
    k = LFK(base, chk, fname)
    v, vl = k.elem("v", bound)
    for p in k.each([v]):
        out = k.limbs(p, v)
        k.goal(p, "congr", "value preserved mod p", fval(out), fval(vl), P)
        for i, o in enumerate(out):
            k.goal(p, "le", "out.l%d <= 2^51-1" % i, o, M51)
            k.goal(p, "le", "out.l%d >= 0" % i, 0, o)
        k.goal(p, "le", "value(out) <= p-1 (fully reduced)", fval(out), P - 1)
    k.replay = reduce_replayer()
    k.settle()


# ---------------------------------------------------------------------------
# replay of field-kernel counterexamples on the real package
# ---------------------------------------------------------------------------
def field_replayer(op, names, spec, out="v", bound=B, extra_args=(), check_bounds=None, n=96, inplace=False):
    """returns replay(models, seed): runs op natively on candidate inputs; spec(vals: dict name->int value,
    raw: dict name->limbs) -> expected value mod p.  names: input element slot names in argument order."""
    from . import native, ref
    import random

    def replay(models, seed):
        rng = random.Random(seed)
        cands = []
        for m in models:
            if all(nm in m for nm in names):
                cands.append({nm: [min(max(int(x), 0), bound) for x in m[nm]] for nm in names})
        pool = ref.limb_candidates(rng, n, bound)
        for i in range(n):
            cands.append({nm: pool[(i * (j + 1) + j) % len(pool)] if j else pool[i] for j, nm in enumerate(names)})
        ops = []
        for c in cands:
            init = {nm: ref.fmt_limbs(c[nm]) for nm in names}
            if not inplace:
                init[out] = "7,7,7,7,7"
                args = [out] + list(names)
            else:
                args = list(names)
            ops.append({"op": op, "args": args + [str(a) for a in extra_args], "init": init})
        res = native.run_ops("field", ops)
        for c, r in zip(cands, res):
            if "panic" in r:
                return dict(what="panic %s" % r["panic"], op=op, inputs=c)
            o = ref.parse_limbs(r["slots"][names[0] if inplace else out])
            want = spec({nm: ref.fe_val(c[nm]) for nm in names}, c) % P
            got = ref.fe_val(o) % P
            if want != got:
                return dict(what="%s returns %d, expected %d (mod p)" % (op, got, want), op=op, inputs=c, got_limbs=o)
            lim = check_bounds or B
            if any(x > lim for x in o):
                return dict(what="%s output limb above the representation invariant: %s" % (op, o), op=op, inputs=c, got_limbs=o)
        return None
    return replay


def mult32_replayer():
    from . import native, ref
    import random

    def replay(models, seed):
        rng = random.Random(seed)
        cands = []
        for m in models:
            if "x" in m:
                cands.append((m["x"], rng.randrange(2**32)))
                cands.append((m["x"], 2**32 - 1))
        for l in ref.limb_candidates(rng, 64):
            cands.append((l, rng.choice([2**32 - 1, 2**31, 1, 0, rng.randrange(2**32)])))
        ops = [{"op": "Mult32", "args": ["v", "x", str(y)], "init": {"v": "7,7,7,7,7", "x": ref.fmt_limbs(x)}} for x, y in cands]
        res = native.run_ops("field", ops)
        for (x, y), r in zip(cands, res):
            o = ref.parse_limbs(r["slots"]["v"])
            if ref.fe_val(o) % P != ref.fe_val(x) * y % P:
                return dict(what="Mult32 wrong value", op="Mult32", inputs=dict(x=x, y=y), got_limbs=o)
            if any(v > B for v in o):
                return dict(what="Mult32 output limb above the invariant bound: %s" % o, op="Mult32", inputs=dict(x=x, y=y), got_limbs=o)
        return None
    return replay


def reduce_replayer():
    from . import native, ref
    import random

    def replay(models, seed):
        rng = random.Random(seed)
        cands = [m["v"] for m in models if "v" in m] + ref.limb_candidates(rng, 96) + ref.limb_candidates(rng, 64, bound=2**52 - 1)
        for k_ in range(0, 20):     # 2p .. 2p+19 in the loose layout used by Subtract's bias
            cands.append([0xFFFFFFFFFFFDA + k_, 0xFFFFFFFFFFFFE, 0xFFFFFFFFFFFFE, 0xFFFFFFFFFFFFE, 0xFFFFFFFFFFFFE])
        # values around p and 2p in many limb forms
        for t in (P - 1, P, P + 1, 2 * P - 1, 2 * P, 2 * P + 1, 2**255 - 1, 2**255, 2**255 + 18, 2**255 + 19, P - 19, P + 18, P + 19):
            cands.append([(t >> (51 * i)) & (2**51 - 1) if i < 4 else t >> 204 for i in range(5)])
        ops = [{"op": "reduce", "args": ["v"], "init": {"v": ref.fmt_limbs(c)}} for c in cands]
        res = native.run_ops("field", ops)
        for c, r in zip(cands, res):
            o = ref.parse_limbs(r["slots"]["v"])
            if ref.fe_val(o) != ref.fe_val(c) % P:
                return dict(what="reduce(%s) = %d, expected the canonical residue %d" % (c, ref.fe_val(o), ref.fe_val(c) % P), op="reduce", inputs=dict(v=c), got_limbs=o)
            if any(v >= 2**51 for v in o):
                return dict(what="reduce output limb >= 2^51", op="reduce", inputs=dict(v=c), got_limbs=o)
        return None
    return replay


def equiv_replayer(g, a_, sq):
    from . import native, ref
    import random

    def replay(models, seed):
        rng = random.Random(seed)
        cands = []
        for m in models:
            if "a" in m:
                cands.append((m["a"], m.get("b", m["a"])))
        pool = ref.limb_candidates(rng, 128)
        for i in range(0, 128, 2):
            cands.append((pool[i], pool[i + 1]))
        ops = []
        for a, b in cands:
            for fn in (g, a_):
                init = {"v": "7,7,7,7,7", "a": ref.fmt_limbs(a)}
                args = ["v", "a"]
                if not sq:
                    init["b"] = ref.fmt_limbs(b)
                    args.append("b")
                ops.append({"op": fn, "args": args, "init": init})
        res = native.run_ops("field", ops)
        for i, (a, b) in enumerate(cands):
            r1, r2 = res[2 * i]["slots"]["v"], res[2 * i + 1]["slots"]["v"]
            if r1 != r2:
                return dict(what="%s and %s disagree: %s vs %s" % (g, a_, r1, r2), op=a_, inputs=dict(a=a, b=b))
        return None
    return replay


# ---------------------------------------------------------------------------
# scalar (fiat-crypto Montgomery) kernels, Int-LF
# ---------------------------------------------------------------------------
R256 = 2**256


def sval(limbs):
    r = LF()
    for i, l in enumerate(limbs):
        r = r + LF.of(l).scale(2 ** (64 * i))
    return r


def bval(bs):
    r = LF()
    for i, l in enumerate(bs):
        r = r + LF.of(l).scale(2 ** (8 * i))
    return r


class SK(LFK):
    def words(self, name, below_m=True, tyname=E + "fiatScalarMontgomeryDomainFieldElement", n=4, hi=(1 << 64) - 1):
        limbs = [self.dom.input("%s[%d]" % (name, i), 0, hi) for i in range(n)]
        self.inputs[name] = limbs
        ty = self.base.prog.T(tyname)
        oid = self.ex.new_obj(self.path, ty, name=name, init=list(limbs))
        if below_m:
            self.path.pc.append(LFCond("<=", sval(limbs) - (L - 1)))
        return X.Ptr(oid), limbs


def scalar_replayer(op, names, spec, nin=None):
    """replay fiat kernels natively: spec(vals) -> expected eval(out) (exact integer)"""
    from . import native
    import random

    def replay(models, seed):
        rng = random.Random(seed)
        cands = []
        for m in models:
            if all(nm in m for nm in names):
                c = {}
                for nm in names:
                    v = sum(int(x) << (64 * i) for i, x in enumerate(m[nm])) % L
                    c[nm] = v
                cands.append(c)
        specials = [0, 1, 2, L - 1, L - 2, (L - 1) // 2, (L + 1) // 2, 2**252, 2**252 - 1, 2**64 - 1, 2**64, 2**128, 2**192, R256 % L, (R256 * R256) % L, L - (R256 % L)]
        for i in range(80):
            cands.append({nm: rng.choice(specials) if rng.random() < 0.5 else rng.randrange(L) for nm in names})
        from . import ptreplay
        ms = ptreplay.montgomery_structured(2000)
        for i, a_ in enumerate(ms):
            cands.append({nm: (a_ if j == 0 else ms[(i * 7 + 3 * j) % len(ms)]) for j, nm in enumerate(names)})
        if len(names) == 2:
            # variable-by-variable kernels: pairs whose pre-subtraction Montgomery value is structured (both regimes)
            for A_, B_ in ptreplay.montgomery_pairs(400):
                cands.append({names[0]: A_, names[1]: B_})
                cands.append({names[0]: B_, names[1]: A_})
        ops = [{"op": op, "args": ["out"] + names, "init": dict({nm: "w:" + ",".join(str((c[nm] >> (64 * i)) & (2**64 - 1)) for i in range(4)) for nm in names}, out="w:7,7,7,7")} for c in cands]
        res = native.run_ops("", ops)
        for c, r in zip(cands, res):
            if "panic" in r:
                return dict(what="panic " + r["panic"], op=op, inputs=c)
            o = [int(x) for x in r["slots"]["out"][2:].split(",")]
            got = sum(x << (64 * i) for i, x in enumerate(o))
            want = spec(c)
            if got != want:
                return dict(what="%s: eval(out)=%d, expected %d" % (op, got, want), op=op, inputs={k: str(v) for k, v in c.items()})
        return None
    return replay


def k_fiat_mul(base, chk):
    fname = E + "fiatScalarMul"
    k = SK(base, chk, fname)
    chk.used(base.prog, E + "fiatScalarCmovznzU64", "Int-LF (fork on the 0/1 selector)")
    a, al = k.words("a")
    b, bl = k.words("b")
    o, _ = k.words("out", below_m=False)
    # product bound lemma: eval(a)*eval(b) <= (m-1)^2  (sound: both factors in [0, m-1])
    prod = None
    paths = k.run([o, a, b])
    for i, p in enumerate(paths):
        out = k.limbs(p, o)
        prod = k.dom.mul(p, sval(al), sval(bl))
        p.pc.append(LFCond("<=", prod - (L - 1) ** 2))
        p.pc.append(LFCond("<=", -prod))
        k.goal(p, "le", "path %d: eval(out) <= m-1" % i, sval(out), L - 1)
        k.goal(p, "congr", "path %d: out*2^256 = a*b mod m" % i, sval(out).scale(R256), prod, L)
    chk.addq("fiatScalarMul: paths = 2 (final conditional subtraction forks once)", "unsat" if len(paths) == 2 else "error:%d paths" % len(paths), mode="structure", funcs=[fname])
    Rinv = pow(R256, L - 2, L)
    k.replay = scalar_replayer("fiatScalarMul", ["a", "b"], lambda c: c["a"] * c["b"] * Rinv % L)
    k.settle()


def k_fiat_mont(base, chk, to):
    fname = E + ("fiatScalarToMontgomery" if to else "fiatScalarFromMontgomery")
    k = SK(base, chk, fname)
    a, al = k.words("a", tyname=E + ("fiatScalarNonMontgomeryDomainFieldElement" if to else "fiatScalarMontgomeryDomainFieldElement"))
    o, _ = k.words("out", below_m=False, tyname=E + ("fiatScalarMontgomeryDomainFieldElement" if to else "fiatScalarNonMontgomeryDomainFieldElement"))
    paths = k.run([o, a])
    for i, p in enumerate(paths):
        out = k.limbs(p, o)
        k.goal(p, "le", "path %d: eval(out) <= m-1" % i, sval(out), L - 1)
        if to:
            # out * 2^256 = a * 2^512  (i.e. out = a*R)
            k.goal(p, "congr", "path %d: out = a*2^256 mod m" % i, sval(out).scale(R256), sval(al).scale((R256 * R256) % L), L)
        else:
            k.goal(p, "congr", "path %d: out*2^256 = a mod m" % i, sval(out).scale(R256), sval(al), L)
    Rinv = pow(R256, L - 2, L)
    k.replay = scalar_replayer(fname.split(".")[-1], ["a"], (lambda c: c["a"] * R256 % L) if to else (lambda c: c["a"] * Rinv % L))
    k.settle()


def k_fiat_addsub(base, chk, which):
    fname = E + "fiatScalar" + which
    k = SK(base, chk, fname)
    a, al = k.words("a")
    args = [a]
    if which != "Opp":
        b, bl = k.words("b")
        args.append(b)
    o, _ = k.words("out", below_m=False)
    paths = k.run([o] + args)
    for i, p in enumerate(paths):
        out = k.limbs(p, o)
        k.goal(p, "le", "path %d: eval(out) <= m-1" % i, sval(out), L - 1)
        k.goal(p, "le", "path %d: eval(out) >= 0" % i, 0, sval(out))
        spec = {"Add": lambda: sval(al) + sval(bl), "Sub": lambda: sval(al) - sval(bl), "Opp": lambda: -sval(al)}[which]()
        k.goal(p, "congr", "path %d: out = %s mod m" % (i, {"Add": "a+b", "Sub": "a-b", "Opp": "-a"}[which]), sval(out), spec, L)
    pyspec = {"Add": lambda c: (c["a"] + c["b"]) % L, "Sub": lambda c: (c["a"] - c["b"]) % L, "Opp": lambda c: (-c["a"]) % L}[which]
    k.replay = scalar_replayer("fiatScalar" + which, ["a"] if which == "Opp" else ["a", "b"], pyspec)
    k.settle()


def k_fiat_tobytes(base, chk):
    fname = E + "fiatScalarToBytes"
    k = SK(base, chk, fname)
    a, al = k.words("a", tyname="[4]uint64")
    bt = base.prog.T("[32]uint8")
    bs = [k.dom.input("out[%d]" % i, 0, 255) for i in range(32)]
    o = X.Ptr(k.ex.new_obj(k.path, bt, init=list(bs)))
    (p,) = k.run([o, a], 1)
    out = k.limbs(p, o)
    k.goal(p, "eq", "little-endian bytes = eval(arg) (arg < m)", bval(out), sval(al))
    for i, x in enumerate(out):
        if i in (0, 7, 15, 23, 31):
            k.goal(p, "le", "byte %d <= 255" % i, x, 255)
    k.settle()


def k_fiat_frombytes(base, chk):
    fname = E + "fiatScalarFromBytes"
    k = SK(base, chk, fname)
    bt = base.prog.T("[32]uint8")
    bs = [k.dom.input("in[%d]" % i, 0, 255) for i in range(32)]
    k.inputs["in"] = bs
    a = X.Ptr(k.ex.new_obj(k.path, bt, init=list(bs)))
    o, _ = k.words("out", below_m=False, tyname="[4]uint64")
    (p,) = k.run([o, a], 1)
    out = k.limbs(p, o)
    k.goal(p, "eq", "eval(out) = little-endian value of the 32 bytes", sval(out), bval(bs))
    for i, x in enumerate(out):
        k.goal(p, "le", "out[%d] < 2^64" % i, x, 2**64 - 1)
    k.settle()


# ---------------------------------------------------------------------------
# chain mode: fixed addition chains (Invert, Pow22523, Scalar.Invert)
# ---------------------------------------------------------------------------
def k_chain(base, chk, which):
    """the exponent computed by the real SSA (real loop trip counts) equals the specified one, for a
    symbolic input exponent e (result exponent is c*e; the solver refutes c*e != target*e)"""
    from . import absmodes
    fname = base.prog.find("Element)." + which)
    target = {"Invert": P - 2, "Pow22523": 2**252 - 3}[which]
    dom = dom_bv.ConcreteDomain()
    ex = base.executor(dom)
    e = z3.Int("e")
    stats = absmodes.install_chain(ex, e)
    path = X.Path()
    path.heap = {k: X.clone_cells(v) for k, v in ex.base_heap.items()}
    ET = base.prog.T(F + "Element")
    z = X.Ptr(ex.new_obj(path, ET, init=absmodes.Abs(e)))
    v = X.Ptr(ex.new_obj(path, ET, init=absmodes.Abs(z3.Int("junk"))))
    t0 = time.time()

    def chain_battery():
        from . import native, ref
        import random
        rng = random.Random(chk.seed)
        cands = ref.limb_candidates(rng, 24) + [ref.limbs_of(x) for x in ref.chain_preimages(rng)]
        ops = [{"op": which, "args": ["v", "z"], "init": {"v": "7,7,7,7,7", "z": ref.fmt_limbs(c)}} for c in cands]
        resn = native.run_ops("field", ops)
        for c, rr in zip(cands, resn):
            if "panic" in rr:
                return dict(what="%s panics: %s" % (which, rr["panic"]), op=which, inputs=dict(z=c))
            got = ref.fe_val(ref.parse_limbs(rr["slots"]["v"])) % P
            want = pow(ref.fe_val(c) % P, target, P)
            if got != want:
                return dict(what="%s(z) != z^%d mod p for z = %d (got %d)" % (which, target, ref.fe_val(c) % P, got), op=which, inputs=dict(z=c), got=got, want=want)
        return None
    paths = ex.call(fname, [v, z], path)
    if len(paths) != 1 or paths[0].outcome[0] != "ret":
        # the chain-mode abstraction cannot follow this body (it does more than multiply and square): undecided, settled by
        # the native chain battery (structured values and their square roots, so that z and z^2 take limb patterns)
        ob = chk.add(Ob("%s: the body is an addition chain of Multiply / Square calls (followed in chain mode)" % which, "sat", time.time() - t0, [fname], "chain", detail=str([q.outcome for q in paths][:1])))
        hit = chain_battery()
        ob.verdict = "violated" if hit else "sat-unreplayed"
        if hit:
            chk.violation(which, hit["what"], hit)
        return
    p = paths[0]
    res = ex.load(p, v).v
    s = z3.Solver()
    s.set("timeout", 60000)
    s.add(res != target * e)
    r = str(s.check())
    chk.used(base.prog, fname, "chain mode (exponent arithmetic, Multiply/Square summarised by K-mul/K-sq)")
    chk.add(Ob("%s: exponent of the addition chain = %s for every input exponent" % (which, {"Invert": "p-2", "Pow22523": "2^252-3 = (p-5)/8"}[which]),
               r, time.time() - t0, [fname], "chain", detail="%d Square + %d Multiply calls executed" % (stats["sq"], stats["mul"])))
    ret = p.outcome[1][0]
    chk.fact("%s: returns the receiver" % which, ret == v, [fname])
    if r == "sat":
        # replay: compare natively with pow()
        from . import native, ref
        import random
        rng = random.Random(chk.seed)
        cands = ref.limb_candidates(rng, 24)
        ops = [{"op": which, "args": ["v", "z"], "init": {"v": "7,7,7,7,7", "z": ref.fmt_limbs(c)}} for c in cands]
        resn = native.run_ops("field", ops)
        for c, rr in zip(cands, resn):
            got = ref.fe_val(ref.parse_limbs(rr["slots"]["v"])) % P
            want = pow(ref.fe_val(c) % P, target, P)
            if got != want:
                chk.obs[-2].verdict = "violated"
                chk.violation(which, "%s(z) != z^%d mod p" % (which, target), dict(op=which, inputs=dict(z=c), got=got, want=want))
                return
        chk.obs[-2].verdict = "sat-unreplayed"


# ---------------------------------------------------------------------------
# BV-mode kernels (bit shuffling code)
# ---------------------------------------------------------------------------
class BVK:
    def __init__(self, base, chk, fname, label=None, timeout_ms=60000):
        self.base, self.chk, self.fname = base, chk, fname
        self.label = label or fname.split(".")[-1].replace(")", "")
        self.dom = dom_bv.BVDomain(timeout_ms)
        self.ex = base.executor(self.dom)
        self.path = X.Path()
        self.path.heap = {k: X.clone_cells(v) for k, v in self.ex.base_heap.items()}
        self.prog = base.prog
        self.ET = base.prog.T(F + "Element")
        self.sat_obs = []
        self.inputs = {}
        chk.used(base.prog, fname, "BV")

    def bv(self, name, w):
        v = z3.BitVec(name, w)
        self.inputs[name] = v
        return v

    def elem(self, name, bound=None):
        limbs = [self.bv("%s.l%d" % (name, i), 64) for i in range(5)]
        if bound is not None:
            for l in limbs:
                self.path.pc.append(z3.ULE(l, z3.BitVecVal(bound, 64)))
        oid = self.ex.new_obj(self.path, self.ET, name=name, init=list(limbs))
        return X.Ptr(oid), limbs

    def bytes_obj(self, name, n):
        bs = [self.bv("%s[%d]" % (name, i), 8) for i in range(n)]
        oid = self.ex.new_obj(self.path, self.prog.T("[%d]byte" % n) if ("[%d]byte" % n) in self.prog.types else ("array", n, self.prog.T("uint8")), name=name, init=list(bs))
        return oid, bs

    def byte_slice(self, name, n, spare=40):
        """input slice of n symbolic bytes carved out of a larger buffer (spare capacity behind it, as with h[:32] of a
        64-byte digest): writes through append() or re-slicing land in the caller's buffer and show in the effects log"""
        bs = [self.bv("%s[%d]" % (name, i), 8) for i in range(n)]
        oid = self.ex.new_obj(self.path, ("array", n + spare, self.prog.T("uint8")), name=name, init=list(bs) + [0xEE] * spare)
        return X.SliceV(oid, (), 0, n, n + spare), bs, oid

    def run(self, args, path=None):
        return self.ex.call(self.fname, args, path or self.path)

    def prove(self, path, name, goal, mode="BV"):
        """goal: z3 Bool that must hold on this path"""
        t0 = time.time()
        if isinstance(goal, bool):
            r = "unsat" if goal else "sat"
            m = None
            mode = "structure"
        else:
            s = z3.Solver()
            s.set("timeout", self.dom.solver_timeout if hasattr(self.dom, "solver_timeout") else 60000)
            for c in path.pc:
                s.add(c if not isinstance(c, bool) else z3.BoolVal(c))
            s.add(z3.Not(goal))
            rr = s.check()
            r = str(rr)
            from . import xsolve
            xsolve.cross(s, name, r)
            m = None
            if rr == z3.sat:
                mod = s.model()
                m = {n: str(mod.eval(v, model_completion=True)) for n, v in self.inputs.items()}
        ob = Ob("%s: %s" % (self.label, name), r, time.time() - t0, [self.fname], mode, model=m)
        self.chk.add(ob)
        if r == "sat":
            self.sat_obs.append(ob)
        return ob

    def settle(self, replay=None, site=None):
        if not self.sat_obs:
            return
        hit = None
        if replay is not None:
            try:
                hit = replay([o.model for o in self.sat_obs if o.model], self.chk.seed)
            except Exception as e:
                self.chk.note_inconclusive("replay of %s failed: %r" % (self.label, e))
        for o in self.sat_obs:
            o.verdict = "violated" if hit else "sat-unreplayed"
        if hit:
            self.chk.violation(site or self.label, "%s: %s" % (self.label, hit["what"]), hit)


def cat_bytes(bs):
    """little-endian concatenation of 8-bit terms (ints or BVs) as one bit-vector"""
    vs = [z3.BitVecVal(b, 8) if type(b) is int else b for b in bs]
    return z3.Concat(*reversed(vs)) if len(vs) > 1 else vs[0]


def limbs_val(limbs, width):
    tot = z3.BitVecVal(0, width)
    for i, l in enumerate(limbs):
        lv = z3.BitVecVal(l, 64) if type(l) is int else l
        tot = tot + (z3.ZeroExt(width - 64, lv) << (51 * i))
    return tot


def bytes_model_to_hex(m, name, n):
    return bytes(int(m.get("%s[%d]" % (name, i), "0")) for i in range(n)).hex()


def k_setbytes(base, chk):
    fname = base.prog.find("Element).SetBytes")
    k = BVK(base, chk, fname)
    sl, bs, boid = k.byte_slice("x", 32)
    v, vl = k.elem("v")
    paths = k.run([v, sl])
    ok = [p for p in paths if p.outcome[0] == "ret"]
    chk.add(Ob("SetBytes(32 bytes): no panic on any path (%d path(s))" % len(paths), "unsat" if ok and len(ok) == len(paths) else "sat", 0, [fname], "BV"))
    val = cat_bytes(bs)
    for pi, p in enumerate(ok):
        tag = "" if len(ok) == 1 else " [path %d]" % pi
        out = k.ex.load(p, v)
        for i in range(5):
            want = z3.ZeroExt(13, z3.Extract(51 * i + 50, 51 * i, val))
            k.prove(p, "limb %d = bits %d..%d of the input (bit 255 ignored)%s" % (i, 51 * i, 51 * i + 50, tag), (out[i] if not type(out[i]) is int else z3.BitVecVal(out[i], 64)) == want)
        ret = p.outcome[1]
        k.prove(p, "returns (receiver, nil)" + tag, ret[0] == v and ret[1] is None)
        k.prove(p, "input bytes not written" + tag, not any(w[0] == "w" and w[1] == boid for w in p.log))

    def replay(models, seed):
        from . import native, ref
        import random
        rng = random.Random(seed)
        cands = [bytes_model_to_hex(m, "x", 32) for m in models]
        cands += ["ff" * 32, "00" * 32, "ed" + "ff" * 30 + "7f", "ec" + "ff" * 30 + "ff", "01" + "00" * 30 + "80"]
        cands += [bytes(rng.randrange(256) for _ in range(32)).hex() for _ in range(40)]
        res = native.run_ops("field", [{"op": "SetBytes", "args": ["v", "x"], "init": {"v": "7,7,7,7,7", "x": "hex:" + c}} for c in cands])
        for c, r in zip(cands, res):
            val = int.from_bytes(bytes.fromhex(c), "little") & ((1 << 255) - 1)
            want = [(val >> (51 * i)) & M51 for i in range(5)]
            if r.get("err") or ref.parse_limbs(r["slots"]["v"]) != want:
                return dict(what="SetBytes(%s) limbs %s, expected %s" % (c, r["slots"].get("v"), want), op="SetBytes", inputs=dict(x=c))
            if r["slots"]["x"] != "hex:" + c:
                return dict(what="SetBytes modified its input", op="SetBytes", inputs=dict(x=c))
        return None
    k.settle(replay)


def reduce_summary(k):
    """contract K-red as a summary: reduce() leaves 5 fresh limbs < 2^51 (value relation tracked by the caller)"""
    def summ(ex, path, args):
        (v,) = args
        n = path.dstate.setdefault("nred", [0])
        n[0] += 1
        limbs = [z3.BitVec("red%d.l%d" % (n[0], i), 64) for i in range(5)]
        for l in limbs:
            path.pc.append(z3.ULE(l, z3.BitVecVal(M51, 64)))
        path.dstate.setdefault("reduced", []).append((ex.load(path, v), limbs))
        ex.store(path, v, tuple(limbs))
        return v
    return summ


def _bytes_replay(models, seed):
    from . import native, ref
    import random
    rng = random.Random(seed)
    cands = ref.limb_candidates(rng, 64)
    res = native.run_ops("field", [{"op": "Bytes", "args": ["v"], "init": {"v": ref.fmt_limbs(c)}} for c in cands])
    for c, r in zip(cands, res):
        want = (ref.fe_val(c) % P).to_bytes(32, "little").hex()
        if r["bytes"] != want:
            return dict(what="Bytes(%s) = %s, expected %s" % (c, r["bytes"], want), op="Bytes", inputs=dict(v=c))
    return None


def k_bytes(base, chk):
    """serialisation loop of Element.bytes on top of the reduce contract"""
    fname = base.prog.find("Element).Bytes")
    k = BVK(base, chk, fname)
    chk.used(base.prog, base.prog.find("Element).bytes"), "BV")
    chk.used(base.prog, "(encoding/binary.littleEndian).PutUint64", "BV (standard library SSA)")
    k.ex.summaries[base.prog.find("Element).reduce")] = reduce_summary(k)
    v, vl = k.elem("v")
    paths = k.run([v])
    ok = [p for p in paths if p.outcome[0] == "ret"]
    chk.add(Ob("Bytes: no panic on any path (%d path(s))" % len(paths), "unsat" if ok and len(ok) == len(paths) else "sat", 0, [fname], "BV"))
    for p in ok:
        _k_bytes_path(k, chk, fname, p, v, vl, "" if len(ok) == 1 else " [path %d]" % ok.index(p))
    k.settle(_bytes_replay)


def _k_bytes_path(k, chk, fname, p, v, vl, tag):
    if not p.dstate.get("reduced"):
        chk.soft("Bytes%s: reduces a copy of the receiver before serialising" % tag, False, [fname])
        return
    red = p.dstate["reduced"][0][1]
    sl = p.outcome[1][0]
    ooid = sl.obj
    out = p.heap[ooid][0]
    k.prove(p, "reduce() is applied to a copy holding the receiver's limbs", tuple(map(str, p.dstate["reduced"][0][0])) == tuple(map(str, vl)))
    k.prove(p, "result buffer is allocated by this call", k.ex.meta[ooid].kind in ("heap", "stack") and ooid > v.obj)
    k.prove(p, "32 output bytes = little-endian value of the reduced limbs", cat_bytes(out) == limbs_val(red, 256))
    k.prove(p, "bit 255 of the encoding is clear", z3.Extract(7, 7, out[31] if type(out[31]) is not int else z3.BitVecVal(out[31], 8)) == 0)
    k.prove(p, "receiver element not written (works on a copy)", not any(w[0] == "w" and w[1] == v.obj for w in p.log))
    k.prove(p, "returns out[:] (len 32)", isinstance(sl, X.SliceV) and sl.len == 32 and sl.off == 0)



def k_select_swap(base, chk):
    fname = base.prog.find("Element).Select")
    k = BVK(base, chk, fname)
    chk.used(base.prog, F + "mask64Bits", "BV")
    a, al = k.elem("a")
    b, bl = k.elem("b")
    v, vl = k.elem("v")
    cond = k.bv("cond", 64)
    k.path.pc.append(z3.Or(cond == 0, cond == 1))
    (p,) = k.run([v, a, b, cond])
    out = k.ex.load(p, v)
    k.prove(p, "cond=1 -> v=a, cond=0 -> v=b (all limbs, any 64-bit contents)",
            z3.And([z3.If(cond == 1, out[i] == al[i], out[i] == bl[i]) for i in range(5)]))
    k.prove(p, "arguments not written", not any(w[0] == "w" and w[1] in (a.obj, b.obj) for w in p.log))
    k.prove(p, "returns the receiver", p.outcome[1][0] == v)
    k.settle(lambda models, seed: _sel_replay(models, seed, "Select"))
    # aliasing variants v==a, v==b
    for al_name, args in (("v=a", lambda: (a, a, b)), ("v=b", lambda: (b, a, b))):
        k2 = BVK(base, chk, fname, label="Select[%s]" % al_name)
        a, al = k2.elem("a")
        b, bl = k2.elem("b")
        cond = k2.bv("cond", 64)
        k2.path.pc.append(z3.Or(cond == 0, cond == 1))
        vv, aa, bb = args()
        (p,) = k2.run([vv, aa, bb, cond])
        out = k2.ex.load(p, vv)
        k2.prove(p, "aliased receiver: same result as with distinct storage",
                 z3.And([z3.If(cond == 1, out[i] == al[i], out[i] == bl[i]) for i in range(5)]))
        k2.settle(lambda models, seed: _sel_replay(models, seed, "Select"))

    fname = base.prog.find("Element).Swap")
    k = BVK(base, chk, fname)
    v, vl = k.elem("v")
    u, ul = k.elem("u")
    cond = k.bv("cond", 64)
    k.path.pc.append(z3.Or(cond == 0, cond == 1))
    (p,) = k.run([v, u, cond])
    ov, ou = k.ex.load(p, v), k.ex.load(p, u)
    k.prove(p, "cond=1 exchanges, cond=0 leaves both unchanged",
            z3.And([z3.If(cond == 1, z3.And(ov[i] == ul[i], ou[i] == vl[i]), z3.And(ov[i] == vl[i], ou[i] == ul[i])) for i in range(5)]))
    k.settle(lambda models, seed: _sel_replay(models, seed, "Swap"))
    k3 = BVK(base, chk, fname, label="Swap[v=u]")
    v, vl = k3.elem("v")
    cond = k3.bv("cond", 64)
    k3.path.pc.append(z3.Or(cond == 0, cond == 1))
    (p,) = k3.run([v, v, cond])
    ov = k3.ex.load(p, v)
    k3.prove(p, "swap with itself leaves the value unchanged", z3.And([ov[i] == vl[i] for i in range(5)]))
    k3.settle(lambda models, seed: _sel_replay(models, seed, "Swap"))


def _sel_replay(models, seed, op):
    from . import native, ref
    import random
    rng = random.Random(seed)
    pool = ref.limb_candidates(rng, 40, bound=(1 << 64) - 1)
    ops, meta = [], []
    for i in range(0, 40, 2):
        for c in (0, 1):
            if op == "Select":
                for args in (["v", "a", "b"], ["a", "a", "b"], ["b", "a", "b"]):
                    ops.append({"op": "Select", "args": args + [str(c)], "init": {"v": "7,7,7,7,7", "a": ref.fmt_limbs(pool[i]), "b": ref.fmt_limbs(pool[i + 1])}})
                    meta.append((pool[i], pool[i + 1], c, args[0]))
            else:
                ops.append({"op": "Swap", "args": ["a", "b", str(c)], "init": {"a": ref.fmt_limbs(pool[i]), "b": ref.fmt_limbs(pool[i + 1])}})
                meta.append((pool[i], pool[i + 1], c, None))
                # an element swapped with itself
                ops.append({"op": "Swap", "args": ["a", "a", str(c)], "init": {"a": ref.fmt_limbs(pool[i])}})
                meta.append((pool[i], pool[i], c, "self"))
    res = native.run_ops("field", ops)
    for (a, b, c, dst), r in zip(meta, res):
        if op == "Select":
            want = a if c == 1 else b
            if ref.parse_limbs(r["slots"][dst]) != want:
                return dict(what="Select(a,b,%d) into %s wrong: %s" % (c, dst, r["slots"]), op=op, inputs=dict(a=a, b=b, cond=c))
            others = [n for n in ("a", "b") if n != dst]
            if any(ref.parse_limbs(r["slots"][n]) != {"a": a, "b": b}[n] for n in others):
                return dict(what="Select modified an argument", op=op, inputs=dict(a=a, b=b, cond=c))
        else:
            wa, wb = (b, a) if c == 1 else (a, b)
            if dst == "self":
                if ref.parse_limbs(r["slots"]["a"]) != a:
                    return dict(what="v.Swap(v, %d) changed v: %s, was %s" % (c, r["slots"]["a"], a), op=op, inputs=dict(a=a, cond=c))
                continue
            if ref.parse_limbs(r["slots"]["a"]) != wa or ref.parse_limbs(r["slots"]["b"]) != wb:
                return dict(what="Swap(cond=%d) wrong: %s" % (c, r["slots"]), op=op, inputs=dict(a=a, b=b, cond=c))
    return None


def bytes_summary(k, tag="bytes"):
    """Element.Bytes as a summary: fresh 32-byte array (the canonical encoding, contract K-red + K-ser);
    the same element contents yield the same bytes (functional consistency is added by the caller when needed)"""
    def summ(ex, path, args):
        (v,) = args
        n = path.dstate.setdefault("nbytes", [0])
        n[0] += 1
        bs = [z3.BitVec("%s%d[%d]" % (tag, n[0], i), 8) for i in range(32)]
        oid = ex.new_obj(path, ("array", 32, ex.prog.T("uint8")), name="Bytes()", init=list(bs), kind="heap")
        path.dstate.setdefault("bytes_of", []).append((ex.load(path, v), bs))
        return X.SliceV(oid, (), 0, 32, 32)
    return summ


def canon_summaries(k, ghosts):
    """Element.Bytes / Element.reduce by their contracts (K-red, K-ser, discharged from the real code in the same check),
    stated over a ghost 'canonical value' per distinct limb content: Bytes = the 32-byte little-endian encoding of the
    ghost, reduce = the five 51-bit limbs of the ghost, ghost < p.  ghosts: content key -> 255-bit term (pre-seeded with
    the operands' ghosts); unknown contents get fresh ghosts."""
    ex = k.ex

    def ghost_of(path, contents):
        key = tuple(map(str, contents))
        g = path.dstate.setdefault("ghosts", dict(ghosts)).get(key)
        if g is None:
            n = path.dstate.setdefault("nghost", [0])
            n[0] += 1
            g = k.bv("canon%d" % n[0], 255)
            path.pc.append(z3.ULT(g, z3.BitVecVal(P, 255)))
            path.dstate["ghosts"][key] = g
        return g

    def bytes_s(ex_, path, args):
        (v,) = args
        g = ghost_of(path, ex_.load(path, v))
        n = path.dstate.setdefault("nbytes", [0])
        n[0] += 1
        bs = [z3.BitVec("bytes%d[%d]" % (n[0], i), 8) for i in range(32)]
        path.pc.append(cat_bytes(bs) == z3.ZeroExt(1, g))
        oid = ex_.new_obj(path, ("array", 32, ex_.prog.T("uint8")), name="Bytes()", init=list(bs), kind="heap")
        path.dstate.setdefault("canon_used", []).append(g)
        return X.SliceV(oid, (), 0, 32, 32)

    def reduce_s(ex_, path, args):
        (v,) = args
        g = ghost_of(path, ex_.load(path, v))
        n = path.dstate.setdefault("nred", [0])
        n[0] += 1
        limbs = [z3.BitVec("red%d.l%d" % (n[0], i), 64) for i in range(5)]
        for l in limbs:
            path.pc.append(z3.ULE(l, z3.BitVecVal(M51, 64)))
        path.pc.append(limbs_val(limbs, 256) == z3.ZeroExt(1, g))
        # the reduced limbs denote the same ghost (reduce is idempotent)
        path.dstate["ghosts"][tuple(map(str, limbs))] = g
        ex_.store(path, v, tuple(limbs))
        path.dstate.setdefault("canon_used", []).append(g)
        return v
    ex.summaries[k.prog.find("Element).Bytes")] = bytes_s
    ex.summaries[k.prog.find("Element).reduce")] = reduce_s


def k_equal_isneg(base, chk):
    """Element.Equal(v, u) = 1 iff the canonical values agree, else 0 - whatever way the body obtains them (through
    Bytes + ConstantTimeCompare as today, or through reduce and limb comparisons): both Bytes and reduce are replaced by
    their contracts over ghost canonical values, the comparison code itself is executed bit-precisely."""
    fname = base.prog.find("Element).Equal")
    k = BVK(base, chk, fname)
    chk.used(base.prog, "crypto/subtle.ConstantTimeCompare", "BV (standard library SSA)")
    v, vl = k.elem("v", 2**52 - 1)     # the documented precondition of the field operations: limbs < 2^52
    u, ul = k.elem("u", 2**52 - 1)
    gv, gu = k.bv("canon(v)", 255), k.bv("canon(u)", 255)
    k.path.pc += [z3.ULT(gv, z3.BitVecVal(P, 255)), z3.ULT(gu, z3.BitVecVal(P, 255))]
    canon_summaries(k, {tuple(map(str, vl)): gv, tuple(map(str, ul)): gu})
    paths = k.run([v, u])
    bad = [p for p in paths if p.outcome[0] != "ret"]
    chk.add(Ob("Equal: returns normally on every path (%d path(s))" % len(paths), "unsat" if paths and not bad else "sat", 0, [fname], "BV", detail=str([p.outcome for p in bad][:2])))
    for pi, p in enumerate(p for p in paths if p.outcome[0] == "ret"):
        tag = "" if len(paths) == 1 else " [path %d]" % pi
        r = p.outcome[1][0]
        rv = r if not type(r) is int else z3.BitVecVal(r, 64)
        k.prove(p, "returns exactly 1 when the canonical values of the operands are equal, else exactly 0" + tag, z3.If(gv == gu, rv == 1, rv == 0))
        wr = [w for w in p.log if w[0] == "w" and w[1] in (v.obj, u.obj)]
        k.prove(p, "operands not written" + tag, not wr)

    def replay(models, seed):
        from . import native, ref
        import random
        rng = random.Random(seed)
        pairs = []
        for m in models:
            if "canon(v)" in m and "canon(u)" in m:
                a, b = int(m["canon(v)"]) % P, int(m["canon(u)"]) % P
                pairs += [(ref.limbs_of(a), ref.limbs_of(b)), (ref.limbs_of(b), ref.limbs_of(a))]
        pool = ref.limb_candidates(rng, 40)
        for i, a in enumerate(pool):
            pairs += [(a, a), (a, pool[(i + 1) % len(pool)]), (a, ref.limbs_of(ref.fe_val(a) % P)), (a, ref.limbs_of((ref.fe_val(a) + 1) % P))]
            # values differing in a single bit / a single limb-aligned chunk
            va = ref.fe_val(a) % P
            for bit in (0, 31, 32, 50, 51, 83, 127, 200, 254):
                pairs.append((ref.limbs_of(va), ref.limbs_of((va ^ (1 << bit)) % P)))
        ops = [{"op": "Equal", "args": ["a", "b"], "init": {"a": ref.fmt_limbs(a), "b": ref.fmt_limbs(b)}} for a, b in pairs]
        res = native.run_ops("field", ops)
        for (a, b), r in zip(pairs, res):
            if "panic" in r:
                return dict(what="Equal panics: %s" % r["panic"], op="Equal", inputs=dict(a=a, b=b))
            want = 1 if ref.fe_val(a) % P == ref.fe_val(b) % P else 0
            if r["int"] != want:
                return dict(what="Element.Equal(%s, %s) = %s, expected %d" % (a, b, r["int"], want), op="Equal", inputs=dict(a=a, b=b))
        return None
    k.settle(replay)

    fname = base.prog.find("Element).IsNegative")
    k = BVK(base, chk, fname)
    v, vl = k.elem("v", 2**52 - 1)
    gv = k.bv("canon(v)", 255)
    k.path.pc.append(z3.ULT(gv, z3.BitVecVal(P, 255)))
    canon_summaries(k, {tuple(map(str, vl)): gv})
    paths = k.run([v])
    bad = [p for p in paths if p.outcome[0] != "ret"]
    chk.add(Ob("IsNegative: returns normally on every path (%d path(s))" % len(paths), "unsat" if paths and not bad else "sat", 0, [fname], "BV"))
    for pi, p in enumerate(p for p in paths if p.outcome[0] == "ret"):
        tag = "" if len(paths) == 1 else " [path %d]" % pi
        r = p.outcome[1][0]
        rv = r if not type(r) is int else z3.BitVecVal(r, 64)
        k.prove(p, "returns bit 0 of the canonical encoding (parity of the reduced value), as 0/1" + tag, rv == z3.ZeroExt(63, z3.Extract(0, 0, gv)))
        k.prove(p, "operand not written" + tag, not [w for w in p.log if w[0] == "w" and w[1] == v.obj])

    def replay_neg(models, seed):
        from . import native, ref
        import random
        rng = random.Random(seed)
        cands = [ref.limbs_of(int(m["canon(v)"])) for m in models if "canon(v)" in m]
        # the representation the solver found (limbs within the documented bound), and loose forms of small values
        cands += [[int(m["v.l%d" % i]) for i in range(5)] for m in models if all("v.l%d" % i in m for i in range(5))]
        M_ = 2**51 - 1
        for k_ in list(range(0, 40)) + [2**51 - 19, 2**51 - 1]:
            cands += [[k_, 2**51, M_, M_, M_], [k_, M_, M_, M_, 2**51], [k_ + 2**51, M_, M_, M_, M_], [k_, 0, 0, 2**51, M_], [(k_ + 2**51 - 19) % 2**52, M_, M_, M_, M_]]
        cands += ref.limb_candidates(rng, 64, bound=2**52 - 1)
        res = native.run_ops("field", [{"op": "IsNegative", "args": ["v"], "init": {"v": ref.fmt_limbs(c)}} for c in cands])
        for c, r in zip(cands, res):
            if "panic" in r or r["int"] != (ref.fe_val(c) % P) & 1:
                return dict(what="IsNegative(%s) = %s, expected %d" % (c, r.get("int", r.get("panic")), (ref.fe_val(c) % P) & 1), op="IsNegative", inputs=dict(v=c))
        return None
    k.settle(replay_neg)


def _setwide_replay(models, seed):
    from . import native, ref
    import random
    rng = random.Random(seed)
    cands = []
    for m in models:
        if "x" in m:
            cands.append(bytes(int(b) & 255 for b in m["x"]).hex())
    cands += ["ff" * 64, "00" * 64, "00" * 31 + "80" + "00" * 32, "00" * 63 + "80", "ff" * 32 + "00" * 32, "00" * 32 + "ff" * 32]
    cands += [bytes(rng.randrange(256) for _ in range(64)).hex() for _ in range(40)]
    res = native.run_ops("field", [{"op": "SetWideBytes", "args": ["v", "x"], "init": {"v": "7,7,7,7,7", "x": "hex:" + c}} for c in cands])
    for c, r in zip(cands, res):
        want = int.from_bytes(bytes.fromhex(c), "little") % P
        o = ref.parse_limbs(r["slots"]["v"])
        if r.get("err") or ref.fe_val(o) % P != want:
            return dict(what="SetWideBytes(%s) value %d, expected %d" % (c, ref.fe_val(o) % P, want), op="SetWideBytes", inputs=dict(x=c))
        if any(x > B for x in o):
            return dict(what="SetWideBytes output limb above invariant", op="SetWideBytes", inputs=dict(x=c))
    return None


def k_setwide(base, chk):
    fname = base.prog.find("Element).SetWideBytes")
    k = LFK(base, chk, fname)
    k.dom.qq_rule = True
    bs = [k.dom.input("x[%d]" % i, 0, 255) for i in range(64)]
    k.inputs["x"] = bs

    def setbytes_summary(ex, path, args):
        # contract of Element.SetBytes (discharged bit-precisely by k_setbytes): limbs < 2^51 whose value is the
        # low 255 bits of the 32 input bytes
        vv, sl = args
        if sl.len != 32:
            raise X.ExecError("SetBytes summary: len %r" % (sl.len,))
        inb = [ex.load(path, X.Ptr(sl.obj, sl.path + (sl.off + i,))) for i in range(32)]
        n = path.dstate.setdefault("nsb", [0])
        n[0] += 1
        limbs = [k.dom.input("sb%d.l%d" % (n[0], i), 0, M51) for i in range(5)]
        q, _ = k.dom.divmod(path, inb[31], 128)
        path.pc.append(LFCond("==", fval(limbs) + q.scale(2**255) - bval(inb)))
        ex.store(path, vv, tuple(limbs))
        return (vv, None)
    k.ex.summaries[base.prog.find("Element).SetBytes")] = setbytes_summary
    oid = k.ex.new_obj(k.path, ("array", 104, base.prog.T("uint8")), init=list(bs) + [0xEE] * 40)
    v, _ = k.out_elem()
    paths = k.run([v, X.SliceV(oid, (), 0, 64, 104)])
    if len(paths) != 1 or paths[0].outcome[0] != "ret":
        ob = Ob("SetWideBytes: one returning path on 64 bytes", "sat", 0, [fname], "Int-LF", detail=str([q_.outcome for q_ in paths][:2]))
        chk.add(ob)
        k.sat_obs.append(ob)
        k.replay = _setwide_replay
        k.settle()
        return
    (p,) = paths
    out = k.limbs(p, v)
    k.goal(p, "congr", "value = 512-bit little-endian input mod p", fval(out), bval(bs), P)
    out_bounds(k, p, out)
    ret = p.outcome[1]
    chk.fact("SetWideBytes: returns (receiver, nil); input not written", ret[0] == v and ret[1] is None and not any(w[0] == "w" and w[1] == oid for w in p.log), [fname])

    def replay(models, seed):
        from . import native, ref
        import random
        rng = random.Random(seed)
        cands = []
        for m in models:
            if "x" in m:
                cands.append(bytes(int(b) & 255 for b in m["x"]).hex())
        cands += ["ff" * 64, "00" * 64, "00" * 31 + "80" + "00" * 32, "00" * 63 + "80", "ff" * 32 + "00" * 32, "00" * 32 + "ff" * 32]
        cands += [bytes(rng.randrange(256) for _ in range(64)).hex() for _ in range(40)]
        res = native.run_ops("field", [{"op": "SetWideBytes", "args": ["v", "x"], "init": {"v": "7,7,7,7,7", "x": "hex:" + c}} for c in cands])
        for c, r in zip(cands, res):
            want = int.from_bytes(bytes.fromhex(c), "little") % P
            o = ref.parse_limbs(r["slots"]["v"])
            if r.get("err") or ref.fe_val(o) % P != want:
                return dict(what="SetWideBytes(%s) value %d, expected %d" % (c, ref.fe_val(o) % P, want), op="SetWideBytes", inputs=dict(x=c))
            if any(x > B for x in o):
                return dict(what="SetWideBytes output limb above invariant", op="SetWideBytes", inputs=dict(x=c))
        return None
    k.replay = replay
    k.settle()


def k_wrappers(base, chk):
    """Multiply/Square are thin wrappers around feMul/feSquare with the arguments in order, returning the receiver"""
    for meth, callee, n in (("Multiply", "feMul", 3), ("Square", "feSquare", 2)):
        fname = base.prog.find("Element)." + meth)
        dom = dom_bv.ConcreteDomain()
        ex = base.executor(dom)
        seen = []
        ex.summaries[F + callee] = lambda ex_, path, args, seen=seen: seen.append(list(args))
        path = X.Path()
        path.heap = {k: X.clone_cells(v) for k, v in ex.base_heap.items()}
        ET = base.prog.T(F + "Element")
        ptrs = [X.Ptr(ex.new_obj(path, ET)) for _ in range(n)]
        (p,) = ex.call(fname, ptrs, path)
        ok = p.outcome[0] == "ret" and p.outcome[1][0] == ptrs[0] and seen == [ptrs] and not any(w[0] == "w" for w in p.log)
        chk.used(base.prog, fname, "structure")
        chk.add(Ob("%s: calls %s(v, args...) exactly once, returns the receiver, no other effect" % (meth, callee), "unsat" if ok else "sat", 0, [fname], "structure"))


def k_len_reject(base, chk, fname, good_len, recv_type, label):
    """every length other than good_len (one symbolic length): (nil, error), receiver and input untouched, no panic"""
    k = BVK(base, chk, fname, label=label)
    n = k.bv("len", 64)
    k.path.pc.append(n >= 0)
    k.path.pc.append(n != good_len)
    k.path.pc.append(n <= 1 << 40)
    boid = k.ex.new_obj(k.path, ("array", 0, base.prog.T("uint8")), name="x(backing array of symbolic length)", init=[])
    sl = X.SliceV(boid, (), 0, n, n)
    roid = k.ex.new_obj(k.path, recv_type, name="receiver")
    # arbitrary prior receiver contents: fill leaves with fresh symbols
    cnt = [0]

    def havoc(c):
        if type(c) is list:
            return [havoc(x) for x in c]
        if type(c) is int:
            cnt[0] += 1
            return z3.BitVec("recv%d" % cnt[0], 64)
        return c
    k.path.heap[roid] = [havoc(k.path.heap[roid][0])]
    paths = k.run([X.Ptr(roid), sl])
    good = True
    why = ""
    for p in paths:
        if p.outcome[0] != "ret":
            good, why = False, "outcome %s" % (p.outcome,)
            break
        r = p.outcome[1]
        if r[0] is not None or r[1] is None:
            good, why = False, "returned (%r, %r)" % (r[0], r[1])
            break
        if any(w[0] == "w" and w[1] in (roid, boid) for w in p.log):
            good, why = False, "receiver or input written on the error path"
            break
    ob = Ob("%s: any length != %d -> (nil, error), receiver and input unwritten, no panic (%d path(s), length symbolic)" % (label, good_len, len(paths)),
            "unsat" if good else "sat", k.dom.qtime, [fname], "BV (symbolic slice length, path feasibility by z3)", detail=why)
    chk.add(ob)
    if not good:
        k.sat_obs.append(ob)

    def replay(models, seed):
        from . import native
        pkg = "field" if "field" in fname else ""
        op = label if pkg == "field" else {"Scalar": "S.", "Point": "P."}[label.split(".")[0]] + label.split(".")[1]
        lens = [0, 1, good_len - 1, good_len + 1, 2 * good_len, 31, 33, 63, 65, 16]
        lens = [l for l in lens if l != good_len and l >= 0]
        init_recv = {"field": "7,7,7,7,7", "S.": "w:7,7,7,7", "P.": "pt:1,2,3,4,5;1,2,3,4,5;1,2,3,4,5;1,2,3,4,5"}["field" if pkg == "field" else op[:2]]
        ops = [{"op": op if pkg else op, "args": ["v", "x"], "init": {"v": init_recv, "x": "hex:" + "ab" * l}} for l in lens]
        if pkg == "field":
            for o in ops:
                o["op"] = label.split(".")[-1]
        res = native.run_ops(pkg, ops)
        for l, r in zip(lens, res):
            if "panic" in r or not r.get("err") or not r.get("retnil") or r["slots"]["v"] != init_recv or r["slots"]["x"] != "hex:" + "ab" * l:
                return dict(what="%s with %d bytes: %s" % (label, l, r), op=op, inputs=dict(len=l))
        return None
    k.settle(replay)
