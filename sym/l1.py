"""L1: point formulas in ring mode + solver-validated certificates (DESIGN.md 3.3, 4).

Representation predicates (d symbolic, all over GF(p)):
  P3(X,Y,Z,T)    : Z != 0,  ZT = XY,  -X^2+Y^2 = Z^2 + d T^2            affine point (X/Z, Y/Z)
  P2(X,Y,Z)      : Z != 0,  (Y^2-X^2) Z^2 = Z^4 + d X^2 Y^2             affine point (X/Z, Y/Z)
  P1xP1(X,Y,Z,T) : Z,T != 0, point (X/Z, Y/T) on the curve
  cached(q)      : (Y+X, Y-X, Z, 2dT) of a P3 q;  affine cached(q): (y+x, y-x, 2dxy) of an affine q
"""
import time
from . import exec as X, dom_bv, ringmode, certs
from .poly import Poly
from .absmodes import Abs
from .check import Ob

E = "filippo.io/edwards25519."
F = "filippo.io/edwards25519/field."
P = 2**255 - 19


class L1:
    def __init__(self, base, chk):
        self.base, self.chk, self.prog = base, chk, base.prog
        self.d = Poly.var("d")
        self.ex = base.executor(dom_bv.BVDomain())
        self.ring, self.heap = ringmode.install(self.ex, base.ex0.base_heap, {E + "d": self.d, E + "d2": self.d * 2})
        self.ex.base_heap = self.heap
        self.lemmas_done = False

    def path(self):
        p = X.Path()
        p.heap = {k: X.clone_cells(v) for k, v in self.heap.items()}
        return p

    def T(self, n):
        return self.prog.T(E + n)

    COORDS = {"Point": ("x", "y", "z", "t"), "projP1xP1": ("X", "Y", "Z", "T"), "projP2": ("X", "Y", "Z"), "projCached": ("YplusX", "YminusX", "Z", "T2d"),
              "affineCached": ("YplusX", "YminusX", "T2d")}

    def coord_index(self, tname):
        """positions of the coordinate fields in the struct as declared in the current source (by field name); any other
        field (padding markers, or state a change may have added) keeps its zero value in harness-built objects"""
        fields = self.T(tname).u.fields
        names = [f["name"] for f in fields]
        want = self.COORDS[tname]
        if not all(n in names for n in want):
            raise X.ExecError("struct %s no longer has the coordinate fields %s (has %s)" % (tname, want, names))
        return [names.index(n) for n in want]

    def obj(self, path, tname, polys, name=""):
        oid = self.ex.new_obj(path, self.T(tname), name=name)
        cells = path.heap[oid][0]
        for i, q in zip(self.coord_index(tname), polys):
            cells[i] = Abs(q, False)
        return X.Ptr(oid)

    def zero_obj(self, path, tname):
        return X.Ptr(self.ex.new_obj(path, self.T(tname)))

    def junk_obj(self, path, tname, prefix):
        n = {"Point": 4, "projP1xP1": 4, "projP2": 3, "projCached": 4, "affineCached": 3}[tname]
        return self.obj(path, tname, [Poly.var("%s%d" % (prefix, i)) for i in range(n)])

    def read(self, path, ptr, tname):
        c = path.heap[ptr.obj][0]
        return [c[i].v for i in self.coord_index(tname)]

    def call1(self, fname, args, path):
        ps = self.ex.call(fname, args, path)
        if len(ps) != 1 or ps[0].outcome[0] != "ret":
            raise X.ExecError("%s: outcomes %s" % (fname, [p.outcome for p in ps]))
        return ps[0]

    def goal(self, label, name, g, stages, mult, fname, key=None):
        r = certs.prove(g, stages, mult)
        ob = Ob("%s: %s" % (label, name), r["verdict"], r["seconds"], [fname], "ring mode + certificate (search %.2fs, multiplier %s)" % (r["search_s"], r.get("multiplier")),
                detail="cofactor sizes %s" % r.get("cofactor_terms", ""))
        ob.goal_poly = g
        self.chk.add(ob)
        return ob

    # ---- generators
    def p3(self, suffix):
        return certs.PointSyms(suffix, self.d)

    def stages_p3(self, pts):
        hs = [p.h for p in pts]
        cs = [p.c2 for p in pts]
        o1 = [p.names[3] for p in pts]
        o2 = [p.names[1] for p in pts] + [p.names[2] for p in pts] + [p.names[0] for p in pts] + ["d"]
        return [(hs, o1), (cs, o2)], [p.names[2] for p in pts]

    def lemmas(self):
        if self.lemmas_done:
            return
        self.lemmas_done = True
        pt = self.p3("1")
        r, s = certs.lemma_cprime(pt)
        self.chk.add(Ob("lemma: T-free curve equation c' = Z^2*c + d*h*(2XY+h) (so c'=0 for valid points)", r, s, [], "polynomial identity (z3)"))


def path_hyps(l1, r, stages, order_hint=("T1", "T2", "Y1", "Y2", "X1", "X2", "Z1", "Z2", "d")):
    """stages extended by the hypotheses this path has established: inverse symbols (z*inv = 1) and
    Element.Equal tests that are true on the path (their polynomial vanishes mod p)"""
    import z3
    st = list(stages)
    for h in r.dstate.get("hyp", []):
        if h[0] == "inv":
            st = [([h[1] * Poly.var(h[2]) - 1], [h[2]])] + st
        elif h[0] == "eq":
            so = z3.Solver()
            for c in r.pc:
                so.add(c)
            so.add(z3.Not(h[2]))
            if so.check() == z3.unsat:
                st = [([h[1]], list(order_hint))] + st
    return st


def returning_paths(l1, fname, args, path, label):
    """explore; record an obligation if some path does not return normally; yields (tag, path) for returning paths"""
    ps = l1.ex.call(fname, args, path)
    bad = [p for p in ps if p.outcome[0] != "ret"]
    ob = l1.chk.add(Ob("%s: returns normally on every path (%d path(s))" % (label, len(ps)), "unsat" if ps and not bad else "sat", 0, [fname], "ring mode", detail=str([p.outcome for p in bad][:2])))
    good = [p for p in ps if p.outcome[0] == "ret"]
    # equalities established on each path (Element.Equal tests that are true there): the native replays derive from them
    # the representations of valid points on which this path fires (sym/witness.py)
    if len(good) > 1:
        for p in good:
            polys = path_eq_polys(p)
            if polys:
                l1.chk.extra.setdefault("path_eq_polys", {}).setdefault(label, []).append(polys)
    return ob, [("" if len(good) == 1 else " [path %d]" % i, p) for i, p in enumerate(good)]


def path_eq_polys(r):
    import z3
    out = []
    for h in r.dstate.get("hyp", []):
        if h[0] == "eq":
            so = z3.Solver()
            for c in r.pc:
                so.add(c)
            so.add(z3.Not(h[2]))
            if so.check() == z3.unsat:
                out.append(h[1])
    return out


def witness_points(chk, base, label, suffix="1", points=None):
    """raw representations (as driver slot strings, with their affine point) of valid points satisfying the equalities of
    some path of `label` - candidates for the native replay"""
    from . import witness, ptreplay, ref
    dv = base.global_val(E + "d")
    dval = sum(int(l) << (51 * k) for k, l in enumerate(dv)) % ref.P
    names = tuple(c + suffix for c in "XYZT")
    out = []
    for polys in chk.extra.get("path_eq_polys", {}).get(label, []):
        try:
            for q in witness.scaling_witnesses(polys, dval, chk.seed, names=names, points=points):
                zi = ref.inv(q[2])
                out.append((ptreplay.fmt_pt([ref.limbs_of(c) for c in q]), (q[0] * zi % ref.P, q[1] * zi % ref.P)))
        except Exception as e:
            chk.note_inconclusive("witness search for %s failed: %r" % (label, e))
    return out


def law(P1, P2, d, sign=1):
    """projective numerators/denominators of the affine Edwards addition law for P1 + sign*P2"""
    X1, Y1, Z1, T1 = P1
    X2, Y2, Z2, T2 = P2
    X2 = X2 * sign
    Nx = (X1 * Y2 + Y1 * X2) * Z1 * Z2
    Dx = Z1 ** 2 * Z2 ** 2 + d * X1 * X2 * Y1 * Y2
    Ny = (Y1 * Y2 + X1 * X2) * Z1 * Z2
    Dy = Z1 ** 2 * Z2 ** 2 - d * X1 * X2 * Y1 * Y2
    return Nx, Dx, Ny, Dy


def check_p3_out(l1, label, fname, out, stages, mult, x_num=None, x_den=None, y_num=None, y_den=None, zfact=None):
    """out = (X,Y,Z,T) polys: valid P3 + represents (x_num/x_den, y_num/y_den) + Z factorisation"""
    X3, Y3, Z3, T3 = out
    d = l1.d
    obs = []
    obs.append(l1.goal(label, "output satisfies X*Y = Z*T", X3 * Y3 - Z3 * T3, stages, mult, fname))
    obs.append(l1.goal(label, "output satisfies -X^2+Y^2 = Z^2+d*T^2", -(X3 ** 2) + Y3 ** 2 - Z3 ** 2 - d * T3 ** 2, stages, mult, fname))
    if x_num is not None:
        obs.append(l1.goal(label, "x-coordinate: X3*Dx = Z3*Nx (affine Edwards law, cross-multiplied)", X3 * x_den - Z3 * x_num, stages, mult, fname))
        obs.append(l1.goal(label, "y-coordinate: Y3*Dy = Z3*Ny", Y3 * y_den - Z3 * y_num, stages, mult, fname))
    if zfact is not None:
        lhs, rhs, txt = zfact
        obs.append(l1.goal(label, "Z3 is non-zero: " + txt, lhs * Z3 - rhs, stages, mult, fname))
    return obs


# ---------------------------------------------------------------------------
# exported formulas
# ---------------------------------------------------------------------------
def api_add_sub(l1, sub=False, alias="distinct"):
    meth = "Subtract" if sub else "Add"
    fname = l1.prog.find("Point)." + meth)
    label = "Point.%s[%s]" % (meth, alias)
    l1.chk.used(l1.prog, fname, "ring mode")
    for f in ("projCached).FromP3", "projP1xP1).Sub" if sub else "projP1xP1).Add", "Point).fromP1xP1"):
        l1.chk.used(l1.prog, l1.prog.find(f), "ring mode")
    path = l1.path()
    P1 = l1.p3("1")
    P2 = l1.p3("2") if alias not in ("p=q", "v=p=q") else P1
    p = l1.obj(path, "Point", P1.coords(), "p")
    q = p if P2 is P1 else l1.obj(path, "Point", P2.coords(), "q")
    if alias == "distinct":
        v = l1.junk_obj(path, "Point", "R")
    elif alias == "zero receiver":
        v = l1.zero_obj(path, "Point")
    elif alias in ("v=p", "v=p=q"):
        v = p
    elif alias == "v=q":
        v = q
    elif alias == "p=q":
        v = l1.junk_obj(path, "Point", "R")
    ob0, rets = returning_paths(l1, fname, [v, p, q], path, label)
    obs = [ob0]
    pts = [P1] if P2 is P1 else [P1, P2]
    stages, mult = l1.stages_p3(pts)
    Nx, Dx, Ny, Dy = law(P1.coords(), P2.coords(), l1.d, -1 if sub else 1)
    Z1, Z2 = P1.Z, P2.Z
    out = None
    for tag, r in rets:
        out = l1.read(r, v, "Point")
        obs += check_p3_out(l1, label + tag, fname, out, path_hyps(l1, r, stages), mult, Nx, Dx, Ny, Dy,
                            (Z1 ** 2 * Z2 ** 2, Poly.const(4) * Dx * Dy, "Z1^2*Z2^2*Z3 = 4*(Z1^2Z2^2 + d x..)(Z1^2Z2^2 - d x..)  [non-zero by completeness]"))
        l1.chk.fact("%s%s: returns the receiver" % (label, tag), r.outcome[1][0] == v, [fname])
        others = [o.obj for o in (p, q) if o != v]
        l1.chk.fact("%s%s: arguments not written" % (label, tag), not any(w[0] == "w" and w[1] in others for w in r.log), [fname])
    return obs, (out, P1, P2)


def api_negate(l1, alias="distinct"):
    fname = l1.prog.find("Point).Negate")
    label = "Point.Negate[%s]" % alias
    l1.chk.used(l1.prog, fname, "ring mode")
    path = l1.path()
    P1 = l1.p3("1")
    p = l1.obj(path, "Point", P1.coords(), "p")
    v = p if alias == "v=p" else (l1.zero_obj(path, "Point") if alias == "zero receiver" else l1.junk_obj(path, "Point", "R"))
    ob0, rets = returning_paths(l1, fname, [v, p], path, label)
    obs = [ob0]
    stages0, mult = l1.stages_p3([P1])
    for tag, r in rets:
        out = l1.read(r, v, "Point")
        stages = path_hyps(l1, r, stages0)
        lb = label + tag
        obs += check_p3_out(l1, lb, fname, out, stages, mult)
        X3, Y3, Z3, T3 = out
        obs.append(l1.goal(lb, "x(-P) = -x(P): X3*Z1 = -X1*Z3", X3 * P1.Z + P1.X * Z3, stages, mult, fname))
        obs.append(l1.goal(lb, "y(-P) = y(P): Y3*Z1 = Y1*Z3", Y3 * P1.Z - P1.Y * Z3, stages, mult, fname))
        obs.append(l1.goal(lb, "Z3 is a non-zero multiple of Z1: Z3 = Z1", Z3 - P1.Z, stages, mult, fname))
        l1.chk.fact("%s: returns the receiver" % lb, r.outcome[1][0] == v, [fname])
        if v != p:
            l1.chk.fact("%s: argument not written" % lb, not any(w[0] == "w" and w[1] == p.obj for w in r.log), [fname])
    return obs


# ---------------------------------------------------------------------------
# internal conversions / formulas used by the scalar multiplications (contracts for group mode)
# ---------------------------------------------------------------------------
def p1xp1_gens(names, d):
    Xn, Yn, Zn, Tn = [Poly.var(n) for n in names]
    g = -(Xn ** 2) * Tn ** 2 + Yn ** 2 * Zn ** 2 - Zn ** 2 * Tn ** 2 - d * Xn ** 2 * Yn ** 2
    order = [names[1], names[2], names[3], names[0], "d"]
    return (Xn, Yn, Zn, Tn), [([g], order)], [names[2], names[3]]


def p2_gens(names, d):
    Xn, Yn, Zn = [Poly.var(n) for n in names]
    g = (Yn ** 2 - Xn ** 2) * Zn ** 2 - Zn ** 4 - d * Xn ** 2 * Yn ** 2
    order = [names[1], names[2], names[0], "d"]
    return (Xn, Yn, Zn), [([g], order)], [names[2]]


def internal_contracts(l1):
    chk, prog, d = l1.chk, l1.prog, l1.d
    # --- P1xP1 -> P3 (Point.fromP1xP1) and P1xP1 -> P2 (projP2.FromP1xP1)
    (Xc, Yc, Zc, Tc), st, mult = p1xp1_gens(["Xc", "Yc", "Zc", "Tc"], d)
    for tname, meth, n in (("Point", "fromP1xP1", 4), ("projP2", "FromP1xP1", 3)):
        fname = prog.find("%s).%s" % (tname, meth))
        chk.used(prog, fname, "ring mode")
        label = "%s.%s" % (tname, meth)
        path = l1.path()
        src = l1.obj(path, "projP1xP1", [Xc, Yc, Zc, Tc])
        v = l1.junk_obj(path, tname, "R")
        r = l1.call1(fname, [v, src], path)
        out = l1.read(r, v, tname)
        if n == 4:
            check_p3_out(l1, label, fname, out, st, mult)
        else:
            X3, Y3, Z3 = out
            l1.goal(label, "output satisfies the projective curve equation (P2)", (Y3 ** 2 - X3 ** 2) * Z3 ** 2 - Z3 ** 4 - d * X3 ** 2 * Y3 ** 2, st, mult, fname)
        X3, Y3, Z3 = out[0], out[1], out[2]
        l1.goal(label, "same point: X3*Zc = Z3*Xc", X3 * Zc - Z3 * Xc, st, mult, fname)
        l1.goal(label, "same point: Y3*Tc = Z3*Yc", Y3 * Tc - Z3 * Yc, st, mult, fname)
        l1.goal(label, "Z3 = Zc*Tc (non-zero)", Z3 - Zc * Tc, st, mult, fname)
        chk.soft("%s: returns receiver, source not written" % label, r.outcome[1][0] == v and not any(w[0] == "w" and w[1] == src.obj for w in r.log), [fname])
    # --- P3 -> P2 (projP2.FromP3), P2 -> P3 (Point.fromP2)
    P1 = l1.p3("1")
    st3, m3 = l1.stages_p3([P1])
    fname = prog.find("projP2).FromP3")
    chk.used(prog, fname, "ring mode")
    path = l1.path()
    src = l1.obj(path, "Point", P1.coords())
    v = l1.junk_obj(path, "projP2", "R")
    r = l1.call1(fname, [v, src], path)
    X3, Y3, Z3 = l1.read(r, v, "projP2")
    l1.goal("projP2.FromP3", "output on the projective curve", (Y3 ** 2 - X3 ** 2) * Z3 ** 2 - Z3 ** 4 - d * X3 ** 2 * Y3 ** 2, st3, m3, fname)
    l1.goal("projP2.FromP3", "same point and Z3 = Z1", (X3 - P1.X) ** 2 + (Y3 - P1.Y) ** 2 + (Z3 - P1.Z) ** 2, st3, m3, fname)
    (Xb, Yb, Zb), st2, m2 = p2_gens(["Xb", "Yb", "Zb"], d)
    fname = prog.find("Point).fromP2")
    chk.used(prog, fname, "ring mode")
    path = l1.path()
    src = l1.obj(path, "projP2", [Xb, Yb, Zb])
    v = l1.junk_obj(path, "Point", "R")
    r = l1.call1(fname, [v, src], path)
    out = l1.read(r, v, "Point")
    check_p3_out(l1, "Point.fromP2", fname, out, st2, m2)
    l1.goal("Point.fromP2", "same point: X3*Zb = Z3*Xb", out[0] * Zb - out[2] * Xb, st2, m2, fname)
    l1.goal("Point.fromP2", "same point: Y3*Zb = Z3*Yb", out[1] * Zb - out[2] * Yb, st2, m2, fname)
    l1.goal("Point.fromP2", "Z3 = Zb^2 (non-zero)", out[2] - Zb ** 2, st2, m2, fname)
    # --- doubling: P2 -> P1xP1
    fname = prog.find("projP1xP1).Double")
    chk.used(prog, fname, "ring mode")
    path = l1.path()
    src = l1.obj(path, "projP2", [Xb, Yb, Zb])
    v = l1.junk_obj(path, "projP1xP1", "R")
    r = l1.call1(fname, [v, src], path)
    Xo, Yo, Zo, To = l1.read(r, v, "projP1xP1")
    Nx = Poly.const(2) * Xb * Yb * Zb ** 2
    Dx = Zb ** 4 + d * Xb ** 2 * Yb ** 2
    Ny = (Yb ** 2 + Xb ** 2) * Zb ** 2
    Dy = Zb ** 4 - d * Xb ** 2 * Yb ** 2
    l1.goal("projP1xP1.Double", "x(2P): Xo*Dx = Zo*Nx", Xo * Dx - Zo * Nx, st2, m2, fname)
    l1.goal("projP1xP1.Double", "y(2P): Yo*Dy = To*Ny", Yo * Dy - To * Ny, st2, m2, fname)
    l1.goal("projP1xP1.Double", "completed point on the curve", -(Xo ** 2) * To ** 2 + Yo ** 2 * Zo ** 2 - Zo ** 2 * To ** 2 - d * Xo ** 2 * Yo ** 2, st2, m2, fname)
    # Zo and To are non-zero: Zo*To is, up to a non-zero constant and powers of Zb, the product Dx*Dy of the two denominators
    # of the doubling law, which do not vanish on curve points (completeness).  Which powers appear depends on the formula
    # used (dedicated doubling vs the unified law specialised to P+P), so the candidates are tried in turn.
    cands = [(4, 0, 1), (0, 0, 1), (2, 0, 1), (0, 4, 1), (0, 2, 1), (8, 0, 1), (0, 8, 1), (4, 0, 4), (0, 0, 4), (4, 0, 2), (0, 0, 2), (0, 4, 4), (0, 4, 16), (0, 0, 16)]
    chosen = None
    for a_, b_, c_ in cands:
        g_ = Zb ** a_ * Zo * To * c_ - Zb ** b_ * Dx * Dy
        if certs.prove(g_, st2, m2)["verdict"] == "unsat":
            chosen = (a_, b_, c_, g_)
            break
        g_ = Zb ** a_ * Zo * To - Zb ** b_ * Dx * Dy * c_
        if c_ != 1 and certs.prove(g_, st2, m2)["verdict"] == "unsat":
            chosen = (a_, b_, -c_, g_)
            break
    if chosen:
        l1.goal("projP1xP1.Double", "Zo*To is a non-zero multiple of the denominators (non-zero by completeness): Zb^%d*Zo*To*%s = Zb^%d*Dx*Dy" % (chosen[0], chosen[2] if chosen[2] > 0 else "1/%d" % -chosen[2], chosen[1]), chosen[3], st2, m2, fname)
    else:
        l1.goal("projP1xP1.Double", "Zb^2*Zo = Dx' and Zb^2*To = Dy' factorisation (non-zero by completeness): Zb^4*Zo*To = Dx*Dy", Zb ** 4 * Zo * To - Dx * Dy, st2, m2, fname)
    chk.soft("projP1xP1.Double: returns receiver, source not written", r.outcome[1][0] == v and not any(w[0] == "w" and w[1] == src.obj for w in r.log), [fname])
    # --- cached forms
    P2s = l1.p3("2")
    st12, m12 = l1.stages_p3([P1, P2s])
    fname = prog.find("projCached).FromP3")
    chk.used(prog, fname, "ring mode")
    path = l1.path()
    src = l1.obj(path, "Point", P2s.coords())
    v = l1.junk_obj(path, "projCached", "R")
    r = l1.call1(fname, [v, src], path)
    cq = l1.read(r, v, "projCached")
    want = [P2s.Y + P2s.X, P2s.Y - P2s.X, P2s.Z, P2s.T * d * 2]
    diff = sum(((a - b) ** 2 for a, b in zip(cq, want)), Poly())
    l1.goal("projCached.FromP3", "cached form = (Y+X, Y-X, Z, 2dT)", diff, st12, m12, fname)
    # affine cached: (y+x, y-x, 2dxy) with the inverse of Z
    fname = prog.find("affineCached).FromP3")
    chk.used(prog, fname, "ring mode")
    path = l1.path()
    src = l1.obj(path, "Point", P2s.coords())
    v = l1.junk_obj(path, "affineCached", "R")
    r = l1.call1(fname, [v, src], path)
    ca = l1.read(r, v, "affineCached")
    hyps = r.dstate.get("hyp", [])
    invs = [h for h in hyps if h[0] == "inv"]
    ok = len(invs) == 1 and invs[0][1] == P2s.Z
    chk.soft("affineCached.FromP3: exactly one inversion, of Z", ok, [fname])
    if ok:
        iv = Poly.var(invs[0][2])
        ginv = P2s.Z * iv - 1
        st_a = [([ginv], [invs[0][2]])] + st12
        # (y+x)*Z = Y+X etc.
        l1.goal("affineCached.FromP3", "YplusX*Z = Y+X", ca[0] * P2s.Z - (P2s.Y + P2s.X), st_a, m12, fname)
        l1.goal("affineCached.FromP3", "YminusX*Z = Y-X", ca[1] * P2s.Z - (P2s.Y - P2s.X), st_a, m12, fname)
        l1.goal("affineCached.FromP3", "T2d*Z = 2d*T", ca[2] * P2s.Z - P2s.T * d * 2, st_a, m12, fname)
    # --- P1xP1 additions against cached operands
    for meth, sign, affine in (("Add", 1, False), ("Sub", -1, False), ("AddAffine", 1, True), ("SubAffine", -1, True)):
        fname = prog.find("projP1xP1)." + meth)
        chk.used(prog, fname, "ring mode")
        label = "projP1xP1." + meth
        path = l1.path()
        p = l1.obj(path, "Point", P1.coords())
        if affine:
            x2, y2 = Poly.var("x2"), Poly.var("y2")
            q = l1.obj(path, "affineCached", [y2 + x2, y2 - x2, x2 * y2 * d * 2])
            Q = (x2, y2, Poly.const(1), x2 * y2)
            ga = -(x2 ** 2) + y2 ** 2 - 1 - d * x2 ** 2 * y2 ** 2
            st1, mm = l1.stages_p3([P1])
            stg = st1 + [([ga], ["y2", "x2", "d"])]
        else:
            q = l1.obj(path, "projCached", [P2s.Y + P2s.X, P2s.Y - P2s.X, P2s.Z, P2s.T * d * 2])
            Q = P2s.coords()
            stg, mm = st12, m12
        v = l1.junk_obj(path, "projP1xP1", "R")
        r = l1.call1(fname, [v, p, q], path)
        Xo, Yo, Zo, To = l1.read(r, v, "projP1xP1")
        Nx, Dx, Ny, Dy = law(P1.coords(), Q, d, sign)
        l1.goal(label, "x(P%sQ): Xo*Dx = Zo*Nx" % ("+" if sign > 0 else "-"), Xo * Dx - Zo * Nx, stg, mm, fname)
        l1.goal(label, "y(P%sQ): Yo*Dy = To*Ny" % ("+" if sign > 0 else "-"), Yo * Dy - To * Ny, stg, mm, fname)
        l1.goal(label, "Zo, To non-zero: Z1^2*Z2^2*Zo*To = 4*Dx*Dy", P1.Z ** 2 * Q[2] ** 2 * Zo * To - Poly.const(4) * Dx * Dy, stg, mm, fname)
        chk.soft("%s: returns receiver, operands not written" % label, r.outcome[1][0] == v and not any(w[0] == "w" and w[1] in (p.obj, q.obj) for w in r.log), [fname])


def selector_contracts(l1):
    """Zero / Select / CondNeg of the cached forms and projP2.Zero, from their SSA in ring mode (these are the
    primitives the group-mode selector contracts T-sel are built on)"""
    chk, prog, d = l1.chk, l1.prog, l1.d
    one, zero = Poly.const(1), Poly()
    for tname, n, ident in (("projCached", 4, [one, one, one, zero]), ("affineCached", 3, [one, one, zero]), ("projP2", 3, [zero, one, one])):
        fname = prog.find(tname + ").Zero")
        chk.used(prog, fname, "ring mode")
        path = l1.path()
        v = l1.junk_obj(path, tname, "R")
        r = l1.call1(fname, [v], path)
        out = l1.read(r, v, tname)
        what = "(Y+X, Y-X, Z, 2dT) = (1,1,1,0)" if n == 4 else ("(y+x, y-x, 2dxy) = (1,1,0)" if tname == "affineCached" else "(X:Y:Z) = (0:1:1)")
        chk.add(Ob("%s.Zero: the identity in this form: %s" % (tname, what), "unsat" if out == ident else "sat", 0, [fname], "ring mode"))
    for tname, n in (("projCached", 4), ("affineCached", 3)):
        A = [Poly.var("a%d" % i) for i in range(n)]
        Bv = [Poly.var("b%d" % i) for i in range(n)]
        fname = prog.find(tname + ").Select")
        chk.used(prog, fname, "ring mode")
        for cond, want in ((1, A), (0, Bv)):
            path = l1.path()
            a, b = l1.obj(path, tname, A), l1.obj(path, tname, Bv)
            for v in (l1.junk_obj(path, tname, "R"), b):     # distinct receiver, and dest aliased to the second operand (as SelectInto does)
                r = l1.call1(fname, [v, a, b, cond], path.clone())
                out = l1.read(r, v, tname)
                chk.add(Ob("%s.Select(cond=%d)%s: picks %s component-wise" % (tname, cond, " [v=b]" if v == b else "", "a" if cond else "b"), "unsat" if out == want else "sat", 0, [fname], "ring mode"))
        fname = prog.find(tname + ").CondNeg")
        chk.used(prog, fname, "ring mode")
        for cond in (0, 1):
            path = l1.path()
            v = l1.obj(path, tname, A)
            r = l1.call1(fname, [v, cond], path)
            out = l1.read(r, v, tname)
            if cond == 0:
                want = A
            else:
                want = [A[1], A[0]] + ([A[2], -A[3]] if n == 4 else [-A[2]])
            chk.add(Ob("%s.CondNeg(%d): %s" % (tname, cond, "unchanged" if cond == 0 else "swaps Y+X and Y-X and negates 2dT: the cached form of -Q"), "unsat" if out == want else "sat", 0, [fname], "ring mode"))


def completeness(l1):
    """Bernstein-Lange: the denominators 1 +- d*x1*x2*y1*y2 never vanish for curve points when d is a
    non-square.  The two polynomial lemmas are validated by the solver; the Euler criterion is concrete;
    the final step 'hence d would be a square' is paper reasoning (DESIGN.md section 7)."""
    chk = l1.chk
    t0 = time.time()
    d = l1.d
    x1, y1, x2, y2, e, i = [Poly.var(n) for n in ("x1", "y1", "x2", "y2", "eps", "i")]
    a1 = -(x1 ** 2) + y1 ** 2 - 1 - d * x1 ** 2 * y1 ** 2
    a2 = -(x2 ** 2) + y2 ** 2 - 1 - d * x2 ** 2 * y2 ** 2
    he = e - d * x1 * x2 * y1 * y2
    hi = i ** 2 + 1
    hs = e ** 2 - 1
    two = Poly.const(2)
    for sgn, nm in ((1, "+"), (-1, "-")):
        lhs = (i * x1 + e * y1 * sgn) ** 2 - d * x1 ** 2 * y1 ** 2 * (i * x2 + y2 * sgn) ** 2
        rhs_terms = [[a1], [hi, x1 ** 2], [hs, y1 ** 2 - 1], [he, two * e - he], [Poly.const(-1), d, x1 ** 2, y1 ** 2, a2],
                     [Poly.const(2 * sgn), i, x1, y1, he], [Poly.const(-1), d, x1 ** 2, y1 ** 2, x2 ** 2, hi]]
        from .poly import z3_identity_unsat
        r, _ = z3_identity_unsat([[lhs]], rhs_terms)
        chk.add(Ob("completeness lemma (%s): (i*x1 %s eps*y1)^2 = d*x1^2*y1^2*(i*x2 %s y2)^2 modulo the curve equations, eps = d*x1x2y1y2 = +-1, i^2 = -1" % (nm, nm, nm),
                   r, time.time() - t0, [], "polynomial identity (z3)"))
    # concrete facts about the real constant d
    dv = l1.base.global_val(E + "d")
    dval = sum(int(l) << (51 * k) for k, l in enumerate(dv)) % P
    d2v = l1.base.global_val(E + "d2")
    d2val = sum(int(l) << (51 * k) for k, l in enumerate(d2v)) % P
    chk.fact("constant d: 121666*d + 121665 = 0 mod p; d2 = 2d mod p", (121666 * dval + 121665) % P == 0 and d2val == 2 * dval % P, [E + "init"], "concrete (init executed by the engine)")
    chk.fact("Euler criterion: d^((p-1)/2) = -1 (d is a non-square), (-1)^((p-1)/2) = 1 (i exists), (-d) non-square, d != -1",
             pow(dval, (P - 1) // 2, P) == P - 1 and pow(P - 1, (P - 1) // 2, P) == 1 and (dval + 1) % P != 0, [E + "init"], "concrete")


def settle(chk, obs, battery, key):
    """obs: obligations of one formula; if any is not discharged, replay the formula natively against the
    reference law; reproduced => VIOLATION, otherwise the obligations stay inconclusive"""
    bad = [o for o in obs if not o.ok()]
    if not bad:
        return
    hit = None
    try:
        hit = battery()
    except Exception as e:
        chk.note_inconclusive("native battery for %s failed: %r" % (key, e))
    for o in bad:
        o.verdict = "violated" if hit else ("sat-unreplayed" if o.verdict in ("sat", "no-certificate") else o.verdict)
    if hit:
        chk.violation(key, hit["what"], hit)
