"""Scalar 'ring mode': the Montgomery limb array (type fiatScalarMontgomeryDomainFieldElement) is an
opaque cell holding the integer the scalar *means* as an Int-LF form:
   tag 'mont': cell = val with  eval(limbs) = val * 2^256 mod l   (val is what Bytes() encodes)
   tag 'raw' : cell = eval(limbs) itself (non-Montgomery form between FromBytes/ToMontgomery etc.)
fiat functions are replaced by their contracts (discharged by kernels.k_fiat_* in the same run):
   Add/Sub/Opp/Mul act on val as + - neg * modulo l; To/FromMontgomery switch tags; From/ToBytes
   convert between 32 little-endian bytes and a raw value.
All results are 'some representative congruent mod l'; goals are congruences mod l."""
from .exec import Ptr, ExecError, SliceV
from .dom_lf import LF, LFCond
from .absmodes import Abs

E = "filippo.io/edwards25519."
L = 2**252 + 27742317777372353535851937790883648493
R = 2**256
RINV = pow(R, L - 2, L)
MT = E + "fiatScalarMontgomeryDomainFieldElement"
NT = E + "fiatScalarNonMontgomeryDomainFieldElement"


def install(ex, dom, chk=None):
    ex.opaque[MT] = lambda: Abs(LF(), True, "mont")      # Go zero value: limbs 0 = value 0
    ex.opaque[NT] = lambda: Abs(LF(), True, "raw")
    st = {"pre": [], "calls": []}

    def get(path, p, want):
        c = ex.load(path, p)
        if isinstance(c, tuple):   # concrete limbs from package init (scalarTwo168 ...)
            ev = sum(int(x) << (64 * i) for i, x in enumerate(c))
            if ev >= L:
                raise ExecError("concrete scalar constant not reduced")
            return LF({}, ev * RINV % L if want == "mont" else ev)
        if not isinstance(c, Abs):
            raise ExecError("scalar cell holds %r" % (c,))
        if c.tag != want and not c.zero_limbs:
            raise ExecError("scalar cell has tag %s, expected %s" % (c.tag, want))
        return c.v

    def put(path, p, v, tag):
        ex.store(path, p, Abs(LF.of(v), False, tag))

    def f_add(ex_, path, a):
        st["calls"].append("Add")
        put(path, a[0], get(path, a[1], "mont") + get(path, a[2], "mont"), "mont")

    def f_sub(ex_, path, a):
        st["calls"].append("Sub")
        put(path, a[0], get(path, a[1], "mont") - get(path, a[2], "mont"), "mont")

    def f_opp(ex_, path, a):
        st["calls"].append("Opp")
        put(path, a[0], -get(path, a[1], "mont"), "mont")

    def f_mul(ex_, path, a):
        st["calls"].append("Mul")
        put(path, a[0], dom.mul(path, get(path, a[1], "mont"), get(path, a[2], "mont")), "mont")

    def f_tomont(ex_, path, a):
        st["calls"].append("ToMontgomery")
        v = get(path, a[1], "raw")
        st["pre"].append(("ToMontgomery input < l", v, path))
        put(path, a[0], v, "mont")

    def f_frommont(ex_, path, a):
        st["calls"].append("FromMontgomery")
        put(path, a[0], get(path, a[1], "mont"), "raw-of-mont")

    def f_frombytes(ex_, path, a):
        st["calls"].append("FromBytes")
        bs = ex.load(path, a[1], ex.prog.T("[32]uint8"))
        v = LF()
        for i, b in enumerate(bs):
            v = v + LF.of(b).scale(1 << (8 * i))
        st["pre"].append(("FromBytes input < l", v, path))
        put(path, a[0], v, "raw")

    def f_tobytes(ex_, path, a):
        st["calls"].append("ToBytes")
        c = ex.load(path, a[1])
        if not isinstance(c, Abs) or c.tag != "raw-of-mont":
            raise ExecError("ToBytes of %r" % (c,))
        # out[i] = byte i of (val mod l): abstract byte cells
        ex.store(path, a[0], tuple(Abs(c.v, False, ("byte", i)) for i in range(32)))

    for n, f in (("Add", f_add), ("Sub", f_sub), ("Opp", f_opp), ("Mul", f_mul), ("ToMontgomery", f_tomont),
                 ("FromMontgomery", f_frommont), ("FromBytes", f_frombytes), ("ToBytes", f_tobytes)):
        ex.summaries[E + "fiatScalar" + n] = f
    return st
