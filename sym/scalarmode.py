"""Scalar 'ring mode': the Montgomery limb array (type fiatScalarMontgomeryDomainFieldElement) is an
opaque cell holding the integer the scalar *means* as an Int-LF form:
   tag 'mont': cell = val with  eval(limbs) = val * 2^256 mod l   (val is what Bytes() encodes)
   tag 'raw' : cell = eval(limbs) itself (non-Montgomery form between FromBytes/ToMontgomery etc.)
fiat functions are replaced by their contracts (discharged by kernels.k_fiat_* in the same run):
   Add/Sub/Opp/Mul act on val as + - neg * modulo l; To/FromMontgomery switch tags; From/ToBytes
   convert between 32 little-endian bytes and a raw value.
All results are 'some representative congruent mod l'; goals are congruences mod l."""
from .exec import Ptr, ExecError, SliceV
from .dom_lf import LF, LFCond
from .absmodes import Abs

E = "filippo.io/edwards25519."
L = 2**252 + 27742317777372353535851937790883648493
R = 2**256
RINV = pow(R, L - 2, L)
MT = E + "fiatScalarMontgomeryDomainFieldElement"
NT = E + "fiatScalarNonMontgomeryDomainFieldElement"


class SAbs(Abs):
    """scalar cell; hand-written code that reads the limbs of such a cell *materialises* them: the canonical
    representative (for a Montgomery cell: val * 2^256 mod l, a quotient/remainder pair modulo l) is cut into four 64-bit
    limbs (quotient/remainder atoms), so limb-level code between fiat calls is followed in Int-LF on top of the contracts"""
    __slots__ = ()
    dom = None
    stats = None

    def opaque_explode(self, ex, t):
        dom, path = SAbs.dom, ex._cur_path
        if self.zero_limbs:
            return [0, 0, 0, 0]
        if self.tag == "mont":
            _, r = dom.divmod(path, LF.of(self.v).scale(R % L), L)
        elif self.tag in ("raw", "raw-of-mont"):
            v = LF.of(self.v)
            lo, hi = dom.rng(path, v)
            if self.tag == "raw-of-mont" or lo < 0 or hi >= 2**256:
                _, r = dom.divmod(path, v, L)
            else:
                r = v
        else:
            raise ExecError("limbs of a scalar cell with tag %r" % (self.tag,))
        limbs, rest = [], r
        for i in range(4):
            rest, li = dom.divmod(path, rest, 1 << 64)
            limbs.append(li)
        if SAbs.stats is not None:
            SAbs.stats["materialised"] = SAbs.stats.get("materialised", 0) + 1
        return limbs


def limbs_value(c):
    """integer value (Int-LF form) of a 4-limb cell written by limb-level code, or None"""
    if isinstance(c, (tuple, list)) and len(c) == 4 and all(isinstance(x, (int, LF)) and not isinstance(x, bool) for x in c):
        ev = LF()
        for i, x in enumerate(c):
            ev = ev + LF.of(x).scale(1 << (64 * i))
        return ev
    return None


def install(ex, dom, chk=None):
    SAbs.dom = dom
    ex.opaque[MT] = lambda: SAbs(LF(), True, "mont")      # Go zero value: limbs 0 = value 0
    ex.opaque[NT] = lambda: SAbs(LF(), True, "raw")
    st = {"pre": [], "calls": []}
    SAbs.stats = st

    def get(path, p, want):
        c = ex.load(path, p)
        if isinstance(c, (tuple, list)) and all(type(x) is int for x in c):   # concrete limbs from package init (scalarTwo168 ...)
            ev = sum(int(x) << (64 * i) for i, x in enumerate(c))
            if ev >= L:
                raise ExecError("concrete scalar constant not reduced")
            return LF({}, ev * RINV % L if want == "mont" else ev)
        ev = limbs_value(c)
        if ev is not None:
            # limbs written by hand-written code: the fiat routine needs them reduced; their meaning follows from the value
            st["pre"].append(("fiat input (limbs written by limb-level code) < l", ev, path))
            return ev.scale(RINV) if want == "mont" else ev
        if not isinstance(c, Abs):
            raise ExecError("scalar cell holds %r" % (c,))
        if c.tag != want and not c.zero_limbs:
            # the limbs of a cell mean eval(limbs) as a raw value and eval(limbs) * R^-1 as a Montgomery value; a routine
            # that reads a cell under the other convention (e.g. fiatScalarMul applied to a freshly decoded, not yet
            # converted value and a constant that compensates) is followed through that relation
            if c.tag == "raw" and want == "mont":
                st["pre"].append(("fiat input (raw value used as a Montgomery value) < l", LF.of(c.v), path))
                return LF.of(c.v).scale(RINV)
            if c.tag == "mont" and want == "raw":
                _, r = dom.divmod(path, LF.of(c.v).scale(R % L), L)
                return r
            raise ExecError("scalar cell has tag %s, expected %s" % (c.tag, want))
        return c.v

    def put(path, p, v, tag):
        ex.store(path, p, SAbs(LF.of(v), False, tag))

    def f_add(ex_, path, a):
        st["calls"].append("Add")
        put(path, a[0], get(path, a[1], "mont") + get(path, a[2], "mont"), "mont")

    def f_sub(ex_, path, a):
        st["calls"].append("Sub")
        put(path, a[0], get(path, a[1], "mont") - get(path, a[2], "mont"), "mont")

    def f_opp(ex_, path, a):
        st["calls"].append("Opp")
        put(path, a[0], -get(path, a[1], "mont"), "mont")

    def f_mul(ex_, path, a):
        st["calls"].append("Mul")
        put(path, a[0], dom.mul(path, get(path, a[1], "mont"), get(path, a[2], "mont")), "mont")

    def f_tomont(ex_, path, a):
        st["calls"].append("ToMontgomery")
        v = get(path, a[1], "raw")
        st["pre"].append(("ToMontgomery input < l", v, path))
        put(path, a[0], v, "mont")

    def f_frommont(ex_, path, a):
        st["calls"].append("FromMontgomery")
        put(path, a[0], get(path, a[1], "mont"), "raw-of-mont")

    def f_frombytes(ex_, path, a):
        st["calls"].append("FromBytes")
        bs = ex.load(path, a[1], ex.prog.T("[32]uint8"))
        v = LF()
        for i, b in enumerate(bs):
            v = v + LF.of(b).scale(1 << (8 * i))
        st["pre"].append(("FromBytes input < l", v, path))
        put(path, a[0], v, "raw")

    def f_tobytes(ex_, path, a):
        st["calls"].append("ToBytes")
        c = ex.load(path, a[1])
        if not isinstance(c, Abs) or c.tag != "raw-of-mont":
            raise ExecError("ToBytes of %r" % (c,))
        # out[i] = byte i of (val mod l): abstract byte cells
        ex.store(path, a[0], tuple(Abs(c.v, False, ("byte", i)) for i in range(32)))

    for n, f in (("Add", f_add), ("Sub", f_sub), ("Opp", f_opp), ("Mul", f_mul), ("ToMontgomery", f_tomont),
                 ("FromMontgomery", f_frommont), ("FromBytes", f_frombytes), ("ToBytes", f_tobytes)):
        ex.summaries[E + "fiatScalar" + n] = f
    return st
