"""Group mode (L2): Point / projP1xP1 / projP2 / projCached / affineCached are opaque cells holding
an element of the free abelian group on abstract generators, with Int-LF coefficients:
     G('vec', {gen: LF})   |   G('uninit') (Go zero value)   |   G('poison')
The point formulas are replaced by the group operations (justified by the L1 contracts of l1.py:
each represents the group operation whenever its inputs are valid points).  Scalars are opaque
(scalarmode 'mont' cells = the encoded integer); recoders and table selectors are replaced by
their contracts (R-16, R-naf, T-sel: discharged separately from the real SSA)."""
from .exec import Ptr, SliceV, ExecError, GoPanic, INDET
from .dom_lf import LF, LFCond
from .absmodes import Abs

E = "filippo.io/edwards25519."
L = 2**252 + 27742317777372353535851937790883648493
TYPES = ["Point", "projP1xP1", "projP2", "projCached", "affineCached"]


class G:
    __slots__ = ("kind", "v")

    def __init__(self, kind, v=None):
        self.kind, self.v = kind, v

    def __repr__(self):
        return "G(%s%s)" % (self.kind, "" if self.v is None else ":" + ",".join("%s*%r" % (g, c) for g, c in self.v.items()))

    # executor hooks
    def opaque_eq(self, path, a, b):
        raise ExecError("== on abstract group values")

    def opaque_ite(self, path, c, a, b):
        raise ExecError("ite on abstract group values")

    def opaque_merge(self, dom, ex, A, B, a, b):
        if not (isinstance(a, G) and isinstance(b, G)):
            return INDET
        if a.kind != b.kind:
            return G("poison")
        if a.kind != "vec":
            return a
        keys = set(a.v) | set(b.v)
        ok_a = all(dom.same_under(B, a.v.get(k, 0), b.v.get(k, 0)) for k in keys)
        if ok_a:
            return a
        ok_b = all(dom.same_under(A, a.v.get(k, 0), b.v.get(k, 0)) for k in keys)
        if ok_b:
            return b
        return G("poison")


class Comp:
    """component token: field `i` of the abstract aggregate value `g` (stands for the field's whole content)"""
    __slots__ = ("g", "i")

    def __init__(self, g, i):
        self.g, self.i = g, i

    def __repr__(self):
        return "Comp(%r.%d)" % (self.g, self.i)


def _explode(self, ex, t):
    fields = t.u.fields
    if self.kind == "uninit":
        return [ex.zero(ex.prog.T(f["type"])) for f in fields]
    if self.kind != "vec":
        raise ExecError("field access into a poisoned group value")
    return [Comp(self, i) for i in range(len(fields))]


G.opaque_explode = _explode


def implode(ex, cells, t):
    """a list of field cells standing for an abstract aggregate: all components of one value in their own positions -> that
    value; all zero -> the Go zero value; anything else is a point assembled from foreign parts (not followed)"""
    comps = [c for c in cells if isinstance(c, Comp)]
    if comps and len(comps) == len([f for f in t.u.fields if ex.prog.T(f["type"]).k == "named" and ex.prog.T(f["type"]).name.endswith("field.Element")]):
        g = comps[0].g
        if all(c.g is g for c in comps) and all(cells[c.i] is c for c in comps):
            return g
    if not comps:
        z = [ex.zero(ex.prog.T(f["type"])) for f in t.u.fields]
        if cells == z:
            return G("uninit")
    raise ExecError("abstract point assembled from components of different values: %r" % (cells,))


UNINIT = lambda: G("uninit")
POISON = lambda: G("poison")


def vec(d):
    return G("vec", {k: v for k, v in d.items() if not (type(v) is int and v == 0)})


def vadd(a, b, sb=1):
    if a.kind != "vec" or b.kind != "vec":
        return POISON()
    r = dict(a.v)
    for k, c in b.v.items():
        r[k] = LF.of(r.get(k, 0)) + LF.of(c).scale(sb)
    return vec({k: _fold(c) for k, c in r.items()})


def _fold(c):
    if isinstance(c, LF) and not c.t:
        return c.c
    return c


def vscale(a, k, dom, path):
    """k: int or LF"""
    if a.kind != "vec":
        return POISON()
    r = {}
    for g, c in a.v.items():
        if type(k) is int:
            r[g] = _fold(LF.of(c).scale(k))
        elif type(c) is int:
            r[g] = _fold(LF.of(k).scale(c))
        else:
            r[g] = _fold(dom.mul(path, c, k))
    return vec(r)


def veq(a, b):
    if a.kind != "vec" or b.kind != "vec":
        return False
    keys = set(a.v) | set(b.v)
    return all(LF.of(a.v.get(k, 0)).key() == LF.of(b.v.get(k, 0)).key() for k in keys)


class Group:
    def __init__(self, ex, dom):
        self.ex, self.dom = ex, dom
        self.stats = {}
        self.pre_failed = []
        self.pre = []     # (description, LFCond that must hold, path) - preconditions of contracts, proved by the caller
        for t in TYPES:
            ex.opaque[E + t] = UNINIT
        S = ex.summaries
        f = ex.prog.find
        S[E + "checkInitialized"] = self.check_init
        for t in ("projP2", "projCached", "affineCached"):
            S[f(t + ").Zero")] = self.zero
        for name in ("projP2).FromP3", "projP2).FromP1xP1", "Point).fromP1xP1", "Point).fromP2", "projCached).FromP3", "affineCached).FromP3"):
            S[f(name)] = self.copy
        S[f("projP1xP1).Add")] = lambda ex_, p, a: self.addsub(p, a, 1, "Add")
        S[f("projP1xP1).Sub")] = lambda ex_, p, a: self.addsub(p, a, -1, "Sub")
        S[f("projP1xP1).AddAffine")] = lambda ex_, p, a: self.addsub(p, a, 1, "AddAffine")
        S[f("projP1xP1).SubAffine")] = lambda ex_, p, a: self.addsub(p, a, -1, "SubAffine")
        S[f("projP1xP1).Double")] = self.double
        S[f("projCached).Select")] = self.select
        S[f("affineCached).Select")] = self.select
        S[f("projCached).CondNeg")] = self.condneg
        S[f("affineCached).CondNeg")] = self.condneg

    def count(self, n):
        self.stats[n] = self.stats.get(n, 0) + 1

    def get(self, path, p):
        c = self.ex.load(path, p)
        if isinstance(c, tuple):
            # the abstract value was accessed field by field: re-assemble
            cells, idx = self.ex._walk(path, p)
            g = implode(self.ex, cells[idx], self.ex._type_at(p, None) if p.path else self.ex.meta[p.obj].type)
            cells[idx] = g
            return g
        if not isinstance(c, G):
            raise ExecError("group mode: cell holds %r" % (c,))
        return c

    def put(self, path, p, g):
        self.ex.store(path, p, g)
        return p

    def check_init(self, ex, path, args):
        (sl,) = args
        n = sl.len
        if type(n) is not int:
            raise ExecError("checkInitialized with symbolic count")
        for i in range(n):
            pp = ex.load(path, Ptr(sl.obj, sl.path + (sl.off + i,)))
            g = self.get(path, pp)
            if g.kind == "uninit":
                raise GoPanic("explicit: edwards25519: use of uninitialized Point")
        return None

    def zero(self, ex, path, a):
        self.count("Zero")
        return self.put(path, a[0], vec({}))

    def copy(self, ex, path, a):
        self.count("convert")
        g = self.get(path, a[1])
        return self.put(path, a[0], g if g.kind == "vec" else POISON())

    def addsub(self, path, a, sign, name):
        self.count(name)
        return self.put(path, a[0], vadd(self.get(path, a[1]), self.get(path, a[2]), sign))

    def double(self, ex, path, a):
        self.count("Double")
        g = self.get(path, a[1])
        return self.put(path, a[0], vscale(g, 2, self.dom, path))

    def cond01(self, path, c):
        if type(c) is int:
            return c == 1
        return self.ex.truth(path, self.ex.dom.cmp(path, "==", c, 1, self.ex.prog.T("int")))

    def select(self, ex, path, a):
        v, x, y, c = a
        t = self.cond01(path, c)
        g = self.get(path, x if t else y)
        return self.put(path, v, g)

    def condneg(self, ex, path, a):
        v, c = a
        g = self.get(path, v)
        if self.cond01(path, c):
            g = vscale(g, -1, self.dom, path)
        return self.put(path, v, g)

    # ---- contracts used as summaries in the scalar multiplications
    def install_recoders(self, st):
        """signedRadix16 / nonAdjacentForm as contracts (R-16 / R-naf), SelectInto as T-sel"""
        ex, dom = self.ex, self.dom
        f = ex.prog.find

        def sval(path, sp):
            c = ex.load(path, Ptr(sp.obj, sp.path + (0,)))
            if isinstance(c, Abs):
                # the recoders work on the integer that Bytes() encodes: the canonical representative in [0, l).  A cell
                # produced by scalar arithmetic inside the routine is only known modulo l (its form may exceed l), and
                # the *exact* integer matters because points may have a torsion component ([l]P != 0)
                v = LF.of(c.v)
                lo, hi = dom.rng(path, v)
                if lo < 0 or hi >= L:
                    q, v = dom.divmod(path, v, L)
                return v
            raise ExecError("scalar cell %r" % (c,))

        def radix16(ex_, path, a):
            self.count("signedRadix16")
            k = sval(path, a[0])
            n = path.dstate.setdefault("nrec", [0])
            n[0] += 1
            ds = [dom.input("r16_%d[%d]" % (n[0], i), -8 if i < 63 else 0, 8) for i in range(64)]
            tot = LF()
            for i, d in enumerate(ds):
                tot = tot + d.scale(16 ** i)
            path.pc.append(LFCond("==", tot - k))
            return tuple(ds)

        def naf(ex_, path, a):
            self.count("nonAdjacentForm")
            k = sval(path, a[0])
            w = a[1]
            if type(w) is not int or w not in (5, 8):
                raise ExecError("nonAdjacentForm width %r" % (w,))
            n = path.dstate.setdefault("nrec", [0])
            n[0] += 1
            half = 1 << (w - 2)   # |d| < 2^(w-1), d = 2h + o, o in {0,1}; o = 0 => h = 0
            ds = []
            tot = LF()
            for i in range(256):
                h = dom.input("naf%d_h[%d]" % (n[0], i), -half, half - 1)
                o = dom.input("naf%d_o[%d]" % (n[0], i), 0, 1)
                path.pc.append(LFCond("<=", h - o.scale(half - 1)))      # h <= (half-1)*o
                path.pc.append(LFCond("<=", -h - o.scale(half)))         # h >= -half*o
                d = h.scale(2) + o
                ds.append(d)
                tot = tot + d.scale(1 << i)
            path.pc.append(LFCond("==", tot - k))
            return tuple(ds)
        ex.summaries[f("Scalar).signedRadix16")] = radix16
        ex.summaries[f("Scalar).nonAdjacentForm")] = naf

        def table_base(path, tp, n, step):
            """table.points[j] must hold (j+1)*base (step 1) resp. (2j+1)*base (step 2)"""
            pts = ex.load(path, Ptr(tp.obj, tp.path + (0,)))
            if len(pts) != n or any(not isinstance(g, G) or g.kind != "vec" for g in pts):
                return None
            base = pts[0]
            for j, g in enumerate(pts):
                mult = (j + 1) if step == 1 else (2 * j + 1)
                if not veq(g, vscale(base, mult, dom, path)):
                    return None
            return base

        def sel_ct(n):
            def s(ex_, path, a):
                self.count("SelectInto(ct)")
                tp, dest, x = a
                base = table_base(path, tp, n, 1)
                if base is None:
                    self.put(path, dest, POISON())
                    return None
                lo, hi = dom.rng(path, LF.of(x))
                if lo < -8 or hi > 8:
                    self.pre.append(("constant-time SelectInto digit within [-8,8]", x, path))
                self.put(path, dest, vscale(base, x, dom, path))
                return None
            return s

        def sel_naf(n):
            def s(ex_, path, a):
                self.count("SelectInto(naf)")
                tp, dest, x = a
                base = table_base(path, tp, n, 2)
                if base is None:
                    self.put(path, dest, POISON())
                    return None
                # contract T-sel(naf): for odd x with 1 <= x <= 2n-1, dest = points[x/2] = x*Q; anything else
                # is outside the contract (index panic or a wrong multiple) and is reported
                if type(x) is int:
                    okp = (x % 2 == 1 and 1 <= x <= 2 * n - 1)
                else:
                    xf = LF.of(x)
                    okp = (dom.check(path, [LFCond("or", args=[LFCond("<=", xf), LFCond("<=", -xf + 2 * n), LFCond("modeq", xf, [2])])],
                                     "naf SelectInto: digit odd and within 1..%d" % (2 * n - 1), timeout_ms=10000, relevant_only=True) == "unsat")
                if not okp:
                    self.pre_failed.append(("NAF SelectInto called with a digit that is not provably odd and within 1..%d" % (2 * n - 1), x, path))
                    self.put(path, dest, POISON())
                    return None
                self.put(path, dest, vscale(base, x, dom, path))
                return None
            return s
        for nm_, summ_ in (("projLookupTable).SelectInto", sel_ct(8)), ("affineLookupTable).SelectInto", sel_ct(8)),
                           ("nafLookupTable5).SelectInto", sel_naf(8)), ("nafLookupTable8).SelectInto", sel_naf(64))):
            try:
                ex.summaries[f(nm_)] = summ_
            except KeyError:
                pass      # the selector no longer exists in this source: nothing to summarise (its users are executed as they are)


def convert_globals(ex, heap):
    """identity -> 0, generator -> B in the base heap"""
    from .ringmode import convert_heap
    ident = ex.global_objs.get(E + "identity")
    gen = ex.global_objs.get(E + "generator")
    out = {k: v for k, v in heap.items()}
    for gname, val in ((E + "identity", vec({})), (E + "generator", vec({"B": 1}))):
        oid = ex.global_objs[gname]
        ptr = heap[oid][0]
        out[ptr.obj] = [val]
    return out
