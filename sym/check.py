"""Check infrastructure: obligations, verdict bookkeeping, evidence files, exit codes."""
import json, os, sys, time, traceback, hashlib

VERIF = os.path.dirname(os.path.dirname(os.path.abspath(__file__)))


class Ob:
    """one proof obligation handed to a solver"""

    def __init__(self, name, verdict, seconds=0.0, funcs=(), mode="", detail="", model=None, solver="z3-5.1.0", key=None):
        self.name, self.verdict, self.seconds = name, verdict, seconds
        self.funcs, self.mode, self.detail, self.model, self.solver = list(funcs), mode, detail, model, solver
        self.key = key or name

    def ok(self):
        return self.verdict == "unsat"

    def j(self):
        d = dict(name=self.name, verdict=self.verdict, seconds=round(self.seconds, 3), mode=self.mode, funcs=self.funcs, solver=self.solver)
        if self.detail:
            d["detail"] = self.detail
        if self.model is not None:
            d["model"] = self.model
        return d


def known_findings():
    kf = []
    p = os.path.join(VERIF, "known_findings.txt")
    if os.path.exists(p):
        for line in open(p):
            line = line.strip()
            if not line or line.startswith("#"):
                continue
            kind, _, rest = line.partition(":")
            rest = rest.strip()
            fields = {}
            words = rest.split()
            for w in words:
                if "=" in w:
                    k, _, v = w.partition("=")
                    fields[k] = v
            kf.append(dict(kind=kind.strip(), fields=fields, text=rest))
    return kf


class Check:
    def __init__(self, pid, tier=None):
        self.pid = pid
        self.tier = tier or os.environ.get("VERIF_TIER", "quick")
        if self.tier not in ("quick", "thorough"):
            self.tier = "quick"
        try:
            self.seed = int(os.environ.get("VERIF_SEED", "0"))
        except ValueError:
            self.seed = 0
        self.t0 = time.time()
        self.obs = []
        self.violations = []      # dicts: key, what, replay
        self.known = []           # matched known findings
        self.inconclusive = []    # strings
        self.functions = {}       # function name -> {mode, instrs}
        self.bounds = []
        self.assumptions = []
        self.outside = []
        self.samples = []
        self.vacuity = []
        self.validated = 0
        self.extra = {}
        self.level = "other"
        self.kf = known_findings()

    # -------------------------------------------------- recording
    def add(self, ob):
        self.obs.append(ob)
        return ob

    def addq(self, name, verdict, seconds=0.0, **kw):
        return self.add(Ob(name, verdict, seconds, **kw))

    def used(self, prog, fname, mode):
        f = prog.funcs.get(fname)
        n = 0
        if f and not f.get("external"):
            n = sum(len(b["instrs"]) for b in f["blocks"])
        self.functions[fname] = {"mode": mode, "ssa_instrs": n}

    def fact(self, name, ok, funcs=(), mode="structure", detail="", key=None, seconds=0.0):
        """an obligation decided by inspecting the executed SSA / concrete state (not a solver query);
        a failure is a concrete fact about the code and is reported as a violation"""
        if not ok and ("('error'" in detail or "ExecError" in detail or "Unsupported" in detail):
            # the executed paths include one the engine could not follow: that is a limitation of the engine, not a fact
            # about the code - undecided (the safety-net battery decides), never a violation
            return self.add(Ob(name, "error:engine could not follow a path", seconds, funcs, mode, detail))
        ob = self.add(Ob(name, "unsat" if ok else "violated", seconds, funcs, mode, detail))
        if not ok:
            self.violation(key or name, name + (": " + detail if detail else ""), dict(kind="structural", name=name, detail=detail, funcs=list(funcs)))
        return ob

    def soft(self, name, ok, funcs=(), mode="structure", detail=""):
        """an expectation about the *shape* of the code that the harness relies on but the property does not state:
        a failure is not a violation by itself; it leaves the check undecided and hands over to the native battery"""
        return self.add(Ob(name, "unsat" if ok else "sat", 0.0, funcs, mode, detail))

    def note_inconclusive(self, msg):
        self.inconclusive.append(msg)

    def violation(self, key, what, replay_obj):
        """record a reproduced violation; matches against known findings"""
        for k in self.kf:
            if k["kind"] == "known" and k["fields"].get("property") == self.pid and k["fields"].get("site") == key:
                self.known.append((key, k["text"]))
                return
        os.makedirs(os.path.join(VERIF, "replays"), exist_ok=True)
        h = hashlib.sha256(json.dumps(replay_obj, sort_keys=True, default=str).encode()).hexdigest()[:12]
        rp = os.path.join(VERIF, "replays", "%s-%s.json" % (self.pid, h))
        with open(rp, "w") as f:
            json.dump(dict(property=self.pid, key=key, what=what, replay=replay_obj), f, indent=1, default=str)
        self.violations.append(dict(key=key, what=what, replay=rp))

    # -------------------------------------------------- finishing
    def finish(self):
        wall = time.time() - self.t0
        nobs = len(self.obs)
        discharged = sum(1 for o in self.obs if o.ok())
        notok = [o for o in self.obs if not o.ok()]
        for o in notok:
            if o.verdict == "sat-unreplayed":
                self.inconclusive.append("obligation %s: sat, counterexample did not reproduce on the real code (relaxation artefact or encoding problem)" % o.name)
            elif o.verdict == "sat":
                self.inconclusive.append("obligation %s: sat and not settled by a replay" % o.name)
            elif o.verdict != "violated":
                self.inconclusive.append("obligation %s: %s" % (o.name, o.verdict))
        solver_time = sum(o.seconds for o in self.obs)
        cov = dict(
            explanation="solver-based symbolic checking of the go/ssa form of the real code, regenerated from the working tree on this run; "
                        "every obligation below is a negated goal decided by an SMT solver (unsat = holds for all values within the stated bounds)",
            obligations=nobs, discharged=discharged,
            evaluations=nobs, distinct_nontrivial=len(set(o.key for o in self.obs)),
            rule="one evaluation = one solver query (negated goal) over symbolic inputs; distinct = distinct obligation keys",
            functions_encoded=self.functions, bounds=self.bounds, outside_claim=self.outside,
            solver_time_s=round(solver_time, 2),
            queries=[o.j() for o in self.obs][:400],
            samples=self.samples[:10] or [o.j() for o in self.obs[:3]],
            vacuity_guards=self.vacuity, traces_validated_against_impl=self.validated,
            inconclusive=self.inconclusive, known_findings=[k for k, _ in self.known],
            checker_cmd="/verif/check %s" % self.pid,
            trusted_base=["go/ssa lowering", "sym executor + encodings (validated differentially)", "z3 5.1.0"],
        )
        from . import xsolve
        xs = self.extra.get("cross_solver") or (dict(xsolve.stats) if xsolve.stats["queries"] else None)
        if xs:
            cov["cross_solver"] = xs
            for d in xs.get("disagreements", []):
                self.inconclusive.append("solver disagreement on %s: %s says %s, z3 5.1.0 says %s" % tuple(d))
        cov.update({k: v for k, v in self.extra.items() if k not in ("cross_solver", "setext_accept_polys", "setext_reject_polys")})
        ev = dict(property_id=self.pid, tier=self.tier, seed=self.seed, level=self.level, coverage=cov,
                  assumptions=self.assumptions, wall_s=round(wall, 2), violations=len(self.violations))
        os.makedirs(os.path.join(VERIF, "evidence"), exist_ok=True)
        with open(os.path.join(VERIF, "evidence", self.pid + ".json"), "w") as f:
            json.dump(ev, f, indent=1, default=str)
        for key, text in self.known:
            print("KNOWN-FINDING: %s" % text)
        for v in self.violations:
            print("VIOLATION property=%s replay=%s" % (self.pid, v["replay"]))
            print("  what: %s" % v["what"])
        print("%s tier=%s obligations=%d discharged=%d violations=%d known=%d inconclusive=%d solver_s=%.1f wall_s=%.1f" % (
            self.pid, self.tier, nobs, discharged, len(self.violations), len(self.known), len(self.inconclusive), solver_time, wall))
        if self.violations:
            return 1
        if self.inconclusive:
            for m in self.inconclusive[:20]:
                print("INCONCLUSIVE %s: %s" % (self.pid, m))
            return 2
        return 0


def main_wrapper(pid, fn, safety_net=None):
    """run a property check function(Check) with crash handling"""
    tier = None
    args = sys.argv[1:]
    if "--tier" in args:
        tier = args[args.index("--tier") + 1]
    chk = Check(pid, tier)
    try:
        fn(chk)
    except Exception as e:  # engine failure = inconclusive, never green, never a VIOLATION
        traceback.print_exc()
        chk.note_inconclusive("engine error: %r" % (e,))
    # safety net: if something could not be decided (engine limitation, unexpected code shape, solver unknown) and no
    # violation was established, run the property's native battery on the real build; a reproduced failure is reported
    unsettled = chk.inconclusive or any(not o.ok() and o.verdict != "violated" for o in chk.obs)
    if safety_net is not None and unsettled and not chk.violations:
        try:
            hit = safety_net(chk)
            chk.extra["safety_net_battery"] = "failure reproduced" if hit else "passed"
            if hit:
                chk.violation("native battery", hit.get("what", "native battery failure"), hit)
        except Exception as e:
            traceback.print_exc()
            chk.note_inconclusive("safety-net battery failed to run: %r" % (e,))
    if os.environ.get("VERIF_COVDUMP"):
        from props.common import uncovered_blocks
        from sym import ir
        try:
            chk.extra["uncovered_blocks_debug"] = {k: v for k, v in uncovered_blocks(chk._prog).items()}
        except Exception as e:
            chk.extra["uncovered_blocks_debug"] = repr(e)
    rc = chk.finish()
    sys.exit(rc)
