"""Symbolic executor over go/ssa JSON (see ir.py).

Values:
  int/bool            concrete Python int (normalised to the Go type's range) / bool
  domain terms        whatever the active domain uses for symbolic ints / conds
  Ptr                 pointer (obj id, path, optional array-view offset); None is nil
  SliceV              slice (obj id, path of backing array, off, len, cap); obj None = nil slice
  tuple               aggregate value (struct / array) or multi-value tuple
  Iface               interface value (type id, value); None is nil interface
  Closure             function value
  str                 string constant

Memory: path.heap[obj_id] = [root]; root is a leaf value or nested lists mirroring
the Go type.  Types named in ex.opaque are leaves holding one abstract value.
"""
import time
import itertools, sys
from .ir import Type

sys.setrecursionlimit(10000)


class Ptr:
    __slots__ = ("obj", "path", "view")

    def __init__(self, obj, path=(), view=None):
        self.obj = obj
        self.path = path
        self.view = view

    def __eq__(self, o):
        return isinstance(o, Ptr) and self.obj == o.obj and self.path == o.path and self.view == o.view

    def __hash__(self):
        return hash((self.obj, self.path, self.view))

    def __repr__(self):
        return "Ptr(%s,%s%s)" % (self.obj, self.path, "" if self.view is None else ",view=%s" % self.view)


class SliceV:
    __slots__ = ("obj", "path", "off", "len", "cap")

    def __init__(self, obj, path, off, ln, cap):
        self.obj, self.path, self.off, self.len, self.cap = obj, path, off, ln, cap

    def __repr__(self):
        return "Slice(%s,%s,off=%s,len=%s,cap=%s)" % (self.obj, self.path, self.off, self.len, self.cap)


class Iface:
    __slots__ = ("type", "val")

    def __init__(self, t, v):
        self.type, self.val = t, v

    def __repr__(self):
        return "Iface(%s,%r)" % (self.type, self.val)


class StrV:
    """string value made of (possibly symbolic) bytes"""
    __slots__ = ("b",)

    def __init__(self, b):
        self.b = tuple(b)


class Closure:
    __slots__ = ("fn", "bindings")

    def __init__(self, fn, bindings=()):
        self.fn, self.bindings = fn, tuple(bindings)


class ObjMeta:
    __slots__ = ("id", "type", "name", "site", "kind")

    def __init__(self, oid, ty, name, site, kind):
        self.id, self.type, self.name, self.site, self.kind = oid, ty, name, site, kind

    def __repr__(self):
        return "Obj#%d(%s %s)" % (self.id, self.kind, self.name)


class Frame:
    __slots__ = ("fn", "env", "block", "prev", "ip", "dest", "tag")

    def __init__(self, fn, env, dest=None):
        self.fn, self.env, self.block, self.prev, self.ip, self.dest = fn, env, 0, -1, 0, dest
        self.tag = None

    def clone(self):
        f = Frame(self.fn, dict(self.env), self.dest)
        f.block, f.prev, f.ip, f.tag = self.block, self.prev, self.ip, self.tag
        return f


def clone_cells(c):
    if type(c) is list:
        return [clone_cells(x) for x in c]
    return c


class Path:
    def __init__(self):
        self.frames = []
        self.heap = {}
        self.pc = []          # path condition (domain conds)
        self.log = []         # effects: ('w'|'r', obj, path)
        self.leaks = []       # leakage events
        self.outcome = None   # ('ret', values) | ('panic', msg) | ('stop', block) | ('error', msg)
        self.dstate = {}      # domain-private per-path state (e.g. refined bounds)
        self.steps = 0
        self.notes = []

    def clone(self):
        p = Path()
        p.frames = [f.clone() for f in self.frames]
        p.heap = {k: clone_cells(v) for k, v in self.heap.items()}
        p.pc = list(self.pc)
        p.log = list(self.log)
        p.leaks = list(self.leaks)
        p.dstate = {k: (dict(v) if isinstance(v, dict) else list(v) if isinstance(v, list) else v) for k, v in self.dstate.items()}
        p.steps = self.steps
        p.notes = list(self.notes)
        return p


class ForkRequest(Exception):
    """raised by an instruction handler: split the path on cond and re-execute"""

    def __init__(self, cond, refine=None):
        self.cond = cond
        self.refine = refine  # optional callable(path, branch:bool) applied to each child


COVERED = set()   # (function name, block index) entered by any path of any executor in this process (bounds-cover-the-code check)


class _Indet:
    """value that differs between merged paths and could not be reconciled; any use is an error"""

    def __repr__(self):
        return "INDET"


INDET = _Indet()


class GoPanic(Exception):
    def __init__(self, msg):
        self.msg = msg


class ExecError(Exception):
    pass


class TailCall:
    def __init__(self, fn, args, then=None):
        self.fn, self.args, self.then = fn, args, then


_Dead = object()


def wrap(v, w, signed):
    v &= (1 << w) - 1
    if signed and v >> (w - 1):
        v -= 1 << w
    return v


class Executor:
    def __init__(self, prog, dom):
        self.prog = prog
        self.dom = dom
        dom.ex = self
        self.meta = {}            # obj id -> ObjMeta
        self._ids = itertools.count(1)
        self.global_objs = {}     # global name -> obj id
        self.summaries = {}       # function name -> callable(ex, path, args, ins)
        self.opaque = {}          # type name -> zero-value factory (callable) for abstracted types
        self.stop_blocks = set()  # (fn name, block index): stop when the entry frame reaches it
        self.leak_mode = False
        self.trace_branches = False
        self.log_reads = False
        self.max_steps = 5_000_000
        self.deadline = None      # wall-clock limit for one exploration (time.time() value)
        self.max_pending = None   # limit on the number of finished + pending forked paths (treated like the time budget)
        self.call_hook = None     # optional callable(ex, path, fname, args) for call logging
        self.base_heap = {}       # heap snapshot after init (globals)
        self.merge_funcs = set()  # functions whose symbolic branches are merged at the post-dominator
        self.merge_all = False    # merge in every function (group mode: the variable-time loops may live in helpers)
        self.finished_aside = []  # paths that ended (panic/return) inside a merged region
        self.merges = 0
        from . import models
        models.install(self)

    # ---------------------------------------------------------------- memory
    def zero(self, t):
        if t.k == "named" and t.name in self.opaque:
            return self.opaque[t.name]()
        u = t.u
        if u.k == "basic":
            if u.name in ("bool", "untyped bool"):
                return False
            if u.name in ("string", "untyped string"):
                return ""
            if u.name in ("untyped nil", "unsafe.Pointer"):
                return None
            return 0
        if u.k in ("ptr", "func", "iface", "other"):
            return None
        if u.k == "slice":
            return SliceV(None, (), 0, 0, 0)
        if u.k == "struct":
            return [self.zero(self.prog.T(f["type"])) for f in u.fields]
        if u.k == "array":
            et = self.prog.T(u.elem_id)
            z = self.zero(et)
            if type(z) is list:
                return [clone_cells(z) for _ in range(u.len)]
            return [z] * u.len
        raise ExecError("zero of %s" % t)

    def is_leaf_type(self, t):
        if t.k == "named" and t.name in self.opaque:
            return True
        return t.u.k not in ("struct", "array")

    def new_obj(self, path, ty, name="", site="", kind="alloc", init=None):
        oid = next(self._ids)
        self.meta[oid] = ObjMeta(oid, ty, name, site, kind)
        path.heap[oid] = [self.zero(ty) if init is None else init]
        return oid

    def to_cells(self, v):
        if type(v) is tuple:
            return [self.to_cells(x) for x in v]
        return v

    def to_value(self, c):
        if type(c) is list:
            return tuple(self.to_value(x) for x in c)
        return c

    def _walk(self, path, p):
        c = path.heap[p.obj]
        idx = 0
        t = None
        for step in p.path:
            nxt = c[idx]
            if not isinstance(nxt, list) and hasattr(nxt, "opaque_explode"):
                # an access *into* an abstracted aggregate (e.g. p.x of an abstract Point): the abstract value is split
                # into per-field component tokens; it is re-assembled when all components of one value meet again
                t = self._type_at(p, nxt)
                self._cur_path = path
                nxt = nxt.opaque_explode(self, t)
                c[idx] = nxt
            c = nxt
            idx = step
        return c, idx

    def _type_at(self, p, leaf):
        """static type of the first abstracted leaf on the access path of p"""
        t = self.meta[p.obj].type
        cur = None
        c = None
        for step in p.path:
            if isinstance(t, tuple):
                t = t[2]
            elif t.k == "named" and t.name in self.opaque:
                return t
            elif t.u.k == "struct":
                t = t.field_type(step)
            elif t.u.k == "array":
                t = self.prog.T(t.u.elem_id)
            else:
                raise ExecError("access path through %s" % t)
        return t

    def load(self, path, p, ty=None):
        if p is None:
            raise GoPanic("nil pointer dereference")
        if not isinstance(p, Ptr):
            raise ExecError("load through non-pointer %r" % (p,))
        c, idx = self._walk(path, p)
        if self.log_reads:
            path.log.append(("r", p.obj, p.path))
        if p.view is not None:
            n = ty.u.len
            return tuple(self.to_value(x) for x in c[idx][p.view:p.view + n])
        return self.to_value(c[idx])

    def store(self, path, p, v):
        if p is None:
            raise GoPanic("nil pointer dereference")
        c, idx = self._walk(path, p)
        path.log.append(("w", p.obj, p.path if p.view is None else p.path + (("view", p.view),)))
        if p.view is not None:
            for i, x in enumerate(v):
                c[idx][p.view + i] = self.to_cells(x)
            return
        c[idx] = self.to_cells(v)

    # ---------------------------------------------------------------- values
    def const(self, j):
        t = self.prog.T(j["type"])
        if j.get("zero"):
            z = self.zero(t)
            return self.to_value(z)
        v = j["v"]
        if isinstance(v, bool):
            return v
        if j.get("str"):
            if "hex" in j:
                return bytes.fromhex(j["hex"]).decode("latin1")   # one character per byte
            return v
        if j.get("float"):
            raise ExecError("float constant")
        w, s = t.int_info()
        return wrap(int(v), w, s)

    def val(self, path, fr, j):
        k = j["k"]
        if k == "local" or k == "param" or k == "freevar":
            try:
                return fr.env[j["n"]]
            except KeyError:
                raise ExecError("unbound %s in %s" % (j["n"], fr.fn["name"]))
        if k == "const":
            return self.const(j)
        if k == "global":
            return Ptr(self.global_obj(path, j["n"], j.get("type")))
        if k == "func":
            return Closure(j["n"])
        raise ExecError("value kind " + k)

    def global_obj(self, path, name, tid=None):
        if name not in self.global_objs:
            g = self.prog.globals.get(name)
            if g is None:
                if tid is None:
                    raise ExecError("unknown global " + name)
                g = {"type": tid}
            ty = self.prog.T(g["type"]).elem
            oid = next(self._ids)
            self.meta[oid] = ObjMeta(oid, ty, name, g.get("pos", ""), "global")
            self.global_objs[name] = oid
        oid = self.global_objs[name]
        if oid not in path.heap:
            path.heap[oid] = [self.zero(self.meta[oid].type)]
        return oid

    # ---------------------------------------------------------------- int ops
    def is_conc(self, v):
        return isinstance(v, (int, bool))

    def binop(self, path, op, x, y, ty, xty, yty):
        if op in ("==", "!=", "<", "<=", ">", ">="):
            return self.compare(path, op, x, y, xty)
        if isinstance(x, bool) or (not self.is_conc(x) and xty.is_bool()):
            raise ExecError("bool binop " + op)
        if op == "+" and (isinstance(x, (str, StrV)) or isinstance(y, (str, StrV))):
            # string concatenation (error texts); symbolic strings keep their bytes
            if isinstance(x, str) and isinstance(y, str):
                return x + y
            xs = x.b if isinstance(x, StrV) else tuple(x.encode("latin1"))
            ys = y.b if isinstance(y, StrV) else tuple(y.encode("latin1"))
            return StrV(xs + ys)
        w, s = ty.int_info()
        if type(x) is int and type(y) is int:
            if op == "+":
                r = x + y
            elif op == "-":
                r = x - y
            elif op == "*":
                r = x * y
            elif op == "&":
                r = x & y
            elif op == "|":
                r = x | y
            elif op == "^":
                r = x ^ y
            elif op == "&^":
                r = x & ~y
            elif op == "<<":
                if y < 0:
                    raise GoPanic("negative shift amount")
                r = 0 if y >= w else x << y
            elif op == ">>":
                if y < 0:
                    raise GoPanic("negative shift amount")
                r = (x >> min(y, 200))
            elif op == "/":
                if y == 0:
                    raise GoPanic("integer divide by zero")
                q = abs(x) // abs(y)
                r = q if (x >= 0) == (y >= 0) else -q
            elif op == "%":
                if y == 0:
                    raise GoPanic("integer divide by zero")
                r = abs(x) % abs(y)
                r = r if x >= 0 else -r
            else:
                raise ExecError("binop " + op)
            return wrap(r, w, s)
        if self.leak_mode and op in ("<<", ">>", "/", "%"):
            if op in ("<<", ">>"):
                if not self.is_conc(y):
                    path.leaks.append(("shift", self.site(path), y, len(path.pc)))
            else:
                if not self.is_conc(x) or not self.is_conc(y):
                    path.leaks.append(("div", self.site(path), (x, y), len(path.pc)))
        return self.dom.binop(path, op, x, y, ty, xty, yty)

    def compare(self, path, op, x, y, ty):
        if isinstance(x, tuple) or isinstance(y, tuple):
            if op not in ("==", "!="):
                raise ExecError("aggregate compare")
            r = self.agg_eq(path, x, y, ty)
            return r if op == "==" else self.not_(r)
        if isinstance(x, (Ptr, SliceV, Iface, Closure)) or x is None or isinstance(y, (Ptr, SliceV, Iface, Closure)) or y is None:
            if isinstance(x, SliceV) and x.obj is None:
                x = None
            if isinstance(y, SliceV) and y.obj is None:
                y = None
            if isinstance(x, Iface) or isinstance(y, Iface):
                e = (x is None) == (y is None) and (x is None or x is y)
            else:
                e = x == y
            return e if op == "==" else not e
        if isinstance(x, str) and isinstance(y, str):
            return (x == y) if op == "==" else (x != y)
        if isinstance(x, StrV) or isinstance(y, StrV):
            xs = x.b if isinstance(x, StrV) else tuple(x.encode("latin1"))
            ys = y.b if isinstance(y, StrV) else tuple(y.encode("latin1"))
            if op not in ("==", "!="):
                raise ExecError("ordering comparison of symbolic strings")
            if len(xs) != len(ys):
                r = False
            else:
                r = True
                u8 = self.prog.T("uint8")
                for a, b in zip(xs, ys):
                    r = self.and_(r, self.compare(path, "==", a, b, u8))
                    if r is False:
                        break
            return r if op == "==" else self.not_(r)
        if (type(x) is int or type(x) is bool) and (type(y) is int or type(y) is bool):
            return {"==": x == y, "!=": x != y, "<": x < y, "<=": x <= y, ">": x > y, ">=": x >= y}[op]
        if hasattr(x, "opaque_eq") or hasattr(y, "opaque_eq"):
            r = (x if hasattr(x, "opaque_eq") else y).opaque_eq(path, x, y)
            return r if op == "==" else self.not_(r)
        return self.dom.cmp(path, op, x, y, ty)

    def agg_eq(self, path, x, y, ty):
        u = ty.u
        res = True
        if u.k == "struct":
            subs = [self.prog.T(f["type"]) for f in u.fields]
        else:
            subs = [self.prog.T(u.elem_id)] * u.len
        for a, b, st in zip(x, y, subs):
            r = self.compare(path, "==", a, b, st)
            res = self.and_(res, r)
            if res is False:
                return False
        return res

    def not_(self, c):
        if isinstance(c, bool):
            return not c
        return self.dom.not_(c)

    def and_(self, a, b):
        if a is True:
            return b
        if b is True:
            return a
        if a is False or b is False:
            return False
        return self.dom.and_(a, b)

    def site(self, path):
        fr = path.frames[-1]
        ins = fr.fn["blocks"][fr.block]["instrs"][fr.ip]
        return (fr.fn["name"], ins.get("pos", ""), fr.block, fr.ip)

    # ---------------------------------------------------------------- running
    def start(self, fname, args, path=None, freevars=None):
        """create a path positioned at the entry of fname with the given args"""
        if path is None:
            path = Path()
            path.heap = {k: clone_cells(v) for k, v in self.base_heap.items()}
        fn = self.prog.fn(fname)
        if fn.get("external"):
            raise ExecError("cannot start in external function " + fname)
        COVERED.add((fname, 0))
        env = {}
        if len(args) != len(fn["params"]):
            raise ExecError("arity mismatch calling %s: %d vs %d" % (fname, len(args), len(fn["params"])))
        for p, a in zip(fn["params"], args):
            env[p["name"]] = a
        if freevars:
            for p, a in zip(fn["freevars"], freevars):
                env[p["name"]] = a
        path.frames.append(Frame(fn, env))
        return path

    def explore(self, path, limit=100000):
        """run path and all its forks to completion; returns finished paths"""
        done = []
        work = [path]
        while work:
            if (self.deadline is not None and time.time() > self.deadline) or (self.max_pending is not None and len(work) + len(done) > self.max_pending):
                e = ExecError("exploration time budget exceeded (%d paths pending)" % len(work))
                e.partial = done + work       # what was explored so far (facts read off these paths are still facts)
                raise e
            p = work.pop()
            forks = self.run(p)
            if forks:
                work.extend(f for f in forks if f is not _Dead)
            else:
                done.append(p)
            if self.finished_aside and not p.dstate.get("merge_stops"):
                done.extend(self.finished_aside)
                self.finished_aside = []
            if len(done) + len(work) > limit:
                raise ExecError("path explosion (> %d paths)" % limit)
        return done

    def call(self, fname, args, path=None):
        """convenience: explore a call; returns finished paths"""
        return self.explore(self.start(fname, args, path))

    def run(self, path):
        """run until the path finishes (returns None) or forks (returns child paths)"""
        base_depth = 0
        while path.outcome is None:
            fr = path.frames[-1]
            blk = fr.fn["blocks"][fr.block]
            if fr.ip >= len(blk["instrs"]):
                raise ExecError("fell off block")
            ins = blk["instrs"][fr.ip]
            path.steps += 1
            if path.steps > self.max_steps:
                path.outcome = ("error", "step limit")
                return None
            try:
                self.step(path, fr, ins)
            except GoPanic as e:
                path.outcome = ("panic", e.msg)
                return None
            except ForkRequest as fk:
                return self.do_fork(path, fk)
            except (ExecError, TypeError, AttributeError, KeyError, IndexError) as e:
                # engine limitation on this path (e.g. an abstracted value used concretely): the path ends in an
                # 'error' outcome, which every harness treats as not-discharged (never as success)
                path.outcome = ("error", "%s: %s @ %s" % (type(e).__name__, e, self.site(path)[:2]))
                return None
        return None

    def do_fork(self, path, fk):
        kids = []
        feas = {}
        feas[True] = self.dom.feasible(path, path.pc + [fk.cond])
        # if one side is infeasible the other one is feasible (the path condition is consistent)
        feas[False] = True if not feas[True] else self.dom.feasible(path, path.pc + [self.not_(fk.cond)])
        for branch in (True, False):
            c = fk.cond if branch else self.not_(fk.cond)
            if not feas[branch]:
                continue
            k = path.clone()
            k.pc.append(c)
            k.dstate.setdefault("decided", {})[self.dom.cond_key(fk.cond)] = branch
            self.dom.assume(k, c, fk.cond, branch)
            if fk.refine:
                fk.refine(k, branch)
            kids.append(k)
        if not kids:
            path.outcome = ("error", "both branches infeasible (inconsistent path condition)")
            return None
        fr = path.frames[-1]
        if len(kids) == 2 and (self.merge_all or fr.fn["name"] in self.merge_funcs):
            J = self.prog.ipdom(fr.fn["name"]).get(fr.block, -1)
            if J >= 0:
                return self.fork_and_merge(path, kids, (len(path.frames), fr.fn["name"], J))
        return kids

    def fork_and_merge(self, parent, kids, stop):
        npc = len(parent.pc)
        stopped, finished = [], []
        for k in kids:
            k.dstate.setdefault("merge_stops", []).append(stop)
            for p in self.explore(k):
                if p.outcome and p.outcome[0] == "merge-stop":
                    p.outcome = None
                    p.dstate["merge_stops"].pop()
                    stopped.append(p)
                else:
                    if p.dstate.get("merge_stops"):
                        p.dstate["merge_stops"].pop()
                    finished.append(p)
        self.finished_aside.extend(finished)
        if not stopped:
            return [_Dead]
        m = stopped[0]
        for o in stopped[1:]:
            m = self.merge2(m, o, npc)
        self.merges += 1
        ms = m.dstate.get("merge_stops")
        if ms and ms[-1] == stop:
            # the enclosing merged region ends at the same join block
            m.outcome = ("merge-stop", stop[2])
        return [m]

    def merge2(self, A, B, npc):
        if len(A.frames) != len(B.frames) or any(fa.fn is not fb.fn or fa.block != fb.block or fa.ip != fb.ip for fa, fb in zip(A.frames, B.frames)):
            raise ExecError("merge: control states differ")
        pcA, pcB = A.pc[npc:], B.pc[npc:]
        M = A.clone()
        M.pc = A.pc[:npc]
        # the merged path stands for (A's cases) or (B's cases)
        if pcA or pcB:
            M.pc.append(self.dom.or_conds(pcA, pcB))

        def mv(a, b):
            if a is b:
                return a
            if type(a) is type(b) and isinstance(a, (int, bool, str)) and a == b:
                return a
            if isinstance(a, (Ptr, SliceV)) or isinstance(b, (Ptr, SliceV)):
                if isinstance(a, Ptr) and a == b:
                    return a
                if isinstance(a, SliceV) and isinstance(b, SliceV) and (a.obj, a.path, a.off, a.len, a.cap) == (b.obj, b.path, b.off, b.len, b.cap):
                    return a
                return INDET
            if isinstance(a, tuple) and isinstance(b, tuple) and len(a) == len(b):
                return tuple(mv(x, y) for x, y in zip(a, b))
            if a is None and b is None:
                return None
            return self.dom.merge_value(self, A, B, npc, a, b)

        def mc(a, b):
            if type(a) is list and type(b) is list and len(a) == len(b):
                return [mc(x, y) for x, y in zip(a, b)]
            return mv(a, b)
        for fm, fa, fb in zip(M.frames, A.frames, B.frames):
            for k in set(fa.env) | set(fb.env):
                if k in fa.env and k in fb.env:
                    fm.env[k] = mv(fa.env[k], fb.env[k])
                else:
                    fm.env[k] = fa.env.get(k, fb.env.get(k))
        for oid in set(A.heap) | set(B.heap):
            if oid in A.heap and oid in B.heap:
                M.heap[oid] = mc(A.heap[oid], B.heap[oid])
            else:
                M.heap[oid] = clone_cells(A.heap.get(oid, B.heap.get(oid)))
        seen = set(A.log)
        M.log = A.log + [e for e in B.log if e not in seen]
        M.leaks = A.leaks + B.leaks
        M.steps = max(A.steps, B.steps)
        return M

    def truth(self, path, c):
        """decide a condition: True/False, or raise ForkRequest"""
        if isinstance(c, bool):
            return c
        dec = path.dstate.get("decided")
        if dec:
            k = self.dom.cond_key(c)
            if k in dec:
                return dec[k]
        r = self.dom.truth(path, c)
        if r is None:
            raise ForkRequest(c)
        return r

    def goto(self, fr, path, target):
        fr.prev = fr.block
        fr.block = target
        fr.ip = 0
        COVERED.add((fr.fn["name"], target))
        hit_stop = (fr.fn["name"], target) in self.stop_blocks and len(path.frames) == 1
        ms = path.dstate.get("merge_stops")
        hit_merge = bool(ms) and ms[-1] == (len(path.frames), fr.fn["name"], target)
        # phis
        blk = fr.fn["blocks"][target]
        instrs = blk["instrs"]
        n = 0
        if instrs and instrs[0]["op"] == "Phi":
            pi = blk["preds"].index(fr.prev)
            new = {}
            for ins in instrs:
                if ins["op"] != "Phi":
                    break
                new[ins["name"]] = self.val(path, fr, ins["edges"][pi])
                n += 1
            fr.env.update(new)
        fr.ip = n
        if hit_merge:
            path.outcome = ("merge-stop", target)
        if hit_stop:
            path.outcome = ("stop", target)

    def ret(self, path, vals):
        fr = path.frames.pop()
        if not path.frames:
            path.outcome = ("ret", vals)
            return
        caller = path.frames[-1]
        if fr.dest is not None:
            if callable(fr.dest):
                fr.dest(path, caller, vals)
            else:
                caller.env[fr.dest] = vals[0] if len(vals) == 1 else tuple(vals)
        caller.ip += 1

    def step(self, path, fr, ins):
        op = ins["op"]
        env = fr.env
        V = lambda j: self.val(path, fr, j)
        T = self.prog.T
        if op == "BinOp":
            env[ins["name"]] = self.binop(path, ins["binop"], V(ins["x"]), V(ins["y"]), T(ins["type"]), T(ins["xtype"]), T(ins["ytype"]))
        elif op == "UnOp":
            u = ins["unop"]
            x = V(ins["x"])
            if u == "*":
                env[ins["name"]] = self.load(path, x, T(ins["type"]))
            elif u == "!":
                env[ins["name"]] = self.not_(x)
            else:
                ty = T(ins["type"])
                w, s = ty.int_info()
                if type(x) is int:
                    env[ins["name"]] = wrap(-x if u == "-" else ~x, w, s)
                else:
                    env[ins["name"]] = self.dom.unop(path, u, x, ty)
        elif op == "FieldAddr":
            x = V(ins["x"])
            if x is None:
                raise GoPanic("nil pointer dereference")
            env[ins["name"]] = Ptr(x.obj, x.path + (ins["field"],))
        elif op == "IndexAddr":
            x = V(ins["x"])
            i = self.index_int(path, V(ins["index"]), ins)
            xt = T(ins["xtype"]).u
            if isinstance(x, SliceV):
                self.bounds(path, i, x.len, "index out of range")
                if x.obj is None:
                    raise GoPanic("index out of range (nil slice)")
                if type(i) is not int or type(x.off) is not int:
                    raise ExecError("symbolic slice index address")
                env[ins["name"]] = Ptr(x.obj, x.path + (x.off + i,))
            else:
                if x is None:
                    raise GoPanic("nil pointer dereference")
                n = T(xt.elem_id).u.len
                self.bounds(path, i, n, "index out of range")
                if type(i) is not int:
                    env[ins["name"]] = SymIdxPtr(x, i, n)
                else:
                    base = x.view or 0
                    env[ins["name"]] = Ptr(x.obj, x.path + (base + i,))
        elif op == "Store":
            a = V(ins["addr"])
            v = V(ins["val"])
            if isinstance(a, SymIdxPtr):
                a.store(self, path, v, T(ins["valtype"]))
            else:
                self.store(path, a, v)
        elif op == "Alloc":
            t = T(ins["type"])
            oid = self.new_obj(path, t.elem, ins.get("comment", ""), ins.get("pos", ""), "heap" if ins["heap"] else "stack")
            env[ins["name"]] = Ptr(oid)
        elif op == "Call":
            return self.do_call(path, fr, ins)
        elif op == "Extract":
            env[ins["name"]] = V(ins["x"])[ins["index"]]
        elif op == "ChangeType":
            env[ins["name"]] = V(ins["x"])
        elif op == "Convert":
            x = V(ins["x"])
            ft, tt = T(ins["xtype"]), T(ins["type"])
            if tt.is_int() and ft.is_int():
                w, s = tt.int_info()
                if type(x) is int:
                    env[ins["name"]] = wrap(x, w, s)
                else:
                    env[ins["name"]] = self.dom.convert(path, x, ft, tt)
            elif tt.u.k == "ptr" and ft.u.k == "ptr":
                env[ins["name"]] = x
            elif tt.u.k == "basic" and tt.u.name == "string" and ft.u.k == "slice" and isinstance(x, SliceV):
                # string([]byte): immutable snapshot of the bytes (possibly symbolic)
                if type(x.len) is not int:
                    raise ExecError("string() of a slice with symbolic length")
                if x.len == 0:
                    env[ins["name"]] = StrV(())
                else:
                    c, idx = self._walk(path, Ptr(x.obj, x.path))
                    env[ins["name"]] = StrV(tuple(c[idx][x.off:x.off + x.len]))
            elif tt.u.k == "slice" and ft.u.k == "basic" and ft.u.name in ("string", "untyped string") and isinstance(x, (str, StrV)):
                # []byte(string): a fresh array holding the bytes
                bs = list(x.b) if isinstance(x, StrV) else list(x.encode("latin1"))
                oid = self.new_obj(path, ("array", len(bs), self.prog.T("uint8")), name="[]byte(string)", init=bs, kind="heap")
                env[ins["name"]] = SliceV(oid, (), 0, len(bs), len(bs))
            else:
                raise ExecError("convert %s -> %s" % (ft, tt))
        elif op == "If":
            c = V(ins["cond"])
            if self.leak_mode and not isinstance(c, bool):
                path.leaks.append(("branch", self.site(path), c, len(path.pc)))
            t = self.truth(path, c)
            if self.trace_branches:
                path.notes.append(("br", fr.fn["name"], fr.block, bool(t)))
            succs = fr.fn["blocks"][fr.block]["succs"]
            self.goto(fr, path, succs[0] if t else succs[1])
            return
        elif op == "Jump":
            self.goto(fr, path, fr.fn["blocks"][fr.block]["succs"][0])
            return
        elif op == "Return":
            self.ret(path, [V(r) for r in ins["results"]])
            return
        elif op == "Phi":
            raise ExecError("phi in the middle of a block")
        elif op == "Slice":
            env[ins["name"]] = self.do_slice(path, fr, ins)
        elif op == "Index":
            x = V(ins["x"])
            i = self.index_int(path, V(ins["index"]), ins)
            n = len(x)
            self.bounds(path, i, n, "index out of range")
            if type(i) is int:
                env[ins["name"]] = ord(x[i]) if isinstance(x, str) else (x.b[i] if isinstance(x, StrV) else x[i])
            else:
                r = x[n - 1]
                for k in range(n - 2, -1, -1):
                    r = self.ite(path, self.dom.cmp(path, "==", i, k, self.prog.T("int")), x[k], r, T(ins["type"]))
                env[ins["name"]] = r
        elif op == "Field":
            env[ins["name"]] = V(ins["x"])[ins["field"]]
        elif op == "MakeInterface":
            env[ins["name"]] = Iface(ins["xtype"], V(ins["x"]))
        elif op == "TypeAssert":
            x = V(ins["x"])
            if ins.get("toiface"):
                raise ExecError("type assertion to an interface type")
            ok = isinstance(x, Iface) and x.type == ins["asserted"]
            if ins.get("commaok"):
                env[ins["name"]] = ((x.val if ok else self.to_value(self.zero(T(ins["asserted"])))), ok)
            elif ok:
                env[ins["name"]] = x.val
            else:
                raise GoPanic("interface conversion: value is %s, not %s" % (getattr(x, "type", None), ins["asserted"]))
        elif op == "MakeSlice":
            n = V(ins["len"])
            c = V(ins["cap"])
            if type(n) is not int or type(c) is not int:
                if self.leak_mode:
                    # an allocation whose size depends on secret data: the size is a memory-layout / slice-bound leak
                    path.leaks.append(("slicebound", self.site(path), n if type(n) is not int else c, len(path.pc)))
                raise ExecError("symbolic make() size")
            st = T(ins["type"])
            et = self.prog.T(st.u.elem_id)
            z = self.zero(et)
            cells = [clone_cells(z) for _ in range(c)]
            oid = next(self._ids)
            self.meta[oid] = ObjMeta(oid, ("array", c, et), "makeslice", ins.get("pos", ""), "heap")
            path.heap[oid] = [cells]
            env[ins["name"]] = SliceV(oid, (), 0, n, c)
        elif op == "MakeClosure":
            env[ins["name"]] = Closure(ins["fn"], [V(b) for b in ins["bindings"]])
        elif op == "Panic":
            x = V(ins["x"])
            msg = x.val if isinstance(x, Iface) else x
            raise GoPanic("explicit: %s" % (msg,))
        elif op == "SliceToArrayPointer":
            x = V(ins["x"])
            n = T(ins["type"]).elem.u.len
            if type(x.len) is int:
                if x.len < n:
                    raise GoPanic("slice to array pointer: length too short")
            else:
                t = self.truth(path, self.dom.cmp(path, "<", x.len, n, self.prog.T("int")))
                if t:
                    raise GoPanic("slice to array pointer: length too short")
            if x.obj is None:
                env[ins["name"]] = None
            else:
                env[ins["name"]] = Ptr(x.obj, x.path, x.off)
        elif op == "DebugRef":
            pass
        elif op == "Defer":
            c = ins["call"]
            args = [V(a) for a in c["args"]]
            if c["mode"] == "static":
                fname, bindings = c["fn"], ()
            elif c["mode"] == "dynamic":
                f = V(c["fnval"])
                if not isinstance(f, Closure):
                    raise ExecError("defer of %r" % (f,))
                fname, bindings = f.fn, f.bindings
            else:
                raise ExecError("defer mode " + c["mode"])
            if fr.tag is None:
                fr.tag = []
            fr.tag = list(fr.tag) + [(fname, args, bindings)]
        elif op == "RunDefers":
            if fr.tag:
                stack = list(fr.tag)
                fname, args, bindings = stack.pop()
                fr.tag = stack
                fr.ip -= 1          # come back to RunDefers after the deferred call returns
                self.invoke(path, fr, fname, args, bindings, None)
                return
        else:
            raise ExecError("unsupported instruction %s in %s: %s" % (op, fr.fn["name"], ins.get("text", "")))
        fr.ip += 1

    def index_int(self, path, i, ins):
        """index operand converted to int (Go allows any integer type as index)"""
        if type(i) is int:
            return i
        it = ins.get("itype")
        if it is None:
            return i
        ft = self.prog.T(it)
        tt = self.prog.T("int")
        if ft.int_info() == tt.int_info():
            return i
        return self.dom.convert(path, i, ft, tt)

    def ite(self, path, c, a, b, ty):
        if c is True:
            return a
        if c is False:
            return b
        if isinstance(a, tuple):
            u = ty.u
            if u.k == "struct":
                subs = [self.prog.T(f["type"]) for f in u.fields]
            else:
                subs = [self.prog.T(u.elem_id)] * len(a)
            return tuple(self.ite(path, c, x, y, st) for x, y, st in zip(a, b, subs))
        if a is b or (self.is_conc(a) and self.is_conc(b) and a == b and type(a) is type(b)):
            return a
        if hasattr(a, "opaque_ite"):
            return a.opaque_ite(path, c, a, b)
        if hasattr(b, "opaque_ite"):
            return b.opaque_ite(path, c, a, b)
        if isinstance(a, (Ptr, SliceV)) or a is None:
            if a == b:
                return a
            raise ExecError("ite over distinct pointers")
        return self.dom.ite(path, c, a, b, ty)

    def bounds(self, path, i, n, msg):
        """bounds check 0 <= i < n (i, n ints or domain terms)"""
        if self.leak_mode and not self.is_conc(i):
            path.leaks.append(("index", self.site(path), i, len(path.pc)))
        if type(i) is int and type(n) is int:
            if not (0 <= i < n):
                raise GoPanic(msg)
            return
        it = self.prog.T("int")
        ok = self.and_(self.dom.cmp(path, ">=", i, 0, it), self.dom.cmp(path, "<", i, n, it))
        if not self.truth(path, ok):
            raise GoPanic(msg)

    def do_slice(self, path, fr, ins):
        V = lambda j: self.val(path, fr, j) if j is not None else None
        x = V(ins["x"])
        lo, hi, mx = V(ins["low"]), V(ins["high"]), V(ins["max"])
        xt = self.prog.T(ins["xtype"]).u
        if isinstance(x, SliceV):
            obj, p, off, ln, cap = x.obj, x.path, x.off, x.len, x.cap
        elif isinstance(x, Ptr):
            n = self.prog.T(xt.elem_id).u.len
            obj, p, off, ln, cap = x.obj, x.path, (x.view or 0), n, n
        elif x is None:
            raise GoPanic("nil pointer dereference")
        else:
            raise ExecError("slice of %r" % (x,))
        if lo is None:
            lo = 0
        if hi is None:
            hi = ln
        if mx is None:
            mx = cap
        if self.leak_mode:
            for b in (lo, hi, mx):
                if not self.is_conc(b):
                    path.leaks.append(("slicebound", self.site(path), b, len(path.pc)))
        if all(type(z) is int for z in (lo, hi, mx, cap)):
            if not (0 <= lo <= hi <= mx <= cap):
                raise GoPanic("slice bounds out of range")
        else:
            it = self.prog.T("int")
            c = self.dom.cmp(path, "<=", lo, hi, it) if not (type(lo) is int and type(hi) is int) else lo <= hi
            c2 = self.dom.cmp(path, "<=", hi, mx, it) if not (type(hi) is int and type(mx) is int) else hi <= mx
            c3 = self.dom.cmp(path, "<=", mx, cap, it) if not (type(mx) is int and type(cap) is int) else mx <= cap
            c0 = self.dom.cmp(path, ">=", lo, 0, it) if type(lo) is not int else lo >= 0
            ok = self.and_(self.and_(c0, c), self.and_(c2, c3))
            if not self.truth(path, ok):
                raise GoPanic("slice bounds out of range")
        if type(lo) is int and type(off) is int:
            noff = off + lo
        else:
            noff = self.dom.binop(path, "+", off, lo, self.prog.T("int"), self.prog.T("int"), self.prog.T("int"))
        sub = lambda a, b: a - b if (type(a) is int and type(b) is int) else self.dom.binop(path, "-", a, b, self.prog.T("int"), self.prog.T("int"), self.prog.T("int"))
        return SliceV(obj, p, noff, sub(hi, lo), sub(mx, lo))

    def do_call(self, path, fr, ins):
        c = ins["call"]
        args = [self.val(path, fr, a) for a in c["args"]]
        mode = c["mode"]
        if mode == "builtin":
            r = self.builtin(path, c["fn"], args, ins)
            if "name" in ins:
                fr.env[ins["name"]] = r
            fr.ip += 1
            return
        if mode == "static":
            fname = c["fn"]
            bindings = ()
        elif mode == "dynamic":
            f = self.val(path, fr, c["fnval"])
            if not isinstance(f, Closure):
                raise ExecError("dynamic call of %r" % (f,))
            fname, bindings = f.fn, f.bindings
        else:
            raise ExecError("interface invoke not supported: " + c.get("method", ""))
        self.invoke(path, fr, fname, args, bindings, ins.get("name"))

    def invoke(self, path, fr, fname, args, bindings, dest):
        if self.call_hook:
            self.call_hook(self, path, fname, args)
        s = self.summaries.get(fname)
        if s is not None:
            r = s(self, path, args)
            if r is _models()._Pushed:
                return
            if isinstance(r, TailCall):
                self.push(path, r.fn, r.args, (), r.then if r.then else dest, fr)
                return
            if dest is not None:
                fr.env[dest] = r
            fr.ip += 1
            return
        fn = self.prog.funcs.get(fname)
        if fn is not None and fn.get("short") == "init" and (fn.get("external") or fn.get("pkg") not in self.prog.packages):
            fr.ip += 1
            return
        if fn is None or fn.get("external"):
            raise ExecError("no body and no model for " + fname)
        self.push(path, fname, args, bindings, dest, fr)

    def push(self, path, fname, args, bindings, dest, fr):
        fn = self.prog.fn(fname)
        env = {}
        if len(args) != len(fn["params"]):
            raise ExecError("arity mismatch calling %s" % fname)
        for p, a in zip(fn["params"], args):
            env[p["name"]] = a
        for p, a in zip(fn["freevars"], bindings):
            env[p["name"]] = a
        if len(path.frames) > 200:
            raise ExecError("call depth")
        COVERED.add((fn["name"], 0))
        path.frames.append(Frame(fn, env, dest))

    def alias(self, fname, target):
        """route calls of fname to target (same signature)"""
        self.summaries[fname] = lambda ex, path, args: TailCall(target, args)

    def run_init(self, pkgs=("filippo.io/edwards25519/field", "filippo.io/edwards25519")):
        """execute the package initialisers concretely; the resulting heap becomes the base heap"""
        path = Path()
        for pk in pkgs:
            p = self.start(pk + ".init", [], path)
            done = self.explore(p)
            if len(done) != 1 or done[0].outcome[0] != "ret":
                raise ExecError("init of %s: %s" % (pk, [d.outcome for d in done]))
            path = done[0]
            path.outcome = None
            path.frames = []
        self.base_heap = path.heap
        self.init_log = path.log
        self.init_dstate = path.dstate
        return path

    def builtin(self, path, name, args, ins):
        if name == "len":
            x = args[0]
            if isinstance(x, SliceV):
                return x.len
            if isinstance(x, str):
                return len(x)
            if isinstance(x, tuple):
                return len(x)
            raise ExecError("len of %r" % (x,))
        if name == "cap":
            return args[0].cap
        if name == "copy":
            d, s = args
            if isinstance(s, str):
                raise ExecError("copy from string")
            if type(d.len) is not int or type(s.len) is not int:
                if self.leak_mode:
                    path.leaks.append(("slicebound", self.site(path), d.len if type(d.len) is not int else s.len, len(path.pc)))
                raise ExecError("copy with symbolic length")
            n = min(d.len, s.len)
            if n == 0:
                return 0
            sc = self._walk(path, Ptr(s.obj, s.path))
            src = [clone_cells(x) for x in sc[0][sc[1]][s.off:s.off + n]]
            if self.log_reads:
                path.log.append(("r", s.obj, s.path))
            dc = self._walk(path, Ptr(d.obj, d.path))
            arr = dc[0][dc[1]]
            for i in range(n):
                arr[d.off + i] = src[i]
                path.log.append(("w", d.obj, d.path + (d.off + i,)))
            return n
        if name == "append":
            d, s_ = args
            if isinstance(s_, str):
                raise ExecError("append of string")
            if d is None:
                d = SliceV(None, (), 0, 0, 0)
            if any(type(v) is not int for v in (d.len, d.cap, s_.len)) or (d.obj is not None and type(d.off) is not int):
                raise ExecError("append with symbolic length/capacity")
            n = s_.len
            if n == 0:
                return d
            sc = self._walk(path, Ptr(s_.obj, s_.path))
            src = [clone_cells(x) for x in sc[0][sc[1]][s_.off:s_.off + n]]
            if d.obj is not None and d.len + n <= d.cap:
                # spare capacity: Go writes the new elements into the existing backing array
                dc = self._walk(path, Ptr(d.obj, d.path))
                arr = dc[0][dc[1]]
                for i in range(n):
                    arr[d.off + d.len + i] = src[i]
                    path.log.append(("w", d.obj, d.path + (d.off + d.len + i,)))
                return SliceV(d.obj, d.path, d.off, d.len + n, d.cap)
            old = []
            if d.obj is not None and d.len:
                dc = self._walk(path, Ptr(d.obj, d.path))
                old = [clone_cells(x) for x in dc[0][dc[1]][d.off:d.off + d.len]]
            cells = old + src
            oid = next(self._ids)
            self.meta[oid] = ObjMeta(oid, ("array", len(cells), None), "append", "", "heap")
            path.heap[oid] = [cells]
            return SliceV(oid, (), 0, len(cells), len(cells))
        raise ExecError("builtin " + name)


def _models():
    from . import models
    return models


class SymIdxPtr:
    """pointer to array element with a symbolic index (ite-expanded on access)"""

    def __init__(self, base, idx, n):
        self.base, self.idx, self.n = base, idx, n

    def load(self, ex, path, ty):
        it = ex.prog.T("int")
        off = self.base.view or 0
        vals = [ex.load(path, Ptr(self.base.obj, self.base.path + (off + k,)), ty) for k in range(self.n)]
        r = vals[self.n - 1]
        for k in range(self.n - 2, -1, -1):
            r = ex.ite(path, ex.dom.cmp(path, "==", self.idx, k, it), vals[k], r, ty)
        return r

    def store(self, ex, path, v, ty):
        it = ex.prog.T("int")
        off = self.base.view or 0
        for k in range(self.n):
            p = Ptr(self.base.obj, self.base.path + (off + k,))
            old = ex.load(path, p, ty)
            ex.store(path, p, ex.ite(path, ex.dom.cmp(path, "==", self.idx, k, it), v, old, ty))


_orig_load = Executor.load


def _load(self, path, p, ty=None):
    if isinstance(p, SymIdxPtr):
        return p.load(self, path, ty)
    return _orig_load(self, path, p, ty)


Executor.load = _load
