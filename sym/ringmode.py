"""Ring mode (L1): field.Element is an opaque cell holding an integer polynomial (meaning: its value
in GF(p), p = 2^255-19).  The Element methods are replaced by the ring operations - justified by the
L0 contracts (kernels.py: exact value mod p for every representation within the invariant, output
within the invariant).  Non-ring operations (Invert, Equal, IsNegative, Bytes, SetBytes, SqrtRatio)
introduce fresh symbols and record their contract as hypotheses in path.dstate['hyp']."""
import z3
from .exec import Ptr, SliceV, ExecError, ForkRequest, GoPanic, Iface
from .poly import Poly
from .absmodes import Abs

F = "filippo.io/edwards25519/field."
E = "filippo.io/edwards25519."
EM = "(*filippo.io/edwards25519/field.Element)."
P = 2**255 - 19
L_SC = 2**252 + 27742317777372353535851937790883648493


def _eq(self, path, a, b):
    if isinstance(a, Abs) and isinstance(b, Abs):
        if a.zero_limbs and b.zero_limbs:
            return True
        if a.tag in ("mont", "raw") or b.tag in ("mont", "raw"):
            # scalars (scalarmode): the limb arrays are saturated and reduced, so limb equality is equality of the
            # values - modulo l for Montgomery-domain cells, whose form is only known up to a multiple of l
            from .dom_lf import LF, LFCond
            d = LF.of(a.v) - LF.of(b.v)
            tag = a.tag or b.tag
            if d.is_const():
                return d.c % L_SC == 0 if tag == "mont" else d.c == 0
            return LFCond("modeq", d, [L_SC]) if tag == "mont" else LFCond("==", d)
        if a.zero_limbs or b.zero_limbs:
            # limb-level comparison of an abstract element with the Go zero value: "all limbs zero" is not a function of
            # the value (0 may be held as p), so neither answer may be assumed.  The one legitimate user, the
            # checkInitialized guard, is replaced by its contract below (discharged at limb level in C15).
            raise ExecError("limb-level == of an abstract field element with the zero value (outside checkInitialized)")
    raise ExecError("limb-level == on abstract elements")


def _ite(self, path, c, a, b):
    raise ExecError("ite over abstract elements (fork instead)")


Abs.opaque_eq = _eq
Abs.opaque_ite = _ite


def convert_heap(ex, heap, tname, fn):
    """replace every cell of (named) type tname in the heap by fn(concrete cells)"""
    def walk(t, c):
        if hasattr(t, "k"):
            if t.k == "named" and t.name == tname:
                return fn(c)
            u = t.u
            if u.k == "struct":
                return [walk(ex.prog.T(f["type"]), x) for f, x in zip(u.fields, c)]
            if u.k == "array":
                et = ex.prog.T(u.elem_id)
                return [walk(et, x) for x in c]
        elif isinstance(t, tuple) and t[0] == "array":
            return [walk(t[2], x) for x in c]
        return c
    out = {}
    for oid, cells in heap.items():
        m = ex.meta.get(oid)
        if m is None:
            out[oid] = cells
            continue
        out[oid] = [walk(m.type, cells[0])]
    return out


class Ring:
    def __init__(self, ex, symbols=None):
        """symbols: {global name: Poly} to replace concrete package constants by symbols (e.g. d, d2)"""
        self.ex = ex
        self.n = 0
        self.symbols = symbols or {}
        ex.opaque[F + "Element"] = lambda: Abs(Poly(), True)
        S = ex.summaries
        S[EM + "Add"] = self.op2(lambda a, b: a + b)
        S[EM + "Subtract"] = self.op2(lambda a, b: a - b)
        S[EM + "Multiply"] = self.op2(lambda a, b: a * b)
        S[EM + "Negate"] = self.op1(lambda a: -a)
        S[EM + "Square"] = self.op1(lambda a: a * a)
        S[EM + "Set"] = self.op1(lambda a: a)
        S[EM + "Zero"] = lambda ex_, path, a: self.put(path, a[0], Poly())
        S[EM + "One"] = lambda ex_, path, a: self.put(path, a[0], Poly.const(1))
        S[EM + "Select"] = self.select
        S[EM + "Swap"] = self.swap
        S[EM + "Invert"] = self.invert
        S[EM + "Equal"] = self.equal
        S[EM + "IsNegative"] = self.isneg
        S[EM + "Bytes"] = self.bytes
        S[EM + "SetBytes"] = self.setbytes
        S[EM + "Mult32"] = self.mult32
        self.counts = {}

    def fresh(self, prefix):
        self.n += 1
        return "%s%d" % (prefix, self.n)

    def get(self, path, p):
        c = self.ex.load(path, p)
        if not isinstance(c, Abs):
            raise ExecError("ring mode: element cell holds %r" % (c,))
        return c.v

    def put(self, path, p, v):
        self.ex.store(path, p, Abs(v, False))
        return p

    def hyp(self, path, h):
        path.dstate.setdefault("hyp", []).append(h)

    def count(self, n):
        self.counts[n] = self.counts.get(n, 0) + 1

    def op2(self, f):
        def s(ex, path, a):
            x, y = self.get(path, a[1]), self.get(path, a[2])
            return self.put(path, a[0], f(x, y))
        return s

    def op1(self, f):
        def s(ex, path, a):
            return self.put(path, a[0], f(self.get(path, a[1])))
        return s

    def mult32(self, ex, path, a):
        y = a[2]
        if type(y) is not int:
            raise ExecError("Mult32 with symbolic factor in ring mode")
        return self.put(path, a[0], self.get(path, a[1]) * y)

    def cond01(self, path, c):
        """decide a 0/1 int condition (fork if symbolic): returns True for 1"""
        if type(c) is int:
            if c not in (0, 1):
                raise ExecError("Select/Swap cond %d" % c)
            return c == 1
        return self.ex.truth(path, self.ex.dom.cmp(path, "==", c, 1, self.ex.prog.T("int")))

    def select(self, ex, path, a):
        v, x, y, c = a
        t = self.cond01(path, c)
        return self.put(path, v, self.get(path, x if t else y))

    def swap(self, ex, path, a):
        v, u, c = a
        if self.cond01(path, c):
            x, y = self.get(path, v), self.get(path, u)
            self.put(path, v, y)
            self.put(path, u, x)
        else:
            # both are read and rewritten with their own values (effects)
            self.put(path, v, self.get(path, v))
            self.put(path, u, self.get(path, u))
        return None

    def invert(self, ex, path, a):
        z = self.get(path, a[1])
        memo = path.dstate.setdefault("inv_memo", {})
        k = z.key()
        if k not in memo:
            name = self.fresh("inv")
            memo[k] = name
            self.hyp(path, ("inv", z, name))   # z*inv = 1, or z = 0 and inv = 0
        return self.put(path, a[0], Poly.var(memo[k]))

    def equal(self, ex, path, a):
        d = self.get(path, a[0]) - self.get(path, a[1])
        memo = path.dstate.setdefault("eq_memo", {})
        k = d.key()
        kn = (-d).key()
        if k not in memo and kn in memo:
            k = kn
        if k not in memo:
            if d.is_zero():
                return 1
            b = z3.Bool(self.fresh("eq"))
            memo[k] = b
            self.hyp(path, ("eq", d, b))       # b <=> d = 0 (mod p)
        return z3.If(memo[k], z3.BitVecVal(1, 64), z3.BitVecVal(0, 64))

    def isneg(self, ex, path, a):
        x = self.get(path, a[0])
        memo = path.dstate.setdefault("neg_memo", {})
        k = x.key()
        if k not in memo:
            b = z3.BitVec(self.fresh("isneg"), 64)
            path.pc.append(z3.Or(b == 0, b == 1))
            memo[k] = b
            self.hyp(path, ("isneg", x, b))    # b = parity of the reduced value of x
        return memo[k]

    def bytes(self, ex, path, a):
        x = self.get(path, a[0])
        name = self.fresh("enc")
        bs = [z3.BitVec("%s[%d]" % (name, i), 8) for i in range(32)]
        path.pc.append(z3.Extract(7, 7, bs[31]) == 0)    # canonical encoding < p < 2^255 (K-red, K-ser)
        oid = ex.new_obj(path, ("array", 32, ex.prog.T("uint8")), name="Element.Bytes()", init=list(bs), kind="heap")
        self.hyp(path, ("bytes", x, bs))       # bs = canonical little-endian encoding of x mod p
        return SliceV(oid, (), 0, 32, 32)

    def setbytes(self, ex, path, a):
        v, sl = a
        if type(sl.len) is not int:
            t = ex.truth(path, ex.dom.cmp(path, "==", sl.len, 32, ex.prog.T("int")))
            if not t:
                return (None, Iface("error", ("error", "edwards25519: invalid field element input size")))
            n = 32
        else:
            n = sl.len
        if n != 32:
            return (None, Iface("error", ("error", "edwards25519: invalid field element input size")))
        bs = [ex.load(path, Ptr(sl.obj, sl.path + (sl.off + i,))) for i in range(32)]
        name = self.fresh("dec")
        self.hyp(path, ("setbytes", bs, name))  # name = (little-endian value of bs) mod 2^255, mod p
        self.put(path, v, Poly.var(name))
        return (v, None)


def install(ex, base_heap, symbols=None):
    """returns (Ring, converted heap). symbols: {global var name: Poly}: the Element object that the global
    pointer variable refers to is replaced by the symbol"""
    r = Ring(ex, symbols)

    def check_init(ex_, path, args):
        """contract of checkInitialized (C15, limb level): panics exactly on Points whose X and Y limbs are all zero, i.e. on
        the Go zero value; the symbolic coordinates of the harnesses stand for valid points, which never are"""
        (sl,) = args
        if type(sl.len) is not int:
            raise ExecError("checkInitialized with a symbolic count")
        names = [f["name"] for f in ex_.prog.T(E + "Point").u.fields]
        ix, iy = names.index("x"), names.index("y")
        for i in range(sl.len):
            pp = ex_.load(path, Ptr(sl.obj, sl.path + (sl.off + i,)))
            if pp is None:
                raise GoPanic("nil pointer dereference")
            cx, cy = ex_.load(path, Ptr(pp.obj, pp.path + (ix,))), ex_.load(path, Ptr(pp.obj, pp.path + (iy,)))
            if isinstance(cx, Abs) and isinstance(cy, Abs) and cx.zero_limbs and cy.zero_limbs:
                raise GoPanic("explicit: edwards25519: use of uninitialized Point")
        return None
    ex.summaries[E + "checkInitialized"] = check_init

    def conv(c):
        val = sum(int(l) << (51 * i) for i, l in enumerate(c)) % P
        return Abs(Poly.const(val), all(int(l) == 0 for l in c))
    heap = convert_heap(ex, base_heap, F + "Element", conv)
    for gname, poly in (symbols or {}).items():
        oid = ex.global_objs[gname]
        ptr = heap[oid][0]
        if isinstance(ptr, Ptr):
            c = heap[ptr.obj]
            # walk ptr.path
            if ptr.path:
                raise ExecError("symbol global with interior pointer")
            heap[ptr.obj] = [Abs(poly, False)]
        else:
            heap[oid] = [Abs(poly, False)]
    return r, heap
