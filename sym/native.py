"""Run Go code against the real compiled package (replays, differential validation):
an in-package _test.go file is injected with `go test -overlay`; nothing is written to /repo."""
import os, json, subprocess, tempfile, shutil
from .ir import REPO

GOENV = dict(GOFLAGS="-mod=mod", GOPROXY="off", GOSUMDB="off", GOTOOLCHAIN="local")


def go_test(code, pkg="", run="TestVerif", tags="", timeout=600, race=False, repo=None, extra_files=None, goarch=""):
    """pkg: '' (root package) or 'field'.  code: full text of a _test.go file in that package.
    returns (returncode, stdout+stderr)"""
    repo = repo or REPO
    tmp = tempfile.mkdtemp(prefix="verif_native_")
    try:
        real = os.path.join(tmp, "zz_verif_replay_test.go")
        with open(real, "w") as f:
            f.write(code)
        virt = os.path.join(repo, pkg, "zz_verif_replay_test.go")
        repl = {virt: real}
        for name, text in (extra_files or {}).items():
            rp = os.path.join(tmp, name)
            with open(rp, "w") as f:
                f.write(text)
            repl[os.path.join(repo, pkg, name)] = rp
        ov = os.path.join(tmp, "overlay.json")
        with open(ov, "w") as f:
            json.dump({"Replace": repl}, f)
        cmd = ["go", "test", "-vet=off", "-count=1", "-v", "-run", run, "-overlay", ov]
        if tags:
            cmd += ["-tags", tags]
        if race:
            cmd += ["-race"]
        cmd += ["./" + pkg if pkg else "."]
        env = dict(os.environ, **GOENV)
        env["GOCACHE"] = env.get("GOCACHE", os.path.expanduser("~/.cache/go-build"))
        if goarch:
            env["GOARCH"] = goarch
        r = subprocess.run(cmd, cwd=repo, env=env, capture_output=True, text=True, timeout=timeout)
        return r.returncode, r.stdout + r.stderr
    finally:
        shutil.rmtree(tmp, ignore_errors=True)


def run_ops(pkg, ops, tags="", repo=None, race=False, goarch=""):
    """execute a script of operations on the real compiled package via the injected driver;
    pkg '' (edwards25519) or 'field'.  returns list of result dicts"""
    from .ir import VERIF
    drv = os.path.join(VERIF, "godrv", ("field" if pkg == "field" else "ed") + "_driver_test.go")
    code = open(drv).read()
    tmp = tempfile.mkdtemp(prefix="verif_ops_")
    try:
        opsf = os.path.join(tmp, "ops.json")
        outf = os.path.join(tmp, "out.json")
        with open(opsf, "w") as f:
            json.dump(ops, f)
        os.environ["VERIF_OPS"] = opsf
        os.environ["VERIF_OUT"] = outf
        rc, out = go_test(code, pkg=pkg, run="TestVerifDriver", tags=tags, repo=repo, race=race, goarch=goarch)
        if rc != 0 or not os.path.exists(outf):
            raise RuntimeError("native driver failed (rc=%d):\n%s" % (rc, out[-3000:]))
        res = json.load(open(outf))
        for r in res:
            sl = r.get("slots") or {}
            bad = [k for k in sl if k.endswith("#tail")]
            for k in bad:
                sl.pop(k)
            if bad and "panic" not in r:
                # writes behind the end of an input slice (into the caller's spare capacity): reported like a crash so
                # that every battery treats it as a failure
                r["panic"] = "input slice %s: bytes behind its end (spare capacity of the caller's buffer) were overwritten" % bad[0][:-5]
        return res
    finally:
        shutil.rmtree(tmp, ignore_errors=True)
