"""Run Go code against the real compiled package (replays, differential validation):
an in-package _test.go file is injected with `go test -overlay`; nothing is written to /repo."""
import os, json, subprocess, tempfile, shutil
from .ir import REPO

GOENV = dict(GOFLAGS="-mod=mod", GOPROXY="off", GOSUMDB="off", GOTOOLCHAIN="local")


def go_test(code, pkg="", run="TestVerif", tags="", timeout=600, race=False, repo=None, extra_files=None):
    """pkg: '' (root package) or 'field'.  code: full text of a _test.go file in that package.
    returns (returncode, stdout+stderr)"""
    repo = repo or REPO
    tmp = tempfile.mkdtemp(prefix="verif_native_")
    try:
        real = os.path.join(tmp, "zz_verif_replay_test.go")
        with open(real, "w") as f:
            f.write(code)
        virt = os.path.join(repo, pkg, "zz_verif_replay_test.go")
        repl = {virt: real}
        for name, text in (extra_files or {}).items():
            rp = os.path.join(tmp, name)
            with open(rp, "w") as f:
                f.write(text)
            repl[os.path.join(repo, pkg, name)] = rp
        ov = os.path.join(tmp, "overlay.json")
        with open(ov, "w") as f:
            json.dump({"Replace": repl}, f)
        cmd = ["go", "test", "-vet=off", "-count=1", "-v", "-run", run, "-overlay", ov]
        if tags:
            cmd += ["-tags", tags]
        if race:
            cmd += ["-race"]
        cmd += ["./" + pkg if pkg else "."]
        env = dict(os.environ, **GOENV)
        env["GOCACHE"] = env.get("GOCACHE", os.path.expanduser("~/.cache/go-build"))
        r = subprocess.run(cmd, cwd=repo, env=env, capture_output=True, text=True, timeout=timeout)
        return r.returncode, r.stdout + r.stderr
    finally:
        shutil.rmtree(tmp, ignore_errors=True)
