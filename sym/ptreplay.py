"""Native test batteries for Point-level operations: used to replay solver counterexamples / failed
certificates on the real compiled package with an independent oracle (ref.py, affine Edwards law)."""
import random
from . import native, ref

P, L = ref.P, ref.L


def limbs_of(v, loose=False, rng=None):
    v %= P
    if loose and rng is not None:
        r = rng.random()
        if r < 0.3 and v < 19:
            v += P                      # non-canonical representation of a small value (p .. p+18)
        elif r < 0.5 and v == 0:
            v = P
    return [(v >> (51 * i)) & (2**51 - 1) if i < 4 else v >> 204 for i in range(5)]


def fmt_pt(coords):
    return "pt:" + ";".join(",".join(str(l) for l in c) for c in coords)


def mk_point(aff, rng, z=None, loose=True):
    x, y = aff
    if z is None:
        z = rng.choice([1, 2, P - 1, rng.randrange(1, P), rng.randrange(1, P)])
    X, Y, Z, T = x * z % P, y * z % P, z % P, x * y * z % P
    return fmt_pt([limbs_of(c, loose, rng) for c in (X, Y, Z, T)])


def parse_pt(s):
    cs = s[3:].split(";")
    return [ref.fe_val([int(x) for x in c.split(",")]) % P for c in cs]


def affine_of(s):
    """(x, y) of a raw point string, or a string describing why it is invalid"""
    X, Y, Z, T = parse_pt(s)
    if Z == 0:
        return "Z = 0"
    zi = ref.inv(Z)
    x, y = X * zi % P, Y * zi % P
    if not ref.ed_on_curve((x, y)):
        return "not on the curve"
    if (X * Y - Z * T) % P != 0:
        return "X*Y != Z*T"
    return (x, y)


def bank(rng, n=12):
    pts = list(ref.small_order_points())
    pts.append(ref.BASE)
    for _ in range(n):
        k = rng.choice([1, 2, 3, 8, L - 1, L + 1, rng.randrange(1, 8 * L)])
        q = ref.ed_mul(k, ref.BASE)
        if rng.random() < 0.4:
            q = ref.ed_add(q, rng.choice(ref.small_order_points()))
        pts.append(q)
    return pts


def structured_scalars():
    """scalars built from limb patterns random testing never produces: all-zero / all-ones / single-bit 64-bit limbs,
    nibble patterns that stress the radix-16 recentering (runs of 7, 8, f), values around 2^252 and l"""
    L_ = L
    out = set()
    limbs = [0, 2**64 - 1, 2**63, 1, 2**63 - 1, 0x8888888888888888, 0x7777777777777777, 0xffffffff00000000, 0x00000000ffffffff]
    for a in limbs:
        for b in limbs[:5]:
            for c in limbs[:4]:
                for d_ in (0, 1, 0x0fffffffffffffff, 0x0800000000000000):
                    out.add((a | (b << 64) | (c << 128) | (d_ << 192)) % L_)
    # carry chains across the 64-bit word boundaries of the recoders: a word of all 7s / all fs / 0 above a word that
    # does (or just does not) produce a carry
    words = [0x7777777777777777, 0x7777777777777778, 0x7777777777777776, 0x8888888888888888, 2**64 - 1, 0, 0x0777777777777777, 0x8777777777777777]
    lows = [0x7777777777777778, 0x7777777777777777, 0x8000000000000000, 2**64 - 1, 0x9e3779b97f4a7c15, 0]
    for w in words:
        for lo in lows:
            for pos in (1, 2, 3):
                for top in (0, 0x0123456789abcdef, 0x0fffffffffffffff):
                    v = lo << (64 * (pos - 1)) | w << (64 * pos)
                    if pos < 3:
                        v |= top << 192
                    if pos == 1:
                        v |= 0x0123456789abcdef << 128
                    out.add(v % (2**252))
                    out.add((v | (v >> 64 & (2**64 - 1))) % (2**252))
    for e in (0, 1, 4, 60, 63, 64, 65, 124, 127, 128, 129, 191, 192, 250, 251, 252):
        out.add((2**e) % L_)
        out.add((2**e - 1) % L_)
        out.add((L_ - 2**e) % L_)
    return sorted(out)


def montgomery_structured(limit=1200):
    """scalars a for which a*R^k mod l (R = 2^256, k in {-2,-1,1,2}) is a structured value (a zero / all-ones 64-bit
    limb, a value in [2^252, l), l-1, ...): the inputs on which dropped carries / borrows in the word-by-word
    Montgomery code show, which random testing hits with probability ~2^-64"""
    R = 2**256
    Ri = pow(R, L - 2, L)
    T = structured_scalars()
    T += [2**252 + d for d in (0, 1, 2, 2**64 - 1, 2**64, 2**64 + 1, 2**124, 2**124 + 2**64)] + [L - d for d in (1, 2, 3, 2**64, 2**64 + 1, 2**124)]
    out = []
    seen = set()
    for t in T:
        t %= L
        for mult in (Ri, Ri * Ri % L, R % L, R * R % L, 1):
            a = t * mult % L
            if a not in seen:
                seen.add(a)
                out.append(a)
    # interleave so that a prefix of the list covers every multiplier
    return out[:limit] if limit else out


_pairs_cache = {}


def montgomery_presub(a, b):
    """the value V = (a*b + m*l) / 2^256 (m = -a*b/l mod 2^256) that word-by-word Montgomery multiplication holds before
    its final conditional subtraction of l: V = a*b/R mod l, or that plus l"""
    R = 2**256
    t = a * b
    m = (-t * pow(L, -1, R)) % R
    return (t + m * L) // R


def montgomery_pairs(limit=400, seed=1):
    """pairs (A, B) of raw Montgomery-domain limb values (< l) whose Montgomery product's *pre-subtraction* value V is a
    structured number, in both regimes V < l (no final subtraction) and V >= l (final subtraction taken, V = t + l):
    the inputs on which a dropped borrow / carry or a wrong select in the final reduction of the variable-by-variable
    multiplication shows.  Obtained algebraically: choose the target t and A, solve B = t*R/A mod l, keep the pair if
    the big-integer model of the word-by-word algorithm reaches the wanted regime (probability ~3 % for V >= l)."""
    key = (limit, seed)
    if key in _pairs_cache:
        return _pairs_cache[key]
    rng = random.Random(seed)
    R = 2**256
    c = L - 2**252
    targets = []
    # t such that t + l has a zero / all-ones word with a borrow or carry rippling through it
    for j in (1, 2, 3, 2**20, 2**59):
        for e in (1, 2, c - 1, c, 2**64, 2**64 + 1, 2**127):
            targets.append((j * 2**192 - e) % L)
            targets.append((j * 2**128 - e) % L)
            targets.append((j * 2**64 - e) % L)
    targets += [0, 1, L - 1, L - 2, 2**252 - 1, 2**252, 2**252 + 1, c, c - 1, c + 1, L - c, 2**128 - c, 2**192 - c, 2**64 - (c % 2**64)]
    ss = structured_scalars()
    targets += [ss[(i * 7) % len(ss)] for i in range(max(0, limit - len(targets)))]
    out = []
    for t in targets[:limit]:
        t %= L
        got_hi = got_lo = False
        for tries in range(160):
            # V >= a*b/R: the regime V = t < l needs a small product when t is small, the regime V = t + l a large one
            A = (rng.randrange(1, L) if tries % 4 == 1 else rng.randrange(1, min(L, 4 * t + 2))) if tries % 2 else L - 1 - rng.randrange(2**200)
            B = t * R % L * pow(A, -1, L) % L
            V = montgomery_presub(A, B)
            assert V % L == t
            if V >= L and not got_hi:
                got_hi = True
                out.append((A, B))
            elif V < L and not got_lo:
                got_lo = True
                out.append((A, B))
            if got_hi and got_lo:
                break
    _pairs_cache[key] = out
    return out


def scalar_words(k):
    v = k % L * (2**256) % L
    return "w:" + ",".join(str((v >> (64 * i)) & (2**64 - 1)) for i in range(4))


def receiver_states(rng):
    return ["pt:zero", mk_point((0, 1), rng), mk_point(ref.ed_mul(rng.randrange(1, L), ref.BASE), rng)]


def battery_binary(op, seed, spec):
    """op in P.Add / P.Subtract; spec(p, q) -> affine"""
    rng = random.Random(seed)
    pts = bank(rng)
    cases = []
    for i, p in enumerate(pts):
        for q in (p, ref.ed_neg(p), pts[(i * 7 + 3) % len(pts)], pts[(i + 1) % len(pts)], (0, 1)):
            cases.append((p, q))
    ops, meta = [], []
    for p, q in cases:
        for al in ("distinct", "v=p", "v=q", "zero"):
            init = {"p": mk_point(p, rng), "q": mk_point(q, rng)}
            if al == "distinct":
                init["v"] = rng.choice(receiver_states(rng)[1:])
                args = ["v", "p", "q"]
            elif al == "zero":
                init["v"] = "pt:zero"
                args = ["v", "p", "q"]
            elif al == "v=p":
                args = ["p", "p", "q"]
            else:
                args = ["q", "p", "q"]
            ops.append({"op": op, "args": args, "init": init})
            meta.append((p, q, al, args, init))
        if p == q:
            init = {"p": mk_point(p, rng), "v": "pt:zero"}
            ops.append({"op": op, "args": ["v", "p", "p"], "init": init})
            meta.append((p, q, "p=q", ["v", "p", "p"], init))
            init = {"p": mk_point(p, rng)}
            ops.append({"op": op, "args": ["p", "p", "p"], "init": init})
            meta.append((p, q, "v=p=q", ["p", "p", "p"], init))
    res = native.run_ops("", ops)
    for (p, q, al, args, init), r in zip(meta, res):
        if "panic" in r:
            return dict(what="%s panics on valid inputs (%s): %s" % (op, al, r["panic"]), op=op, args=args, init=init)
        got = affine_of(r["slots"][args[0]])
        want = spec(p, q)
        if got != want:
            return dict(what="%s[%s]: result %s, expected %s" % (op, al, got, want), op=op, args=args, init=init)
        for nm in ("p", "q"):
            if nm in init and nm != args[0] and r["slots"][nm] != init[nm]:
                return dict(what="%s[%s] modified argument %s" % (op, al, nm), op=op, args=args, init=init)
        if not r.get("ret_is_recv"):
            return dict(what="%s does not return the receiver" % op, op=op, args=args, init=init)
    return None


def battery_unary(op, seed, spec):
    rng = random.Random(seed)
    pts = bank(rng, 20)
    ops, meta = [], []
    for p in pts:
        for al in ("distinct", "v=p", "zero"):
            init = {"p": mk_point(p, rng)}
            args = ["p", "p"] if al == "v=p" else ["v", "p"]
            if al == "distinct":
                init["v"] = receiver_states(rng)[2]
            elif al == "zero":
                init["v"] = "pt:zero"
            ops.append({"op": op, "args": args, "init": init})
            meta.append((p, al, args, init))
    res = native.run_ops("", ops)
    for (p, al, args, init), r in zip(meta, res):
        if "panic" in r:
            return dict(what="%s panics on valid input: %s" % (op, r["panic"]), op=op, args=args, init=init)
        got = affine_of(r["slots"][args[0]])
        if got != spec(p):
            return dict(what="%s[%s]: result %s, expected %s" % (op, al, got, spec(p)), op=op, args=args, init=init)
        if args[0] != "p" and r["slots"]["p"] != init["p"]:
            return dict(what="%s modified its argument" % op, op=op, args=args, init=init)
    return None


def battery_scalarmult(seed, which=("P.ScalarMult", "P.ScalarBaseMult", "P.VarTimeDoubleScalarBaseMult", "P.MultiScalarMult", "P.VarTimeMultiScalarMult"), maxn=3):
    rng = random.Random(seed)
    pts = bank(rng, 6)
    ks = [0, 1, 2, 7, 8, 9, 15, 16, 17, L - 1, L - 2, (L - 1) // 2, 2**252, 2**252 - 1, 2**128, 8 * 16**20, 2**251 + 2**250] + [rng.randrange(L) for _ in range(6)]
    ss = structured_scalars()
    ks += [ss[(i * 37 + seed) % len(ss)] for i in range(24)] + [2**64 - 1, 2**128 + 2**64 - 1, (2**192 - 1) - (2**128 - 2**64)]
    ops, meta = [], []
    for op in which:
        for t in range(30):
            recv = rng.choice(["zero", "identity", "other", "alias"])
            if op == "P.ScalarMult":
                k = ks[(t * 5) % len(ks)] if t < 10 else rng.randrange(L)
                q = pts[(t * 3) % len(pts)]
                init = {"k": scalar_words(k), "q": mk_point(q, rng)}
                args = ["v", "k", "q"]
                want = ref.ed_mul(k, q)
                alias_to = "q"
            elif op == "P.ScalarBaseMult":
                k = ks[(t * 3 + 1) % len(ks)]
                init = {"k": scalar_words(k)}
                args = ["v", "k"]
                want = ref.ed_mul(k, ref.BASE)
                alias_to = None
            elif op == "P.VarTimeDoubleScalarBaseMult":
                a, b = ks[(t * 7) % len(ks)], ks[(t * 11 + 2) % len(ks)]
                q = pts[(t * 5 + 1) % len(pts)]
                init = {"a": scalar_words(a), "b": scalar_words(b), "q": mk_point(q, rng)}
                args = ["v", "a", "q", "b"]
                want = ref.ed_add(ref.ed_mul(a, q), ref.ed_mul(b, ref.BASE))
                alias_to = "q"
            else:
                n = t % (maxn + 1)
                init = {}
                sn, pn = [], []
                want = (0, 1)
                for j in range(n):
                    k = ks[(t * 3 + j * 5) % len(ks)]
                    q = pts[(t + j * 2) % len(pts)]
                    init["k%d" % j] = scalar_words(k)
                    init["q%d" % j] = mk_point(q, rng)
                    sn.append("k%d" % j)
                    pn.append("q%d" % j)
                    want = ref.ed_add(want, ref.ed_mul(k, q))
                if n >= 2 and t % 3 != 1:
                    # the same point object twice (t % 3 == 0), the same scalar object twice (t % 3 == 2), both (t % 6 == 0)
                    dp, dk = t % 3 == 0, t % 3 == 2 or t % 6 == 0
                    if dp:
                        pn[1] = pn[0]
                    if dk:
                        sn[n - 1] = sn[0]
                    want = (0, 1)
                    for j in range(n):
                        kk = ks[(t * 3 + (0 if dk and j == n - 1 else j) * 5) % len(ks)]
                        qq = pts[(t + (0 if dp and j == 1 else j) * 2) % len(pts)]
                        want = ref.ed_add(want, ref.ed_mul(kk, qq))
                args = ["v", "|".join(sn), "|".join(pn)]
                alias_to = pn[0] if n else None
            if recv == "alias" and alias_to:
                args[0] = alias_to
            elif recv == "zero" or (recv == "alias" and not alias_to):
                init["v"] = "pt:zero"
            elif recv == "identity":
                init["v"] = mk_point((0, 1), rng)
            else:
                init["v"] = mk_point(pts[(t + 4) % len(pts)], rng)
            ops.append({"op": op, "args": args, "init": init})
            meta.append((op, args, init, want, recv))
    res = native.run_ops("", ops)
    for (op, args, init, want, recv), r in zip(meta, res):
        if "panic" in r:
            return dict(what="%s panics on valid input (receiver %s): %s" % (op, recv, r["panic"]), op=op, args=args, init=init)
        got = affine_of(r["slots"][args[0]])
        if got != want:
            return dict(what="%s (receiver %s): result %s, expected %s" % (op, recv, got, want), op=op, args=args, init=init)
        if r.get("slices_modified"):
            return dict(what="%s modified a slice argument: %s (scalars %s, points %s)" % (op, r["slices_modified"], args[1], args[2]), op=op, args=args, init=init)
        for nm, v in init.items():
            if nm != args[0] and r["slots"].get(nm) != v:
                return dict(what="%s modified input %s" % (op, nm), op=op, args=args, init=init)
    return None


def battery_multiscalar_sizes(seed, sizes, which=("P.MultiScalarMult", "P.VarTimeMultiScalarMult")):
    """multi-scalar routines with term counts far above the symbolic bound (chosen from the constants the code compares a
    length with): distinct receiver and receiver aliased to the first / a middle / the last point; duplicate scalars"""
    rng = random.Random(seed)
    pts = bank(rng, 8)
    ops, meta = [], []
    for op in which:
        for n in sizes:
            ks = [rng.choice([0, 1, 2, L - 1, rng.randrange(L), rng.randrange(L)]) for _ in range(n)]
            qs = [pts[rng.randrange(len(pts))] for _ in range(n)]
            want = (0, 1)
            for k_, q in zip(ks, qs):
                want = ref.ed_add(want, ref.ed_mul(k_, q))
            for recv in ("zero", "alias0", "aliasmid", "aliaslast"):
                init = {}
                for j in range(n):
                    init["k%d" % j] = scalar_words(ks[j])
                    init["q%d" % j] = mk_point(qs[j], rng)
                v = {"zero": "v", "alias0": "q0", "aliasmid": "q%d" % (n * 7 // 8), "aliaslast": "q%d" % (n - 1)}[recv] if n else "v"
                if v == "v":
                    init["v"] = "pt:zero" if rng.random() < 0.5 else mk_point(pts[0], rng)
                ops.append({"op": op, "args": [v, "|".join("k%d" % j for j in range(n)), "|".join("q%d" % j for j in range(n))], "init": init})
                meta.append((op, n, recv, want))
    res = native.run_ops("", ops)
    for (op, n, recv, want), o, r in zip(meta, ops, res):
        if "panic" in r:
            return dict(what="%s with %d terms (receiver %s) panics: %s" % (op, n, recv, r["panic"]), op=op, args=o["args"], init=o["init"])
        got = affine_of(r["slots"][o["args"][0]])
        if got != want:
            return dict(what="%s with %d terms (receiver %s): result %s, expected %s" % (op, n, recv, got, want), op=op, args=o["args"], init=o["init"])
        if r.get("slices_modified"):
            return dict(what="%s with %d terms modified a slice argument: %s" % (op, n, r["slices_modified"]), op=op, args=o["args"], init=o["init"])
        for nm, val in o["init"].items():
            if nm != o["args"][0] and r["slots"].get(nm) != val:
                return dict(what="%s with %d terms modified input %s" % (op, n, nm), op=op, args=o["args"], init=o["init"])
    return None


def battery_history_sizes(seed, consts):
    """'identical output no matter what was computed before' for term counts above the symbolic bound: in ONE process each
    multi-scalar routine is called with term counts that go up and down around the constants the unexplored code compares a
    length with (a larger call before a smaller one, the same size twice); every result is compared with the stateless oracle"""
    rng = random.Random(seed)
    pts = bank(rng, 8)
    ops, meta = [], []
    seqs = []
    for c in (consts or [8, 16, 32, 64])[:4]:
        seqs.append([n for n in (c + 1, 2 * c + 1, c + 1, c, 2 * c + 5, c + 3, c - 1, c + 3, 2, c) if 0 <= n <= 300])
    for op in ("P.VarTimeMultiScalarMult", "P.MultiScalarMult"):
        for seq in seqs:
            for n in seq:
                ks = [rng.choice([1, 2, L - 1, rng.randrange(L), rng.randrange(L)]) for _ in range(n)]
                qs = [pts[rng.randrange(len(pts))] for _ in range(n)]
                want = (0, 1)
                init = {"v": "pt:zero"}
                for j, (k_, q) in enumerate(zip(ks, qs)):
                    want = ref.ed_add(want, ref.ed_mul(k_, q))
                    init["k%d" % j] = scalar_words(k_)
                    init["q%d" % j] = mk_point(q, rng)
                ops.append({"op": op, "args": ["v", "|".join("k%d" % j for j in range(n)), "|".join("q%d" % j for j in range(n))], "init": init})
                meta.append((op, n, want, tuple(seq)))
    res = native.run_ops("", ops)
    for (op, n, want, seq), o, r in zip(meta, ops, res):
        if "panic" in r:
            return dict(what="%s with %d terms (in the call sequence with term counts %s) panics: %s" % (op, n, list(seq), r["panic"]), op=op, args=o["args"], init=o["init"])
        got = affine_of(r["slots"]["v"])
        if got != want:
            return dict(what="%s with %d terms, called in one process after calls with term counts %s: result %s, expected %s (the result depends on earlier calls)" % (op, n, list(seq), got, want),
                        op=op, args=o["args"], init=o["init"])
    return None


def battery_receiver_history(seed):
    """'whatever operation history produced the point' / hidden per-object state (flags, memoised encodings, cached forms):
    ONE Point object is the receiver of two producers in a row - every ordered pair of {decode, copy of the generator /
    identity, SetExtendedCoordinates with Z != 1, Add, Negate, ScalarBaseMult, ScalarMult} - and is then read with Bytes,
    BytesMontgomery, Equal and ExtendedCoordinates -> SetExtendedCoordinates -> Bytes; every reading is compared with the
    stateless oracle for the value the second producer must have left"""
    rng = random.Random(seed)
    P = ref.P
    pts = [q for q in bank(rng, 6) if q[0] * q[1] % P != 0][:4]
    A, B2 = pts[0], pts[1]

    def fe(v):
        return (v % P).to_bytes(32, "little").hex()

    def mont(q):
        y = q[1]
        return (0 if y == 1 else (1 + y) * ref.inv(1 - y) % P).to_bytes(32, "little").hex()
    k1 = rng.randrange(1, L)
    lam = rng.randrange(2, P)
    C = pts[2]
    prods = [
        ("setbytes", 'v.SetBytes(hx("%s"))' % ref.ed_encode(pts[3]).hex(), pts[3]),
        ("generator", "v.Set(NewGeneratorPoint())", ref.BASE),
        ("identity", "v.Set(NewIdentityPoint())", (0, 1)),
        ("setext", 'v.SetExtendedCoordinates(el("%s"), el("%s"), el("%s"), el("%s"))' % (fe(C[0] * lam), fe(C[1] * lam), fe(lam), fe(C[0] * C[1] * lam)), C),
        ("add", 'v.Add(pt("%s"), pt("%s"))' % (ref.ed_encode(A).hex(), ref.ed_encode(B2).hex()), ref.ed_add(A, B2)),
        ("negate", 'v.Negate(pt("%s"))' % ref.ed_encode(A).hex(), ref.ed_neg(A)),
        ("negate of a sum (Z != 1)", 'v.Negate(new(Point).Add(pt("%s"), pt("%s")))' % (ref.ed_encode(A).hex(), ref.ed_encode(B2).hex()), ref.ed_neg(ref.ed_add(A, B2))),
        ("copy of a sum (Z != 1)", 'v.Set(new(Point).Add(pt("%s"), pt("%s")))' % (ref.ed_encode(A).hex(), ref.ed_encode(C).hex()), ref.ed_add(A, C)),
        ("cofactor multiple", 'v.MultByCofactor(pt("%s"))' % ref.ed_encode(B2).hex(), ref.ed_mul(8, B2)),
        ("subtract", 'v.Subtract(pt("%s"), pt("%s"))' % (ref.ed_encode(A).hex(), ref.ed_encode(B2).hex()), ref.ed_add(A, ref.ed_neg(B2))),
        ("basemult", 'v.ScalarBaseMult(sc("%s"))' % k1.to_bytes(32, "little").hex(), ref.ed_mul(k1, ref.BASE)),
        ("scalarmult", 'v.ScalarMult(sc("%s"), pt("%s"))' % (k1.to_bytes(32, "little").hex(), ref.ed_encode(B2).hex()), ref.ed_mul(k1, B2)),
    ]
    cases = []
    for n1, c1, _ in prods:
        for n2, c2, w2 in prods:
            sums = '"%s", "%s", "%s"' % (ref.ed_encode(ref.ed_add(A, w2)).hex(), ref.ed_encode(ref.ed_add(A, ref.ed_neg(w2))).hex(), ref.ed_encode(ref.ed_mul(k1, w2)).hex())
            cases.append('{"%s then %s", func(v *Point) { %s; %s }, "%s", "%s", %s},' % (n1, n2, c1, c2, ref.ed_encode(w2).hex(), mont(w2), sums))
            cases.append('{"%s, read, then %s", func(v *Point) { %s; _ = v.Bytes(); _ = v.BytesMontgomery(); _, _, _, _ = v.ExtendedCoordinates(); %s }, "%s", "%s", %s},' % (n1, n2, c1, c2, ref.ed_encode(w2).hex(), mont(w2), sums))
    code = '''package edwards25519
import ("testing"; "encoding/hex"; "filippo.io/edwards25519/field")
func hx(s string) []byte { b, _ := hex.DecodeString(s); return b }
func el(s string) *field.Element { e, _ := new(field.Element).SetBytes(hx(s)); return e }
func pt(s string) *Point { p, err := new(Point).SetBytes(hx(s)); if err != nil { panic(err) }; return p }
func sc(s string) *Scalar { x, err := new(Scalar).SetCanonicalBytes(hx(s)); if err != nil { panic(err) }; return x }
type rh struct { name string; f func(v *Point); enc, mont, plus, minus, mul string }
const aEnc = "%s"
const kHex = "%s"
func TestVerif(t *testing.T) {
 cases := []rh{
%s
 }
 for _, c := range cases {
  v := new(Point)
  c.f(v)
  if got := hex.EncodeToString(v.Bytes()); got != c.enc { t.Fatalf("HIT one receiver, %%s: Bytes = %%s, expected %%s", c.name, got, c.enc) }
  if got := hex.EncodeToString(v.Bytes()); got != c.enc { t.Fatalf("HIT one receiver, %%s: second Bytes = %%s, expected %%s", c.name, got, c.enc) }
  if got := hex.EncodeToString(v.BytesMontgomery()); got != c.mont { t.Fatalf("HIT one receiver, %%s: BytesMontgomery = %%s, expected %%s", c.name, got, c.mont) }
  if v.Equal(pt(c.enc)) != 1 || pt(c.enc).Equal(v) != 1 { t.Fatalf("HIT one receiver, %%s: not Equal to the expected point", c.name) }
  X, Y, Z, T := v.ExtendedCoordinates()
  w, err := new(Point).SetExtendedCoordinates(X, Y, Z, T)
  if err != nil || hex.EncodeToString(w.Bytes()) != c.enc { t.Fatalf("HIT one receiver, %%s: ExtendedCoordinates do not reproduce the point (err=%%v)", c.name, err) }
  u := NewGeneratorPoint()
  if _, err := u.SetExtendedCoordinates(X, Y, Z, T); err != nil || hex.EncodeToString(u.Bytes()) != c.enc { t.Fatalf("HIT %%s exported and imported into a used receiver: wrong point (err=%%v)", c.name, err) }
  // the point as an operand of later arithmetic (second and first position), and as the base of a scalar multiplication
  if got := hex.EncodeToString(new(Point).Add(pt(aEnc), v).Bytes()); got != c.plus { t.Fatalf("HIT one receiver, %%s: A + v = %%s, expected %%s", c.name, got, c.plus) }
  if got := hex.EncodeToString(new(Point).Add(v, pt(aEnc)).Bytes()); got != c.plus { t.Fatalf("HIT one receiver, %%s: v + A = %%s, expected %%s", c.name, got, c.plus) }
  if got := hex.EncodeToString(new(Point).Subtract(pt(aEnc), v).Bytes()); got != c.minus { t.Fatalf("HIT one receiver, %%s: A - v = %%s, expected %%s", c.name, got, c.minus) }
  if got := hex.EncodeToString(new(Point).ScalarMult(sc(kHex), v).Bytes()); got != c.mul { t.Fatalf("HIT one receiver, %%s: [k]v = %%s, expected %%s", c.name, got, c.mul) }
  if got := hex.EncodeToString(new(Point).VarTimeDoubleScalarBaseMult(sc(kHex), v, NewScalar()).Bytes()); got != c.mul { t.Fatalf("HIT one receiver, %%s: VarTimeDoubleScalarBaseMult(k, v, 0) = %%s, expected %%s", c.name, got, c.mul) }
  n := new(Point).Negate(v); n.Negate(n)
  if hex.EncodeToString(n.Bytes()) != c.enc { t.Fatalf("HIT one receiver, %%s: double negation encodes differently", c.name) }
 }
}
''' % (ref.ed_encode(A).hex(), k1.to_bytes(32, "little").hex(), "\n".join(cases))
    rc, out = native.go_test(code)
    if rc != 0:
        hit = [l_ for l_ in out.splitlines() if "HIT " in l_]
        if hit:
            return dict(what=hit[0].split("HIT ", 1)[1][:400], op="receiver history")
        raise RuntimeError("receiver history battery did not run: " + out[-600:])
    return None


def battery_value_history(seed, which="scalar"):
    """hidden per-object state in Scalar / field.Element (flags, memoised encodings): ONE object is the receiver of every
    ordered pair of producers and is then read (Bytes twice, Equal / IsNegative); every reading against the big-integer oracle"""
    rng = random.Random(seed)
    if which == "scalar":
        M = L
        a, b, c = rng.randrange(1, L), rng.randrange(1, L), rng.randrange(1, L)
        wide = rng.randrange(2**512)
        raw = rng.randrange(2**256)
        cl = int.from_bytes(bytes([raw.to_bytes(32, "little")[0] & 248]) + raw.to_bytes(32, "little")[1:31] + bytes([(raw.to_bytes(32, "little")[31] & 63) | 64]), "little")
        h = lambda v, n=32: v.to_bytes(n, "little").hex()
        prods = [
            ("SetCanonicalBytes", 'v.SetCanonicalBytes(hx("%s"))' % h(a), a),
            ("SetUniformBytes", 'v.SetUniformBytes(hx("%s"))' % h(wide, 64), wide % L),
            ("SetBytesWithClamping", 'v.SetBytesWithClamping(hx("%s"))' % h(raw), cl % L),
            ("Add", 'v.Add(sc("%s"), sc("%s"))' % (h(a), h(b)), (a + b) % L),
            ("Multiply", 'v.Multiply(sc("%s"), sc("%s"))' % (h(a), h(b)), a * b % L),
            ("Negate", 'v.Negate(sc("%s"))' % h(c), (-c) % L),
            ("Invert", 'v.Invert(sc("%s"))' % h(c), pow(c, L - 2, L)),
            ("Set", 'v.Set(sc("%s"))' % h(b), b),
            ("MultiplyAdd", 'v.MultiplyAdd(sc("%s"), sc("%s"), sc("%s"))' % (h(a), h(b), h(c)), (a * b + c) % L),
            ("Subtract", 'v.Subtract(sc("%s"), sc("%s"))' % (h(a), h(b)), (a - b) % L),
        ]
        cases = ['{"%s then %s", func(v *Scalar) { %s; %s }, "%s"},' % (n1, n2, c1, c2, h(w2)) for n1, c1, _ in prods for n2, c2, w2 in prods]
        cases += ['{"%s, read, then %s", func(v *Scalar) { %s; _ = v.Bytes(); _ = v.Equal(v); %s }, "%s"},' % (n1, n2, c1, c2, h(w2)) for n1, c1, _ in prods for n2, c2, w2 in prods]
        code = '''package edwards25519
import ("testing"; "encoding/hex")
func hx(s string) []byte { b, _ := hex.DecodeString(s); return b }
func sc(s string) *Scalar { x, err := new(Scalar).SetCanonicalBytes(hx(s)); if err != nil { panic(err) }; return x }
type vh struct { name string; f func(v *Scalar); want string }
func TestVerif(t *testing.T) {
 cases := []vh{
%s
 }
 for _, c := range cases {
  v := NewScalar(); c.f(v)
  if got := hex.EncodeToString(v.Bytes()); got != c.want { t.Fatalf("HIT one Scalar as receiver, %%s: Bytes = %%s, expected %%s", c.name, got, c.want) }
  if got := hex.EncodeToString(v.Bytes()); got != c.want { t.Fatalf("HIT one Scalar as receiver, %%s: second Bytes = %%s, expected %%s", c.name, got, c.want) }
  if v.Equal(sc(c.want)) != 1 || sc(c.want).Equal(v) != 1 { t.Fatalf("HIT one Scalar as receiver, %%s: not Equal to the expected value", c.name) }
  w := new(Scalar).Add(v, NewScalar()); if hex.EncodeToString(w.Bytes()) != c.want { t.Fatalf("HIT one Scalar as receiver, %%s: v + 0 encodes differently", c.name) }
 }
}
''' % "\n".join(cases)
        rc, out = native.go_test(code)
    else:
        P = ref.P
        a, b, c = rng.randrange(1, P), rng.randrange(1, P), rng.randrange(1, P)
        wide = rng.randrange(2**512)
        h = lambda v, n=32: (v % (1 << (8 * n))).to_bytes(n, "little").hex()
        absv = lambda x: x % P if (x % P) % 2 == 0 else (-x) % P
        prods = [
            ("SetBytes", 'v.SetBytes(hx("%s"))' % h(a), a),
            ("SetWideBytes", 'v.SetWideBytes(hx("%s"))' % h(wide, 64), wide % P),
            ("Add", 'v.Add(el("%s"), el("%s"))' % (h(a), h(b)), (a + b) % P),
            ("Subtract", 'v.Subtract(el("%s"), el("%s"))' % (h(a), h(b)), (a - b) % P),
            ("Multiply", 'v.Multiply(el("%s"), el("%s"))' % (h(a), h(b)), a * b % P),
            ("Square", 'v.Square(el("%s"))' % h(c), c * c % P),
            ("Negate", 'v.Negate(el("%s"))' % h(c), (-c) % P),
            ("Invert", 'v.Invert(el("%s"))' % h(c), pow(c, P - 2, P)),
            ("Absolute", 'v.Absolute(el("%s"))' % h(b), absv(b)),
            ("One", "v.One()", 1), ("Zero", "v.Zero()", 0),
            ("Select", 'v.Select(el("%s"), el("%s"), 1)' % (h(a), h(b)), a),
            ("Mult32", 'v.Mult32(el("%s"), 121666)' % h(a), a * 121666 % P),
            ("Set", 'v.Set(el("%s"))' % h(b), b),
        ]
        cases = ['{"%s then %s", func(v *Element) { %s; %s }, "%s", %d},' % (n1, n2, c1, c2, h(w2), w2 & 1) for n1, c1, _ in prods for n2, c2, w2 in prods]
        cases += ['{"%s, read, then %s", func(v *Element) { %s; _ = v.Bytes(); _ = v.IsNegative(); %s }, "%s", %d},' % (n1, n2, c1, c2, h(w2), w2 & 1) for n1, c1, _ in prods for n2, c2, w2 in prods]
        code = '''package field
import ("testing"; "encoding/hex")
func hx(s string) []byte { b, _ := hex.DecodeString(s); return b }
func el(s string) *Element { e, err := new(Element).SetBytes(hx(s)); if err != nil { panic(err) }; return e }
type vh struct { name string; f func(v *Element); want string; neg int }
func TestVerif(t *testing.T) {
 cases := []vh{
%s
 }
 for _, c := range cases {
  v := new(Element); c.f(v)
  if got := hex.EncodeToString(v.Bytes()); got != c.want { t.Fatalf("HIT one Element as receiver, %%s: Bytes = %%s, expected %%s", c.name, got, c.want) }
  if got := hex.EncodeToString(v.Bytes()); got != c.want { t.Fatalf("HIT one Element as receiver, %%s: second Bytes = %%s, expected %%s", c.name, got, c.want) }
  if v.IsNegative() != c.neg { t.Fatalf("HIT one Element as receiver, %%s: IsNegative = %%d", c.name, v.IsNegative()) }
  if v.Equal(el(c.want)) != 1 || el(c.want).Equal(v) != 1 { t.Fatalf("HIT one Element as receiver, %%s: not Equal to the expected value", c.name) }
  w := new(Element).Add(v, new(Element).Zero()); if hex.EncodeToString(w.Bytes()) != c.want { t.Fatalf("HIT one Element as receiver, %%s: v + 0 encodes differently", c.name) }
 }
}
''' % "\n".join(cases)
        rc, out = native.go_test(code, pkg="field")
    if rc != 0:
        hit = [l_ for l_ in out.splitlines() if "HIT " in l_]
        if hit:
            return dict(what=hit[0].split("HIT ", 1)[1][:400], op="value history (%s)" % which)
        raise RuntimeError("value history battery did not run: " + out[-600:])
    return None


def battery_history_after_panic(seed):
    """'identical output no matter what was computed before' where the earlier call *panicked* (documented misuse, recovered
    by the caller) or failed: in one process, a multi-scalar call with an uninitialized point at a late index / mismatched
    lengths, then ordinary calls of several sizes; every ordinary result is compared with the stateless oracle"""
    rng = random.Random(seed)
    pts = bank(rng, 6)
    ops, meta = [], []

    def normal(op, n):
        ks = [rng.choice([1, 2, rng.randrange(L)]) for _ in range(n)]
        qs = [pts[rng.randrange(len(pts))] for _ in range(n)]
        want = (0, 1)
        init = {"v": "pt:zero"}
        for j, (k_, q) in enumerate(zip(ks, qs)):
            want = ref.ed_add(want, ref.ed_mul(k_, q))
            init["k%d" % j] = scalar_words(k_)
            init["q%d" % j] = mk_point(q, rng)
        ops.append({"op": op, "args": ["v", "|".join("k%d" % j for j in range(n)), "|".join("q%d" % j for j in range(n))], "init": init})
        meta.append((op, n, want))

    def misuse(op, n, bad, short=False):
        init = {"v": "pt:zero"}
        for j in range(n):
            init["k%d" % j] = scalar_words(rng.randrange(1, L))
            init["q%d" % j] = "pt:zero" if j == bad else mk_point(pts[rng.randrange(len(pts))], rng)
        ops.append({"op": op, "args": ["v", "|".join("k%d" % j for j in range(n)), "|".join("q%d" % j for j in range(n - 1 if short else n))], "init": init})
        meta.append((op, n, None))
    for op in ("P.VarTimeMultiScalarMult", "P.MultiScalarMult"):
        for n, bad in ((3, 1), (3, 2), (5, 4), (9, 8), (12, 6)):
            misuse(op, n, bad)
            for m in (1, 2, n, 1):
                normal(op, m)
        misuse(op, 4, -1, short=True)
        normal(op, 1)
        normal(op, 3)
    res = native.run_ops("", ops)
    for (op, n, want), o, r in zip(meta, ops, res):
        if want is None:
            continue
        if "panic" in r:
            return dict(what="%s with %d valid terms panics after an earlier (recovered) misuse panic: %s" % (op, n, r["panic"]), op=op, args=o["args"], init=o["init"])
        got = affine_of(r["slots"]["v"])
        if got != want:
            return dict(what="%s with %d terms after an earlier call that panicked (uninitialized point at a late index, recovered): result %s, expected %s (the result depends on the earlier, aborted call)" % (op, n, got, want),
                        op=op, args=o["args"], init=o["init"])
    return None


def battery_decode_history(seed):
    """'identical output no matter what was computed before' for the byte-string setters (decoders are where memo tables
    and retained caller buffers live): in ONE process, sequences of decodes of *related* strings - the same caller buffer
    overwritten in place between calls, and fresh buffers - where the second string is the first with two 64-bit words
    swapped / rotated, the same bit flipped in two words, or only its first / middle / last byte changed (collisions of cheap
    fingerprints and prefix keys); every result is compared with the stateless oracle (RFC 8032 decoding, value mod l)"""
    rng = random.Random(seed)
    encs = [ref.ed_encode(q) for q in bank(rng, 6)][:10]

    def variants(c):
        w = [c[8 * i:8 * i + 8] for i in range(4)]
        out = [w[1] + w[0] + w[2] + w[3], w[0] + w[1] + w[3] + w[2], w[3] + w[1] + w[2] + w[0], w[1] + w[2] + w[3] + w[0]]
        for (i, j, bit) in ((0, 1, 3), (2, 3, 60), (0, 3, 17)):
            b = bytearray(c)
            b[8 * i + bit // 8] ^= 1 << (bit % 8)
            b[8 * j + bit // 8] ^= 1 << (bit % 8)
            out.append(bytes(b))
        for pos in (0, 15, 31):
            b = bytearray(c)
            b[pos] ^= 0x04
            out.append(bytes(b))
        return [v for v in out if v != c]
    lines = []
    for c1 in encs:
        for c2 in variants(c1)[: 10]:
            for reuse in (1, 0):
                exp = []
                for c in (c1, c2, c1):
                    pt = ref.ed_decode(c)
                    exp.append("" if pt is None else ref.ed_encode(pt).hex())
                lines.append('{"%s", "%s", %d, [3]string{"%s", "%s", "%s"}},' % (c1.hex(), c2.hex(), reuse, exp[0], exp[1], exp[2]))
    code = '''package edwards25519
import ("testing"; "encoding/hex"; "bytes"; "math/big")
type dh struct { c1, c2 string; reuse int; want [3]string }
func TestVerif(t *testing.T) {
 cases := []dh{
%s
 }
 l, _ := new(big.Int).SetString("7237005577332262213973186563042994240857116359379907606001950938285454250989", 10)
 for _, c := range cases {
  b1, _ := hex.DecodeString(c.c1); b2, _ := hex.DecodeString(c.c2)
  buf := make([]byte, 32)
  seq := [][]byte{b1, b2, b1}
  for i, cur := range seq {
   var in []byte
   if c.reuse == 1 { copy(buf, cur); in = buf } else { in = append([]byte{}, cur...) }
   p, err := new(Point).SetBytes(in)
   if c.want[i] == "" {
    if err == nil { t.Fatalf("HIT Point.SetBytes(%%x) accepted in the sequence %%s,%%s,%%s (same buffer: %%d), expected an error", cur, c.c1, c.c2, c.c1, c.reuse) }
   } else {
    if err != nil || hex.EncodeToString(p.Bytes()) != c.want[i] { t.Fatalf("HIT Point.SetBytes(%%x) in the sequence %%s,%%s,%%s (same buffer: %%d): got err=%%v enc=%%x, expected %%s", cur, c.c1, c.c2, c.c1, c.reuse, err, func() []byte { if p == nil { return nil }; return p.Bytes() }(), c.want[i]) }
   }
   if !bytes.Equal(in, cur) { t.Fatalf("HIT Point.SetBytes modified its input") }
   // scalar setters on the same strings (SetCanonicalBytes only for canonical values)
   v := new(big.Int).SetBytes(rev(cur))
   // an earlier result that the caller went on to modify must not influence a later call on the same bytes
   cl1, _ := new(Scalar).SetBytesWithClamping(in); keep := append([]byte{}, cl1.Bytes()...); cl1.Add(cl1, cl1); cl1.Multiply(cl1, cl1)
   cl2, _ := new(Scalar).SetBytesWithClamping(append([]byte{}, in...))
   if !bytes.Equal(cl2.Bytes(), keep) { t.Fatalf("HIT Scalar.SetBytesWithClamping(%%x) called again after the first result was modified by its owner: %%x, first time %%x", cur, cl2.Bytes(), keep) }
   if p != nil && err == nil { pk := append([]byte{}, p.Bytes()...); p.Add(p, p); p2, e2 := new(Point).SetBytes(append([]byte{}, cur...)); if e2 != nil || !bytes.Equal(p2.Bytes(), pk) { t.Fatalf("HIT Point.SetBytes(%%x) called again after the first result was modified by its owner", cur) } }
   s, err2 := new(Scalar).SetCanonicalBytes(in)
   if (v.Cmp(l) < 0) != (err2 == nil) { t.Fatalf("HIT Scalar.SetCanonicalBytes(%%x) err=%%v in a sequence of related inputs (same buffer: %%d)", cur, err2, c.reuse) }
   if err2 == nil && !bytes.Equal(s.Bytes(), cur) { t.Fatalf("HIT Scalar.SetCanonicalBytes(%%x) = %%x in a sequence of related inputs (same buffer: %%d)", cur, s.Bytes(), c.reuse) }
   wide := make([]byte, 64); copy(wide, in); copy(wide[32:], in)
   sw0, _ := new(Scalar).SetUniformBytes(wide); sw0.Add(sw0, sw0)
   sw, _ := new(Scalar).SetUniformBytes(wide)
   vw := new(big.Int).SetBytes(rev(wide)); vw.Mod(vw, l)
   if new(big.Int).SetBytes(rev(sw.Bytes())).Cmp(vw) != 0 { t.Fatalf("HIT Scalar.SetUniformBytes(%%x) wrong in a sequence of related inputs", wide) }
  }
 }
}
func rev(b []byte) []byte { r := make([]byte, len(b)); for i := range b { r[len(b)-1-i] = b[i] }; return r }
''' % "\n".join(lines)
    rc, out = native.go_test(code)
    if rc != 0:
        hit = [l_ for l_ in out.splitlines() if "HIT " in l_]
        if hit:
            return dict(what=hit[0].split("HIT ", 1)[1][:400], op="decode history")
        raise RuntimeError("decode history battery did not run: " + out[-400:])
    return None


def battery_history_variants(seed):
    """'identical output no matter what was computed before', aimed at value-keyed caches: consecutive calls in one process
    whose point arguments are related - the same raw (X, Y) limbs with (Z, T) negated (a different valid point, P + (0,-1)),
    a rescaled representation of the same point, the same point again - each checked against the stateless oracle"""
    rng = random.Random(seed)
    pts = [q for q in bank(rng, 6) if q[0] * q[1] % P != 0][:4]
    ops, meta = [], []

    def raw(aff, z, flip=False):
        x, y = aff
        X, Y, Z, T = x * z % P, y * z % P, z % P, x * y * z % P
        if flip:
            Z, T = (-Z) % P, (-T) % P
        return fmt_pt([ref.limbs_of(c) for c in (X, Y, Z, T)])
    for p in pts:
        z = rng.randrange(2, P)
        pflip = ((-p[0]) % P, (-p[1]) % P)          # the point that (X:Y:-Z:-T) represents
        q = pts[(pts.index(p) + 1) % len(pts)]
        for ks in ((3, 5), (rng.randrange(L) | 1, rng.randrange(L)), (1, 0)):
            seqs = [(raw(p, z), p), (raw(p, z, True), pflip), (raw(p, z), p), (raw(p, 2 * z % P), p), (raw(p, z, True), pflip)]
            for rp, aff in seqs:
                k0, k1 = ks
                init = {"v": "pt:zero", "k0": scalar_words(k0), "k1": scalar_words(k1), "p": rp, "q": raw(q, 1)}
                ops.append({"op": "P.VarTimeMultiScalarMult", "args": ["v", "k0|k1", "p|q"], "init": init})
                meta.append(ref.ed_add(ref.ed_mul(k0, aff), ref.ed_mul(k1, q)))
                ops.append({"op": "P.VarTimeDoubleScalarBaseMult", "args": ["v", "k0", "p", "k1"], "init": init})
                meta.append(ref.ed_add(ref.ed_mul(k0, aff), ref.ed_mul(k1, ref.BASE)))
                ops.append({"op": "P.MultiScalarMult", "args": ["v", "k0|k1", "p|q"], "init": init})
                meta.append(ref.ed_add(ref.ed_mul(k0, aff), ref.ed_mul(k1, q)))
                ops.append({"op": "P.ScalarMult", "args": ["v", "k0", "p"], "init": init})
                meta.append(ref.ed_mul(k0, aff))
                ops.append({"op": "P.Add", "args": ["v", "p", "q"], "init": init})
                meta.append(ref.ed_add(aff, q))
    res = native.run_ops("", ops)
    for i, (o, want, r) in enumerate(zip(ops, meta, res)):
        if "panic" in r:
            return dict(what="%s panics in a call sequence: %s" % (o["op"], r["panic"]), op=o["op"], args=o["args"], init=o["init"], position_in_sequence=i)
        got = affine_of(r["slots"][o["args"][0]])
        if got != want:
            return dict(what="%s gives %s, expected %s, as call #%d of a sequence on related representations (same raw X,Y with Z,T negated / rescaled): the result depends on earlier calls" % (o["op"], got, want, i),
                        op=o["op"], args=o["args"], init=o["init"], position_in_sequence=i, sequence=[x["op"] for x in ops[max(0, i - 6):i + 1]])
    return None


def montgomery_sqrt_structured(seed=1, limit=300):
    """raw Montgomery limb values a (< l) whose SQUARE a*a - the 512-bit integer a hand-written squaring routine accumulates -
    has words drawn from {0, r, all-ones}: a = isqrt(T) for such T with all-ones low words (so that a*a keeps T's upper
    words).  Carries that ripple through an all-ones word of the product are what word-by-word reductions get wrong."""
    import math
    rng = random.Random(seed)
    ones = 2**64 - 1
    out = []
    for _ in range(limit * 3):
        hi = [rng.choice([0, ones, rng.randrange(2**64), ones, rng.randrange(2**64)]) for _ in range(4)]   # words 4..7
        hi[3] = rng.randrange(1, 2**57)
        nlow = rng.choice([4, 4, 5, 6])
        words = [ones] * 4 + hi
        for i in range(4, nlow):
            words[i] = ones
        T = sum(w << (64 * i) for i, w in enumerate(words))
        a = math.isqrt(T)
        if 0 < a < L:
            out.append(a)
        if len(out) >= limit:
            break
    return out
