"""Int-LF domain: machine integers as integer linear forms over atoms with explicit
wrap (see DESIGN.md 3.1 / B.1).

An LF is  const + sum coeff[a]*a  over atoms.  Atom kinds:
  in   input symbol with bounds
  mon  monomial atom M(a,b) standing for a*b (relaxed to its interval)
  q,r  quotient / remainder of a division of a form by a power of two
  e    exact quotient (all coefficients divisible)
Soundness: monomial atoms relax a*b to an interval, q/r atoms are constrained
exactly, so `unsat` of a negated goal is sound; `sat` may be spurious (replay).
"""
import time
import z3
from .exec import ExecError, ForkRequest, wrap


class Unsupported(ExecError):
    pass


class LF:
    __slots__ = ("t", "c")

    def __init__(self, t=None, c=0):
        self.t = t or {}
        self.c = c

    @staticmethod
    def of(x):
        if isinstance(x, LF):
            return x
        if isinstance(x, bool):
            return LF({}, 1 if x else 0)
        if type(x) is int:
            return LF({}, x)
        raise ExecError("LF.of(%r)" % (x,))

    def is_const(self):
        return not self.t

    def __add__(self, o):
        o = LF.of(o)
        t = dict(self.t)
        for a, k in o.t.items():
            v = t.get(a, 0) + k
            if v:
                t[a] = v
            else:
                t.pop(a, None)
        return LF(t, self.c + o.c)

    __radd__ = __add__

    def __neg__(self):
        return LF({a: -k for a, k in self.t.items()}, -self.c)

    def __sub__(self, o):
        return self + (-LF.of(o))

    def __rsub__(self, o):
        return LF.of(o) + (-self)

    def scale(self, k):
        if k == 0:
            return LF()
        return LF({a: v * k for a, v in self.t.items()}, self.c * k)

    def key(self):
        return (tuple(sorted(self.t.items())), self.c)

    def __repr__(self):
        return "LF(%s%s)" % (self.c, "".join(" %+d*a%d" % (k, a) for a, k in sorted(self.t.items())))


class LFCond:
    """condition  F op 0  with op in ('<=', '==', '!=') ; or a boolean combination"""
    __slots__ = ("op", "f", "args")

    def __init__(self, op, f=None, args=None):
        self.op, self.f, self.args = op, f, args


class LFDomain:
    def __init__(self, timeout_ms=60000):
        self.ex = None
        self.atoms = []   # id -> dict(kind,name,lo,hi, ...)
        self.mons = {}    # (a,b) -> atom id
        self.timeout_ms = timeout_ms
        self.queries = []  # (name, verdict, seconds)
        self.exact_fired = 0
        self.global_memo = {}
        self.trust_stage0 = True
        self.feas_relevant_only = False
        self._cat_cache = {}
        self.share_memo = False   # share divmod atoms across paths (only for fork-free kernels)
        self.feas_timeout_ms = 4000
        self.lemmas = []  # extra LFConds assumed in every query (justified by the harness)
        self.strip_multiples = True
        self.qq_rule = False      # quotient-of-quotient canonicalisation (enabled by byte/bit-slicing kernels)

    # ------------------------------------------------------------ atoms
    def new_atom(self, kind, lo, hi, name=None, **kw):
        i = len(self.atoms)
        d = dict(kind=kind, lo=lo, hi=hi, name=name or "%s%d" % (kind, i))
        d.update(kw)
        self.atoms.append(d)
        return i

    def input(self, name, lo, hi):
        return LF({self.new_atom("in", lo, hi, name): 1})

    def bnd(self, path, a):
        if path is not None:
            ov = path.dstate.get("lfb")
            if ov and a in ov:
                return ov[a]
        d = self.atoms[a]
        return d["lo"], d["hi"]

    def rng(self, path, f):
        lo = hi = f.c
        for a, k in f.t.items():
            l, h = self.bnd(path, a)
            if k > 0:
                lo += k * l
                hi += k * h
            else:
                lo += k * h
                hi += k * l
        return lo, hi

    def simp(self, path, f):
        """substitute atoms whose (path-refined) bounds are a single point"""
        if type(f) is int:
            return f
        t = None
        c = f.c
        for a, k in f.t.items():
            l, h = self.bnd(path, a)
            if l == h:
                if t is None:
                    t = dict(f.t)
                del t[a]
                c += k * l
        if t is None:
            return f if f.t else f.c
        if not t:
            return c
        return LF(t, c)

    def out(self, path, f):
        """normalise result: fold to Python int when constant"""
        f = self.simp(path, f)
        if type(f) is int:
            return f
        if not f.t:
            return f.c
        return f

    def expand(self, f):
        """replace remainder / exact atoms by their definitions (recursively)"""
        f = LF.of(f)
        todo = [a for a in f.t if self.atoms[a]["kind"] in ("r", "e")]
        if not todo:
            return f
        res = LF({}, f.c)
        for a, k in f.t.items():
            d = self.atoms[a]
            if d["kind"] == "r":
                # r = F - m*q
                res = res + (self.expand(d["form"]) - LF({d["q"]: d["m"]})).scale(k)
            elif d["kind"] == "e":
                res = res + self.expand(d["form"]).scale(k)  # form already divided
            else:
                res = res + LF({a: k})
        return res

    # ------------------------------------------------------------ arithmetic
    def mul(self, path, x, y):
        x, y = LF.of(x), LF.of(y)
        if x.is_const():
            return y.scale(x.c)
        if y.is_const():
            return x.scale(y.c)
        res = LF({}, x.c * y.c)
        for a, k in x.t.items():
            res = res + LF({a: k * y.c})
        for b, k in y.t.items():
            res = res + LF({b: k * x.c})
        for a, ka in x.t.items():
            for b, kb in y.t.items():
                res = res + LF({self.mon(path, a, b): ka * kb})
        return res

    def mon(self, path, a, b):
        key = (a, b) if a <= b else (b, a)
        m = self.mons.get(key)
        if m is None:
            la, ha = self.atoms[key[0]]["lo"], self.atoms[key[0]]["hi"]
            lb, hb = self.atoms[key[1]]["lo"], self.atoms[key[1]]["hi"]
            cs = [la * lb, la * hb, ha * lb, ha * hb]
            m = self.new_atom("mon", min(cs), max(cs), "M(%s,%s)" % (self.atoms[key[0]]["name"], self.atoms[key[1]]["name"]), a=key[0], b=key[1])
            self.mons[key] = m
        return m

    def divmod(self, path, f, m):
        """floor division of form f by m (power of two or any positive int): returns (q, r) forms"""
        f = LF.of(self.simp(path, LF.of(f)))
        if f.is_const():
            return LF({}, f.c // m), LF({}, f.c % m)
        lo, hi = self.rng(path, f)
        if 0 <= lo and hi < m:
            return LF(), f
        ef = self.expand(f)
        memo = path.dstate.setdefault("lf_memo", {}) if (path is not None and not self.share_memo) else self.global_memo
        key = (ef.key(), m)
        if key in memo:
            return memo[key]
        if lo // m == hi // m:
            # quotient is a known constant
            qc = lo // m
            res = (LF({}, qc), f - LF({}, qc * m))
            memo[key] = res
            return res
        if ef.c % m == 0 and all(k % m == 0 for k in ef.t.values()):
            self.exact_fired += 1
            qf = LF({a: k // m for a, k in ef.t.items()}, ef.c // m)
            ea = self.new_atom("e", -((-lo) // m), hi // m, m=m, form=qf)
            res = (LF({ea: 1}), LF())
            memo[key] = res
            return res
        if self.qq_rule and len(ef.t) == 1 and ef.c == 0:
            # floor(floor(F/m1)/m) = floor(F/(m1*m)) for slices of one machine word: successive shifts / bit-field
            # extractions of a word share their atoms (and their weighted sums telescope)
            (a0, k0), = ef.t.items()
            d0 = self.atoms[a0]
            if k0 == 1 and d0["kind"] == "q" and d0["m"] > 0 and d0["m"] * m <= (1 << 64):
                flo, fhi = self.rng(path, LF.of(d0["form"]))
                if 0 <= flo and fhi < (1 << 64):
                    Q, _ = self.divmod(path, d0["form"], d0["m"] * m)
                    res = (Q, LF({a0: 1}) - Q.scale(m))
                    memo[key] = res
                    return res
        if self.strip_multiples:
            # canonical form: f = m*h + f0 with h collecting the terms whose coefficient is a multiple of m (carries /
            # borrows of earlier word operations) => f div m = h + (f0 div m), f mod m = f0 mod m.  The remainder and
            # quotient atoms are then those of the flattened sum f0, whatever the order in which the words were
            # accumulated; the quotient keeps the tight interval of f through an exact atom defined as h + q0.
            ht = {a: k // m for a, k in ef.t.items() if k % m == 0}
            if ht:
                f0 = LF({a: k for a, k in ef.t.items() if k % m != 0}, ef.c % m)
                h = LF(ht, ef.c // m)
                q0, r0 = self.divmod(path, f0, m)
                qe = self.new_atom("e", lo // m, hi // m, m=1, form=h + q0)
                res = (LF({qe: 1}), r0)
                memo[key] = res
                return res
        qa = self.new_atom("q", lo // m, hi // m, m=m)
        ra = self.new_atom("r", 0, m - 1, m=m, q=qa, form=f)
        self.atoms[qa]["r"] = ra
        self.atoms[qa]["form"] = f
        res = (LF({qa: 1}), LF({ra: 1}))
        memo[key] = res
        return res

    def wrapw(self, path, f, w, signed):
        f = LF.of(f)
        lo, hi = self.rng(path, f)
        if signed:
            h = 1 << (w - 1)
            if -h <= lo and hi < h:
                return f
            if hi - lo == 1 and not f.is_const():
                self.fork2(path, f, lo)
            q, r = self.divmod(path, f + h, 1 << w)
            return r - h
        if 0 <= lo and hi < (1 << w):
            return f
        if hi - lo == 1 and not f.is_const():
            self.fork2(path, f, lo)
        q, r = self.divmod(path, f, 1 << w)
        return r

    def fork2(self, path, f, lo):
        """f takes exactly two values lo, lo+1: fork on f == lo, refining a single atom if possible"""
        f = LF.of(self.simp(path, f))
        cond = LFCond("==", f - lo)
        refine = None
        if len(f.t) == 1:
            (a, k), = f.t.items()
            l, h = self.bnd(path, a)
            if h - l == 1:
                v_true = (lo - f.c)
                if v_true % k == 0 and (v_true // k) in (l, h):
                    vt = v_true // k
                    vf = h if vt == l else l

                    def refine(p, branch, a=a, vt=vt, vf=vf):
                        p.dstate.setdefault("lfb", {})[a] = (vt, vt) if branch else (vf, vf)
        raise ForkRequest(cond, refine)

    # ------------------------------------------------------------ domain interface
    def binop(self, path, op, x, y, ty, xty, yty):
        w, s = ty.int_info()
        x = self.simp(path, x) if isinstance(x, LF) else x
        y = self.simp(path, y) if isinstance(y, LF) else y
        if type(x) is int and type(y) is int:
            return self.ex.binop(path, op, x, y, ty, xty, yty)
        if op == "+":
            return self.out(path, self.wrapw(path, LF.of(x) + y, w, s))
        if op == "-":
            return self.out(path, self.wrapw(path, LF.of(x) - y, w, s))
        if op == "*":
            # 0/1 value times all-ones mask: fork on the bit first
            for u, v in ((x, y), (y, x)):
                if type(v) is int and not type(u) is int:
                    lo, hi = self.rng(path, u)
                    if hi - lo == 1 and not s and (lo * v < 0 or hi * v >= (1 << w) or v == (1 << w) - 1):
                        self.fork2(path, u, lo)
            return self.out(path, self.wrapw(path, self.mul(path, x, y), w, s))
        if op == "<<":
            if type(y) is not int:
                raise Unsupported("symbolic shift count")
            if y >= w:
                return 0
            return self.out(path, self.wrapw(path, LF.of(x).scale(1 << y), w, s))
        if op == ">>":
            if type(y) is not int:
                raise Unsupported("symbolic shift count")
            q, r = self.divmod(path, x, 1 << min(y, 200))
            return self.out(path, q)
        if op == "&":
            if type(x) is int:
                x, y = y, x
            if type(y) is int:
                return self.out(path, self.and_const(path, x, y, w, s))
            xlo, xhi = self.rng(path, LF.of(x))
            ylo, yhi = self.rng(path, LF.of(y))
            if xlo >= 0 and ylo >= 0:
                return self.out(path, self.bitop_atom(path, "and", x, y, 0, min(xhi, yhi)))
            raise Unsupported("& of two symbolic values")
        if op == "|":
            return self.out(path, self.or_(path, x, y, w))
        if op == "&^":
            if type(y) is int:
                return self.out(path, self.and_const(path, x, ((1 << w) - 1) & ~y, w, s))
            raise Unsupported("&^ symbolic")
        if op == "^":
            if type(x) is int and x == 0:
                return self.out(path, LF.of(y))
            if type(y) is int and y == 0:
                return self.out(path, LF.of(x))
            kx, ky = self.expand(LF.of(x)).key(), self.expand(LF.of(y)).key()
            if kx == ky:
                return 0
            # u ^ (u ^ t) = t  (the xor-select / xor-swap idiom  b ^ (m & (a ^ b))  after the fork on the mask m)
            for u, ku, v in ((x, kx, y), (y, ky, x)):
                vf = LF.of(v)
                if len(vf.t) == 1 and vf.c == 0:
                    (a, k), = vf.t.items()
                    d = self.atoms[a]
                    if k == 1 and d["kind"] == "bit" and d.get("bk") == "xor":
                        if self.expand(d["x"]).key() == ku:
                            return self.out(path, d["y"])
                        if self.expand(d["y"]).key() == ku:
                            return self.out(path, d["x"])
            xlo, xhi = self.rng(path, LF.of(x))
            ylo, yhi = self.rng(path, LF.of(y))
            if xlo >= 0 and ylo >= 0:
                return self.out(path, self.bitop_atom(path, "xor", x, y, 0, min(xhi + yhi, (1 << w) - 1)))
        raise Unsupported("LF binop %s" % op)

    def and_const(self, path, x, c, w, s):
        x = LF.of(x)
        if c < 0:
            c &= (1 << w) - 1
        if c == 0:
            return LF()
        lo, hi = self.rng(path, x)
        if not s and lo >= 0 and c == (1 << w) - 1:
            return x
        # decompose c into runs of ones [a,b)
        res = LF()
        i = 0
        while i < w:
            if (c >> i) & 1:
                j = i
                while j < w and (c >> j) & 1:
                    j += 1
                # bits i..j-1 of x
                if j == w and lo >= 0 and hi < (1 << w) and not s:
                    # top run: x - (x mod 2^i)
                    q, r = self.divmod(path, x, 1 << i)
                    res = res + (x - r)
                else:
                    q1, r1 = self.divmod(path, x, 1 << j)   # r1 = x mod 2^j
                    if i == 0:
                        res = res + r1
                    else:
                        q0, r0 = self.divmod(path, x, 1 << i)
                        res = res + (r1 - r0)
                i = j
            else:
                i += 1
        return res

    def or_(self, path, x, y, w):
        if type(x) is int and x == 0:
            return LF.of(y)
        if type(y) is int and y == 0:
            return LF.of(x)
        x, y = LF.of(x), LF.of(y)
        for u, v in ((x, y), (y, x)):
            # u multiple of 2^k (syntactically, after expansion), 0 <= v < 2^k
            lo, hi = self.rng(path, v)
            if lo < 0:
                continue
            k = max(hi, 0).bit_length()
            eu = self.expand(u)
            m = 1 << k
            if eu.c % m == 0 and all(c % m == 0 for c in eu.t.values()):
                ulo, uhi = self.rng(path, u)
                if ulo >= 0:
                    return u + v
        # x | c = x + c - (x & c) for a constant c
        for u, v in ((x, y), (y, x)):
            if v.is_const() and v.c >= 0:
                ulo, uhi = self.rng(path, u)
                if ulo >= 0 and uhi < (1 << w):
                    return u + v.c - self.and_const(path, u, v.c, w, False)
        # general case: a fresh atom z = x|y relaxed to  max(x,y) <= z <= x+y  (sound for non-negative operands)
        xlo, xhi = self.rng(path, x)
        ylo, yhi = self.rng(path, y)
        if xlo >= 0 and ylo >= 0:
            return self.bitop_atom(path, "or", x, y, max(xlo, ylo), min(xhi + yhi, (1 << w) - 1))
        raise Unsupported("| with overlapping operands")

    def bitop_atom(self, path, kind, x, y, lo, hi):
        memo = path.dstate.setdefault("lf_memo", {}) if (path is not None and not self.share_memo) else self.global_memo
        key = ("bitop", kind, frozenset([self.expand(x).key(), self.expand(y).key()]))
        if key in memo:
            return memo[key]
        a = self.new_atom("bit", lo, hi, bk=kind, x=LF.of(x), y=LF.of(y))
        r = LF({a: 1})
        memo[key] = r
        return r

    def unop(self, path, u, x, ty):
        w, s = ty.int_info()
        x = LF.of(x)
        if u == "-":
            return self.out(path, self.wrapw(path, -x, w, s))
        if u == "^":
            if s:
                return self.out(path, -x - 1)
            return self.out(path, self.wrapw(path, LF({}, (1 << w) - 1) - x, w, s))
        raise Unsupported("unop " + u)

    def convert(self, path, x, ft, tt):
        tw, ts = tt.int_info()
        return self.out(path, self.wrapw(path, x, tw, ts))

    def cmp(self, path, op, x, y, ty):
        if ty.is_bool():
            raise Unsupported("bool compare in LF")
        d = LF.of(x) - LF.of(y)
        d = LF.of(self.simp(path, d))
        if op == "==":
            c = LFCond("==", d)
        elif op == "!=":
            c = LFCond("!=", d)
        elif op == "<=":
            c = LFCond("<=", d)
        elif op == "<":
            c = LFCond("<=", d + 1)
        elif op == ">=":
            c = LFCond("<=", -d)
        else:
            c = LFCond("<=", -d + 1)
        t = self.truth(path, c)
        return c if t is None else t

    def truth(self, path, c):
        if isinstance(c, bool):
            return c
        if c.op in ("and", "or", "not"):
            return None
        lo, hi = self.rng(path, c.f)
        if c.op == "<=":
            if hi <= 0:
                return True
            if lo > 0:
                return False
        elif c.op == "==":
            if lo == hi == 0:
                return True
            if lo > 0 or hi < 0:
                return False
        elif c.op == "!=":
            if lo == hi == 0:
                return False
            if lo > 0 or hi < 0:
                return True
        return None

    def not_(self, c):
        if c.op == "<=":
            return LFCond("<=", -c.f + 1)
        if c.op == "==":
            return LFCond("!=", c.f)
        if c.op == "!=":
            return LFCond("==", c.f)
        return LFCond("not", args=[c])

    def and_(self, a, b):
        return LFCond("and", args=[a, b])

    def ite(self, path, c, a, b, ty):
        raise Unsupported("ite in LF (fork instead)")

    def add64(self, path, x, y, c):
        q, r = self.divmod(path, LF.of(x) + y + c, 1 << 64)
        return (self.out(path, r), self.out(path, q))

    def sub64(self, path, x, y, b):
        q, r = self.divmod(path, LF.of(x) - y - b, 1 << 64)
        return (self.out(path, r), self.out(path, -q))

    def mul64(self, path, x, y):
        q, r = self.divmod(path, self.mul(path, x, y), 1 << 64)
        return (self.out(path, q), self.out(path, r))

    def assume(self, path, c, orig, branch):
        pass

    def or_conds(self, pa, pb):
        def conj(cs):
            cs = [c for c in cs if c is not True]
            if not cs:
                return True
            return cs[0] if len(cs) == 1 else LFCond("and", args=list(cs))
        a, b = conj(pa), conj(pb)
        if a is True or b is True:
            return True
        if isinstance(a, LFCond) and isinstance(b, LFCond) and self.cond_key(self.not_(a)) == self.cond_key(b):
            return True     # exhaustive case split
        return LFCond("or", args=[a, b])

    def same_under(self, path_with_pc, a, b):
        """is a == b on the given path (its path condition)?"""
        d = LF.of(a) - LF.of(b)
        d = LF.of(self.simp(path_with_pc, d))
        if not d.t and d.c == 0:
            return True
        ed = self.expand(d)
        if not ed.t and ed.c == 0:
            return True
        return self.check(path_with_pc, [LFCond("!=", d)], "merge", timeout_ms=10000, relevant_only=True) == "unsat"

    def merge_value(self, ex, A, B, npc, a, b):
        from .exec import INDET
        if hasattr(a, "opaque_merge"):
            return a.opaque_merge(self, ex, A, B, a, b)
        if hasattr(b, "opaque_merge"):
            return b.opaque_merge(self, ex, A, B, a, b)
        if isinstance(a, (int, LF)) and isinstance(b, (int, LF)) and not isinstance(a, bool) and not isinstance(b, bool):
            if self.same_under(B, a, b):
                return a
            if self.same_under(A, a, b):
                return b
        return INDET

    def cond_key(self, c):
        if c.f is not None:
            return (c.op, c.f.key())
        return (c.op, tuple(self.cond_key(a) if isinstance(a, LFCond) else a for a in (c.args or [])))

    def feasible(self, path, conds):
        r = self.check(path, conds[len(path.pc):] if conds[:len(path.pc)] == path.pc else conds, "feasibility", timeout_ms=self.feas_timeout_ms, relevant_only=self.feas_relevant_only)
        return r != "unsat"

    # ------------------------------------------------------------ solver
    def z3form(self, f, zv):
        f = LF.of(f)
        terms = [z3.IntVal(f.c)] if f.c or not f.t else []
        for a, k in f.t.items():
            terms.append(zv(a) * k if k != 1 else zv(a))
        return z3.Sum(terms) if len(terms) > 1 else terms[0]

    def z3cond(self, c, zv):
        if isinstance(c, bool):
            return z3.BoolVal(c)
        if c.op == "<=":
            return self.z3form(self.expand(c.f), zv) <= 0
        if c.op == "==":
            return self.z3form(self.expand(c.f), zv) == 0
        if c.op == "!=":
            return self.z3form(self.expand(c.f), zv) != 0
        if c.op == "modne":   # f mod n != 0
            return self.z3form(self.expand(c.f), zv) % c.args[0] != 0
        if c.op == "modeq":   # f mod n == 0
            return self.z3form(self.expand(c.f), zv) % c.args[0] == 0
        if c.op == "and":
            return z3.And([self.z3cond(a, zv) for a in c.args])
        if c.op == "or":
            return z3.Or([self.z3cond(a, zv) for a in c.args])
        if c.op == "not":
            return z3.Not(self.z3cond(c.args[0], zv))
        raise ExecError("cond " + c.op)

    def _catoms(self, c):
        """atoms of a condition (cached on the object)"""
        if isinstance(c, bool):
            return frozenset()
        ca = self._cat_cache.get(id(c))
        if ca is None or ca[0] is not c:
            s_ = set()
            self.cond_atoms(c, s_)
            ca = (c, frozenset(s_))
            self._cat_cache[id(c)] = ca
        return ca[1]

    def cond_atoms(self, c, acc):
        if isinstance(c, bool):
            return
        if c.f is not None:
            for a in self.expand(c.f).t:
                acc.add(a)
        for a in (c.args or []):
            if isinstance(a, LFCond):
                self.cond_atoms(a, acc)

    def closure(self, atoms):
        """atoms plus everything their definitions mention (q atoms pull in their dividend forms)"""
        seen = set()
        work = list(atoms)
        while work:
            a = work.pop()
            if a in seen:
                continue
            seen.add(a)
            d = self.atoms[a]
            if d["kind"] == "q":
                for b in self.expand(d["form"]).t:
                    work.append(b)
            elif d["kind"] == "mon":
                work.append(d["a"])
                work.append(d["b"])
            elif d["kind"] == "bit":
                for b in self.expand(d["x"]).t:
                    work.append(b)
                for b in self.expand(d["y"]).t:
                    work.append(b)
            elif d["kind"] in ("r", "e"):
                for b in self.expand(LF({a: 1})).t:
                    work.append(b)
        return seen

    def check(self, path, conds, name="", timeout_ms=None, want_model=False, relevant_only=False):
        """satisfiability of conds under atom bounds/definitions, the path condition and lemmas.
        relevant_only: drop path-condition conjuncts that mention atoms outside the query's own atoms
        (fewer assumptions: `unsat` stays sound, `sat` may be an over-approximation)"""
        t0 = time.time()
        allc = list(conds) + list(self.lemmas)
        if path is not None:
            extra = [c for c in path.pc if c not in conds and c is not True]
            if relevant_only:
                qa = set()
                for c in conds:
                    self.cond_atoms(c, qa)
                qa = self.closure(qa)
                kept = []
                for c in extra:
                    ca = self._catoms(c)
                    if ca <= qa:
                        kept.append(c)
                extra = kept
            allc += extra
        acc = set()
        for c in allc:
            self.cond_atoms(c, acc)
        atoms = self.closure(acc)
        zvars = {}

        def zv(a):
            v = zvars.get(a)
            if v is None:
                v = zvars[a] = z3.Int("a%d" % a)
            return v
        s = z3.Solver()
        s.set("timeout", timeout_ms or self.timeout_ms)
        for a in sorted(atoms):
            d = self.atoms[a]
            lo, hi = self.bnd(path, a)
            s.add(zv(a) >= lo, zv(a) <= hi)
            if d["kind"] == "mon":
                # McCormick envelope of the product (sound linear relaxation, tightens models)
                xa, xb = d["a"], d["b"]
                if xa in atoms and xb in atoms:
                    la, ha = self.bnd(path, xa)
                    lb, hb = self.bnd(path, xb)
                    A, Bv, M = zv(xa), zv(xb), zv(a)
                    s.add(M >= la * Bv + lb * A - la * lb, M >= ha * Bv + hb * A - ha * hb,
                          M <= ha * Bv + lb * A - ha * lb, M <= la * Bv + hb * A - la * hb)
            if d["kind"] == "bit":
                zx, zy = self.z3form(self.expand(d["x"]), zv), self.z3form(self.expand(d["y"]), zv)
                Z = zv(a)
                if d["bk"] == "or":
                    s.add(Z >= zx, Z >= zy, Z <= zx + zy)
                elif d["bk"] == "and":
                    s.add(Z <= zx, Z <= zy, Z >= 0, Z >= zx + zy - ((1 << 64) - 1))
                else:
                    s.add(Z <= zx + zy, Z >= zx - zy, Z >= zy - zx)
            if d["kind"] == "q":
                # 0 <= form - m*q <= m-1
                rem = self.expand(d["form"]) - LF({a: d["m"]})
                zf = self.z3form(rem, zv)
                s.add(zf >= 0, zf <= d["m"] - 1)
        for c in allc:
            s.add(self.z3cond(c, zv))
        r = s.check()
        dt = time.time() - t0
        res = str(r)
        self.queries.append((name, res, round(dt, 3)))
        if name not in ("feasibility", "merge") and not name.startswith("feas"):
            from . import xsolve
            xsolve.cross(s, name, res)
        if want_model:
            if r == z3.sat:
                m = s.model()
                return res, {a: (m.eval(zv(a), model_completion=True).as_long()) for a in atoms}
            return res, None
        return res

    # ------------------------------------------------------------ goals
    def prove_le(self, path, f, g, name):
        """f <= g ?  returns 'unsat' when proved"""
        d = LF.of(f) - LF.of(g)
        return self.check(path, [LFCond("<=", -d + 1)], name)

    def prove_eq(self, path, f, g, name):
        d = self.expand(LF.of(f) - LF.of(g))
        return self.check(path, [LFCond("!=", d)], name)

    def prove_congr(self, path, f, g, n, name):
        d = self.expand(LF.of(f) - LF.of(g))
        # stage 0: the whole residual modulo n, short timeout (solver decides even when the
        # residual is syntactically a multiple of n)
        r = self.check(path, [LFCond("modne", d, [n])], name + "/stage0", timeout_ms=3000)
        if r in ("unsat", "sat") and self.trust_stage0:
            return r
        rho = LF({a: k for a, k in d.t.items() if k % n}, d.c if d.c % n else 0)
        r = self.check(path, [LFCond("!=", rho)], name + "/stage1")
        if r == "unsat":
            return r
        # reduce coefficients mod n to keep numbers small, then stage 2
        rho2 = LF({a: (k % n if k % n <= n // 2 else k % n - n) for a, k in rho.t.items()}, rho.c % n)
        return self.check(path, [LFCond("modne", rho2, [n])], name + "/stage2")
