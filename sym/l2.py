"""L2: scalar multiplications in group mode (DESIGN.md 3.6 / C01)."""
import time
from . import exec as X, dom_lf, groupmode as GM, scalarmode
from .dom_lf import LF, LFCond
from .absmodes import Abs
from .check import Ob

E = "filippo.io/edwards25519."
L = GM.L


class L2:
    def __init__(self, base, chk, timeout_ms=120000):
        self.base, self.chk, self.prog = base, chk, base.prog
        self.dom = dom_lf.LFDomain(timeout_ms)
        self.dom.feas_relevant_only = True
        self.ex = base.executor(self.dom)
        self.ex.max_steps = 50_000_000
        self.st = scalarmode.install(self.ex, self.dom)
        self.grp = GM.Group(self.ex, self.dom)
        self.grp.install_recoders(self.st)
        self.heap = GM.convert_globals(self.ex, base.ex0.base_heap)
        self.ex.base_heap = self.heap
        # symbolic branches (on recoded digits) are merged at their post-dominator wherever they occur: the variable-time
        # loops need not live in the exported functions themselves
        self.ex.merge_all = True

    def path(self):
        p = X.Path()
        p.heap = {k: X.clone_cells(v) for k, v in self.heap.items()}
        return p

    def scalar(self, path, name):
        k = self.dom.input(name, 0, L - 1)
        oid = self.ex.new_obj(path, self.prog.T(E + "Scalar"), name=name, init=[scalarmode.SAbs(k, False, "mont")])
        return X.Ptr(oid), k

    def point(self, path, gen, name=""):
        oid = self.ex.new_obj(path, self.prog.T(E + "Point"), name=name or gen, init=GM.vec({gen: 1}) if gen else GM.UNINIT())
        return X.Ptr(oid)

    def ptr_slice(self, path, ptrs, tname):
        n = len(ptrs)
        oid = self.ex.new_obj(path, ("array", n, self.prog.T("*" + E + tname)), name="slice of *" + tname, init=list(ptrs))
        return X.SliceV(oid, (), 0, n, n), oid

    def result(self, path, v):
        c = path.heap[v.obj][0]
        if isinstance(c, list):
            # written field by field: re-assemble the abstract value (or fail: the caller records a non-group result)
            try:
                return self.grp.get(path, v)
            except X.ExecError:
                return c
        return c

    def check_result(self, label, fname, paths, v, want, t0, inputs_unwritten=()):
        """want: {gen: LF}; all paths must return with v = exactly that vector"""
        chk = self.chk
        bad = [p for p in paths if p.outcome[0] != "ret"]
        # panicking / erroring paths must be infeasible under the full path condition
        real_bad = []
        for p in bad:
            if self.dom.check(p, [], "feasibility of a non-returning path", timeout_ms=20000) != "unsat":
                real_bad.append(p)
        good = [p for p in paths if p.outcome[0] == "ret"]
        ob = chk.add(Ob("%s: returns normally on every feasible path (%d returning, %d infeasible abnormal paths pruned)" % (label, len(good), len(bad) - len(real_bad)),
                        "unsat" if not real_bad and good else "sat", 0, [fname], "group mode", detail=str([p.outcome for p in real_bad][:2])))
        obs = [ob]
        for i, p in enumerate(good):
            g = self.result(p, v)
            tag = "" if len(good) == 1 else " [path %d]" % i
            if not isinstance(g, GM.G) or g.kind != "vec":
                obs.append(chk.add(Ob("%s%s: result is a well-defined group element (never built from an uninitialised or stale value)" % (label, tag), "sat", 0, [fname], "group mode", detail=repr(g))))
                continue
            obs.append(chk.add(Ob("%s%s: result is a well-defined group element (never built from an uninitialised or stale value)" % (label, tag), "unsat", 0, [fname], "group mode")))
            for gen in sorted(set(g.v) | set(want)):
                tq = time.time()
                r = self.dom.prove_eq(p, g.v.get(gen, 0), want.get(gen, 0), "coeff")
                obs.append(chk.add(Ob("%s%s: coefficient of %s = %s" % (label, tag, gen, "the scalar's integer" if gen in want else "0 (prior receiver / foreign value does not contribute)"),
                                      r, time.time() - tq, [fname], "group mode / LIA")))
            obs.append(chk.add(Ob("%s%s: returns the receiver" % (label, tag), "unsat" if p.outcome[1][0] == v else "sat", 0, [fname], "structure")))
            wr = [w for w in p.log if w[0] == "w" and w[1] in inputs_unwritten]
            obs.append(chk.add(Ob("%s%s: inputs (scalars, points, slices) not written" % (label, tag), "unsat" if not wr else "sat", 0, [fname], "effects", detail=str(wr[:2]))))
        for what, x, pth in self.grp.pre_failed:
            obs.append(chk.add(Ob("%s: %s" % (label, what), "sat", 0, [fname], "contract precondition")))
        self.grp.pre_failed = []
        for what, x, pth in self.grp.pre:
            tq = time.time()
            r1 = self.dom.prove_le(pth, x, 8, "pre")
            r2 = self.dom.prove_le(pth, -8, x, "pre")
            obs.append(chk.add(Ob("%s: %s" % (label, what), "unsat" if r1 == r2 == "unsat" else "sat", time.time() - tq, [fname], "LIA")))
        self.grp.pre = []
        return obs


# ---------------------------------------------------------------------------
# recoder / selector contracts (discharged from the real SSA)
# ---------------------------------------------------------------------------

def install_scalar_bytes(ex, prog, bs_of):
    """contract of Scalar.Bytes (C08): the canonical little-endian encoding, value < l - installed for the exported method
    and for the outlined helper `bytes(out *[32]byte)` that it (and possibly the recoders directly) call.
    bs_of(path) -> the 32 byte terms"""
    def bytes_summary(ex_, path, args):
        oid = ex_.new_obj(path, ("array", 32, prog.T("uint8")), name="Scalar.Bytes()", init=list(bs_of(path)), kind="heap")
        return X.SliceV(oid, (), 0, 32, 32)

    def bytes_into(ex_, path, args):
        s_, out = args
        bs = list(bs_of(path))
        for i in range(32):
            ex_.store(path, X.Ptr(out.obj, out.path + (i,)), bs[i])
        return X.SliceV(out.obj, out.path, 0, 32, 32)
    ex.summaries[prog.find("Scalar).Bytes")] = bytes_summary
    try:
        ex.summaries[prog.find("Scalar).bytes")] = bytes_into
    except KeyError:
        pass


def r16_contract(base, chk):
    """signedRadix16: sum d_i*16^i = k, -8 <= d_i <= 8, no int8 overflow, panic branch infeasible (k < l)"""
    from . import kernels as K
    prog = base.prog
    fname = prog.find("Scalar).signedRadix16")
    k = K.LFK(base, chk, fname)
    dom, ex = k.dom, k.ex
    kv = dom.input("k", 0, L - 1)
    bs = [dom.input("b[%d]" % i, 0, 255) for i in range(32)]
    k.inputs["b"] = bs

    def bytes_summary(ex_, path, args):
        oid = ex_.new_obj(path, ("array", 32, prog.T("uint8")), name="Scalar.Bytes()", init=list(bs), kind="heap")
        return X.SliceV(oid, (), 0, 32, 32)
    install_scalar_bytes(ex, prog, lambda path: bs)
    k.path.pc.append(LFCond("==", K.bval(bs) - kv))   # contract of Scalar.Bytes (C08): little-endian canonical value < l
    s = X.Ptr(ex.new_obj(k.path, prog.T(E + "Scalar"), name="s"))
    paths = ex.call(fname, [s], k.path)
    good = [p for p in paths if p.outcome[0] == "ret"]
    bad = [p for p in paths if p.outcome[0] != "ret"]
    chk.add(Ob("signedRadix16: the 'high bit set' panic is infeasible for k < l; single returning path", "unsat" if len(good) == 1 and not bad else "sat", 0, [fname], "Int-LF", detail=str([p.outcome for p in bad][:2])))
    if not good:
        return
    p = good[0]
    ds = p.outcome[1][0]
    tot = LF()
    for i, d in enumerate(ds):
        tot = tot + LF.of(d).scale(16 ** i)
    k.goal(p, "eq", "sum d_i*16^i = k", tot, kv)
    for i, d in enumerate(ds):
        k.goal(p, "le", "d_%d <= 8" % i, d, 8)
        k.goal(p, "le", "d_%d >= %d" % (i, -8 if i < 63 else 0), -8 if i < 63 else 0, d)

    def replay(models, seed):
        from . import native, ptreplay
        import random
        rng = random.Random(seed)
        ks = [0, 1, 8, 15, 16, 2**252, L - 1, L - 2, 0x8888888888888888888888888888888888888888888888888888888888888888 % L, 0x7777777777777777777777777777777777777777777777777777777777777777 % L] + [rng.randrange(L) for _ in range(40)]
        for m in models:
            if "b" in m:
                ks.append(sum((int(x) & 255) << (8 * i) for i, x in enumerate(m["b"])) % L)
        # the Int-LF goal was not discharged: search for a concrete scalar with the bit-vector encoding of the same
        # function (bit-precise; finds carry-chain corner cases the relaxations of Int-LF leave open)
        kx = r16_bv_search(base, chk)
        if kx is not None:
            ks.insert(0, kx)
        ks += ptreplay.structured_scalars()
        res = native.run_ops("", [{"op": "S.signedRadix16", "args": ["s"], "init": {"s": ptreplay.scalar_words(x)}} for x in ks])
        for x, r in zip(ks, res):
            if "panic" in r:
                return dict(what="signedRadix16(%d) panics: %s" % (x, r["panic"]), op="signedRadix16", inputs=dict(k=str(x)))
            d = r["digits"]
            if sum(v * 16 ** i for i, v in enumerate(d)) != x or any(not -8 <= v <= 8 for v in d):
                return dict(what="signedRadix16(%d) digits %s" % (x, d), op="signedRadix16", inputs=dict(k=str(x)))
        return None
    k.replay = replay
    k.settle("signedRadix16")


def r16_bv_search(base, chk, timeout_ms=150000):
    """bit-vector encoding of signedRadix16 with the negated contract: a model is a candidate scalar (replayed natively
    by the caller); unsat / unknown are recorded but the Int-LF obligation stays the deciding one"""
    from . import kernels as K
    import z3
    import time
    prog = base.prog
    fname = prog.find("Scalar).signedRadix16")
    k = K.BVK(base, chk, fname, label="signedRadix16 (BV search)")
    bs = [k.bv("b[%d]" % i, 8) for i in range(32)]

    def bytes_summary(ex_, path, args):
        oid = ex_.new_obj(path, ("array", 32, prog.T("uint8")), name="Scalar.Bytes()", init=list(bs), kind="heap")
        return X.SliceV(oid, (), 0, 32, 32)
    install_scalar_bytes(k.ex, prog, lambda path: bs)
    kval = K.cat_bytes(bs)
    k.path.pc.append(z3.ULT(kval, z3.BitVecVal(L, 256)))
    s = X.Ptr(k.ex.new_obj(k.path, prog.T(E + "Scalar"), name="s"))
    try:
        paths = k.run([s])
    except Exception as e:
        chk.note_inconclusive("signedRadix16 BV search: %r" % (e,))
        return None
    W = 264
    t0 = time.time()
    for p in paths:
        so = z3.Solver()
        so.set("timeout", timeout_ms)
        for c in p.pc:
            so.add(c)
        if p.outcome[0] == "ret":
            ds = [z3.BitVecVal(d, 8) if type(d) is int else d for d in p.outcome[1][0]]
            tot = z3.BitVecVal(0, W)
            for i, d in enumerate(ds):
                tot = tot + (z3.SignExt(W - 8, d) << (4 * i))
            so.add(z3.Not(z3.And(tot == z3.ZeroExt(W - 256, kval), *[z3.And(d >= -8, d <= 8) for d in ds])))
        r = so.check()
        chk.extra.setdefault("bv_counterexample_search", []).append(dict(function=fname, path=p.outcome[0], result=str(r), seconds=round(time.time() - t0, 1)))
        if r == z3.sat:
            m = so.model()
            return m.eval(kval, model_completion=True).as_long()
    return None


def tsel_ct_contract(base, chk, tname):
    """(projLookupTable|affineLookupTable).SelectInto: dest = x*Q for every -8 <= x <= 8 (symbolic x, forks on the
    masked selections pruned by the solver), on a table holding (j+1)*Q"""
    from . import kernels as K, dom_bv
    import z3
    prog = base.prog
    fname = prog.find(tname + ").SelectInto")
    k = K.BVK(base, chk, fname, label=tname + ".SelectInto")
    chk.used(prog, "crypto/subtle.ConstantTimeByteEq", "BV (standard library SSA)")
    grp = GM.Group(k.ex, k.dom)
    cached = "projCached" if tname == "projLookupTable" else "affineCached"
    path = k.path
    tab = k.ex.new_obj(path, prog.T(E + tname), name="table", init=[[GM.vec({"Q": j + 1}) for j in range(8)]])
    dest = k.ex.new_obj(path, prog.T(E + cached), name="dest", init=GM.vec({"JUNK": 1}))
    x = k.bv("x", 8)
    path.pc.append(z3.And(x >= -8, x <= 8))
    paths = k.ex.call(fname, [X.Ptr(tab), X.Ptr(dest), x], path)
    bad = [p for p in paths if p.outcome[0] != "ret"]
    chk.add(Ob("%s.SelectInto: no panic for -8 <= x <= 8 (%d paths)" % (tname, len(paths)), "unsat" if not bad else "sat", 0, [fname], "BV + group mode"))
    for i, p in enumerate(p for p in paths if p.outcome[0] == "ret"):
        g = p.heap[dest][0]
        if not isinstance(g, GM.G) or g.kind != "vec" or set(g.v) - {"Q"}:
            chk.add(Ob("%s.SelectInto [path %d]: dest is a multiple of Q" % (tname, i), "sat", 0, [fname], "group mode", detail=repr(g)))
            continue
        c = g.v.get("Q", 0)
        k.prove(p, "[path %d] dest = x*Q (selected multiple %s equals the digit on this path)" % (i, c), z3.SignExt(56, x) == z3.BitVecVal(c, 64))
        k.prove(p, "[path %d] table not written" % i, not any(w[0] == "w" and w[1] == tab for w in p.log))
    k.settle()


def tsel_naf_contract(base, chk, tname, n):
    """naf tables: for odd x in 1..2n-1, dest = points[x/2] = x*Q; index in bounds"""
    from . import kernels as K
    import z3
    prog = base.prog
    fname = prog.find(tname + ").SelectInto")
    k = K.BVK(base, chk, fname, label=tname + ".SelectInto")
    cached = "projCached" if n == 8 else "affineCached"
    path = k.path

    def ite(self, path_, c, a, b):
        if a.kind == "vec" and b.kind == "vec":
            keys = set(a.v) | set(b.v)
            it = prog.T("int")
            return GM.G("vec", {g: k.dom.ite(path_, c, a.v.get(g, 0), b.v.get(g, 0), it) for g in keys})
        raise X.ExecError("ite on non-vector group values")
    GM.G.opaque_ite = ite
    for t in GM.TYPES:
        k.ex.opaque[E + t] = GM.UNINIT
    tab = k.ex.new_obj(path, prog.T(E + tname), name="table", init=[[GM.vec({"Q": 2 * j + 1}) for j in range(n)]])
    dest = k.ex.new_obj(path, prog.T(E + cached), name="dest", init=GM.vec({"JUNK": 1}))
    x = k.bv("x", 8)
    path.pc.append(z3.And(x >= 1, x <= 2 * n - 1, z3.Extract(0, 0, x) == 1))
    paths = k.ex.call(fname, [X.Ptr(tab), X.Ptr(dest), x], path)
    bad = [p for p in paths if p.outcome[0] != "ret"]
    chk.add(Ob("%s.SelectInto: index x/2 in bounds for odd 1 <= x <= %d (%d path(s))" % (tname, 2 * n - 1, len(paths)), "unsat" if not bad else "sat", 0, [fname], "BV + group mode", detail=str([p.outcome for p in bad][:2])))
    for i, p in enumerate(p for p in paths if p.outcome[0] == "ret"):
        g = p.heap[dest][0]
        c = g.v.get("Q", 0) if isinstance(g, GM.G) and g.kind == "vec" else None
        if c is None or set(g.v) - {"Q"}:
            chk.add(Ob("%s.SelectInto: dest is a multiple of Q" % tname, "sat", 0, [fname], "group mode", detail=repr(g)[:200]))
            continue
        cz = c if not type(c) is int else z3.BitVecVal(c, 64)
        k.prove(p, "dest = x*Q for every odd digit in range (table entry x/2 holds (2*(x/2)+1)*Q)", z3.SignExt(56, x) == cz)
    k.settle()


def naf_contract(base, chk, w, positions=None):
    """nonAdjacentForm(w): one inductive step of the recoding loop from an arbitrary state satisfying the
    invariant  S + carry*2^pos = k mod 2^pos,  carry in {0,1},  carry=1 => bit_{pos-1}(k)=1   (S = sum naf[i]*2^i, ghost),
    for every pos in 0..255; on exit S = k.  Digits written are odd, |d| < 2^(w-1), only naf[pos] is written."""
    from . import kernels as K
    import z3
    prog = base.prog
    fname = prog.find("Scalar).nonAdjacentForm")
    k = K.BVK(base, chk, fname, label="nonAdjacentForm(%d)" % w)
    ex = k.ex
    bs = [k.bv("b[%d]" % i, 8) for i in range(32)]

    def bytes_summary(ex_, path, args):
        oid = ex_.new_obj(path, ("array", 32, prog.T("uint8")), name="Scalar.Bytes()", init=list(bs), kind="heap")
        return X.SliceV(oid, (), 0, 32, 32)
    install_scalar_bytes(ex, prog, lambda path: bs)
    kval = K.cat_bytes(bs)                       # 256-bit
    k.path.pc.append(z3.ULT(kval, z3.BitVecVal(L, 256)))
    s = X.Ptr(ex.new_obj(k.path, prog.T(E + "Scalar"), name="s"))
    # find the loop header: the block with phis named pos / carry
    fn = prog.fn(fname)
    header = None
    for b in fn["blocks"]:
        names = [i.get("comment") for i in b["instrs"] if i["op"] == "Phi"]
        if "pos" in names and "carry" in names:
            header = b["index"]
            phis = {i["comment"]: i["name"] for i in b["instrs"] if i["op"] == "Phi"}
    if header is None:
        chk.note_inconclusive("nonAdjacentForm: loop header with phis pos/carry not found")
        return
    ex.stop_blocks.add((fname, header))
    t0 = time.time()
    start = ex.explore(ex.start(fname, [s, w], k.path))
    first = [p for p in start if p.outcome == ("stop", header)]
    others = [p for p in start if p.outcome != ("stop", header)]
    chk.add(Ob("nonAdjacentForm(%d): prologue reaches the loop once; its panics are infeasible for k < l and w=%d" % (w, w), "unsat" if len(first) == 1 and not others else "sat", 0, [fname], "BV", detail=str([p.outcome for p in others][:2])))
    if len(first) != 1:
        return
    p0 = first[0]
    fr0 = p0.frames[0]
    # locate naf / digits allocations
    nafp = digp = None
    for name, v in fr0.env.items():
        if isinstance(v, X.Ptr):
            m = ex.meta[v.obj]
            if m.name == "naf":
                nafp = v
            if m.name == "digits":
                digp = v
    if nafp is None or digp is None:
        chk.note_inconclusive("nonAdjacentForm: naf/digits allocations not found")
        return
    dig = p0.heap[digp.obj][0]
    # base case: pos=0, carry=0, naf all zero, digits = words of k, digits[4] = 0
    k.prove(p0, "base: pos=0, carry=0, naf all zero", fr0.env[phis["pos"]] == 0 and fr0.env[phis["carry"]] == 0 and all(type(x) is int and x == 0 for x in p0.heap[nafp.obj][0]))
    k.prove(p0, "base: digits[0..3] = 64-bit words of k, digits[4] = 0",
            z3.And([ (dig[i] if not type(dig[i]) is int else z3.BitVecVal(dig[i], 64)) == z3.Extract(64 * i + 63, 64 * i, kval) for i in range(4)] + [z3.BoolVal(type(dig[4]) is int and dig[4] == 0)]))
    WB = 330
    kw = z3.ZeroExt(WB - 256, kval)
    S = z3.BitVec("S", WB)
    carry = z3.BitVec("carry", 64)
    nbad = 0
    nq = 0
    model_ks = []
    poss = positions if positions is not None else range(256)
    tq = time.time()
    for pos in poss:
        p = p0.clone()
        p.outcome = None
        fr = p.frames[0]
        fr.env[phis["pos"]] = pos
        fr.env[phis["carry"]] = carry
        # naf memory: entries below pos arbitrary (ghost-summed in S), entries >= pos are zero
        nafc = [z3.BitVec("naf[%d]" % i, 8) if i < pos else 0 for i in range(256)]
        p.heap[nafp.obj] = [list(nafc)]
        mask = (1 << pos) - 1
        inv = z3.And(z3.Or(carry == 0, carry == 1),
                     ((S + (z3.ZeroExt(WB - 64, carry) << pos)) & z3.BitVecVal(mask, WB)) == (kw & z3.BitVecVal(mask, WB)) if pos > 0 else carry == 0,
                     (S + (z3.ZeroExt(WB - 64, carry) << pos)) == (kw & z3.BitVecVal(mask, WB)),
                     z3.Or(carry == 0, z3.Extract(pos - 1, pos - 1, kw) == 1) if pos > 0 else carry == 0)
        p.pc.append(inv)
        p.log = []
        outs = ex.explore(p)
        for q in outs:
            nq += 1
            if q.outcome[0] == "stop":
                fq = q.frames[0]
                npos, ncarry = fq.env[phis["pos"]], fq.env[phis["carry"]]
            elif q.outcome[0] == "ret":
                npos, ncarry = None, None
            else:
                # panic path: must be infeasible
                if k.dom.check(q.pc) != z3.unsat:
                    nbad += 1
                    chk.add(Ob("nonAdjacentForm(%d) pos=%d: abnormal outcome %s feasible" % (w, pos, q.outcome), "sat", 0, [fname], "BV"))
                continue
            writes = [wr for wr in q.log if wr[0] == "w" and wr[1] == nafp.obj]
            digit = None
            if writes:
                if len(writes) != 1 or writes[0][2] != (pos,):
                    nbad += 1
                    chk.add(Ob("nonAdjacentForm(%d) pos=%d: writes %s (only naf[pos] may be written)" % (w, pos, writes[:3]), "sat", 0, [fname], "effects"))
                    continue
                digit = q.heap[nafp.obj][0][pos]
            dterm = z3.BitVecVal(0, WB) if digit is None else z3.SignExt(WB - 8, digit if not type(digit) is int else z3.BitVecVal(digit, 8))
            S2 = S + (dterm << pos)
            goals = []
            if digit is not None:
                dg = digit if not type(digit) is int else z3.BitVecVal(digit, 8)
                goals.append(z3.Extract(0, 0, dg) == 1)
                dg16 = z3.SignExt(8, dg)
                goals.append(z3.And(dg16 > -(1 << (w - 1)), dg16 < (1 << (w - 1))))
            if q.outcome[0] == "stop":
                if type(npos) is not int or not (pos < npos):
                    nbad += 1
                    chk.add(Ob("nonAdjacentForm(%d) pos=%d: next pos %r (no progress / symbolic position)" % (w, pos, npos), "sat", 0, [fname], "BV"))
                    continue
                nm = (1 << npos) - 1
                nc = ncarry if not type(ncarry) is int else z3.BitVecVal(ncarry, 64)
                goals.append(z3.Or(nc == 0, nc == 1))
                goals.append((S2 + (z3.ZeroExt(WB - 64, nc) << npos)) == (kw & z3.BitVecVal(nm, WB)))
                goals.append(z3.Or(nc == 0, z3.Extract(npos - 1, npos - 1, kw) == 1))
                if npos < 256:
                    pass
                else:
                    # loop will exit at the header test; final sum must be k
                    goals.append(S2 == kw)
            else:
                goals.append(S2 == kw)
            so = z3.Solver()
            so.set("timeout", 60000)
            for c in q.pc:
                so.add(c)
            so.add(z3.Not(z3.And(goals)))
            r = so.check()
            if r != z3.unsat:
                nbad += 1
                det = ""
                if r == z3.sat:
                    m = so.model()
                    try:
                        model_ks.append(m.eval(kval, model_completion=True).as_long())
                    except Exception:
                        pass
                    det = "carry=%s S=%s k=%s next=(%s,%s) digit=%s failing=%s" % (m.eval(carry), m.eval(S), m.eval(kval), npos, m.eval(ncarry) if ncarry is not None and not type(ncarry) is int else ncarry,
                                                                            m.eval(digit) if digit is not None and not type(digit) is int else digit, [i for i, g in enumerate(goals) if z3.is_false(m.eval(g, model_completion=True))])
                chk.add(Ob("nonAdjacentForm(%d) pos=%d: invariant step / digit range" % (w, pos), str(r), 0, [fname], "BV", detail=det))
    chk.add(Ob("nonAdjacentForm(%d): inductive step of the recoding invariant for every pos in %s (%d one-step paths): sum naf[i]*2^i = k at exit, digits odd with |d| < 2^%d, only naf[pos] written" % (
        w, "0..255" if positions is None else str(list(poss)[:4]) + "...", nq, w - 1), "unsat" if nbad == 0 else "sat-see-above", time.time() - tq, [fname], "BV (loop-head hook, 330-bit ghost sum)"))

    def replay(models, seed):
        from . import native, ptreplay
        import random
        rng = random.Random(seed)
        ks = [0, 1, 15, 16, 17, 2**252, L - 1, L - 2, (2**253 - 1) % L, 0x5555555555555555555555555555555555555555555555555555555555555555 % L] + [rng.randrange(L) for _ in range(30)]
        ks += [k_ % L for k_ in models] + ptreplay.structured_scalars()
        res = native.run_ops("", [{"op": "S.nonAdjacentForm", "args": ["s", str(w)], "init": {"s": ptreplay.scalar_words(x)}} for x in ks])
        for x, r in zip(ks, res):
            if "panic" in r:
                return dict(what="nonAdjacentForm(%d) of %d panics: %s" % (w, x, r["panic"]), op="nonAdjacentForm", inputs=dict(k=str(x), w=w))
            d = r["digits"]
            if sum(v << i for i, v in enumerate(d)) != x or any(v != 0 and (v % 2 == 0 or abs(v) >= 1 << (w - 1)) for v in d):
                return dict(what="nonAdjacentForm(%d) of %d: digits %s" % (w, x, d), op="nonAdjacentForm", inputs=dict(k=str(x), w=w))
        return None
    bad_obs = [o for o in chk.obs if o.name.startswith("nonAdjacentForm(%d)" % w) and not o.ok()]
    if bad_obs:
        hit = None
        try:
            hit = replay(model_ks, chk.seed)
        except Exception as e:
            chk.note_inconclusive("replay nonAdjacentForm failed: %r" % (e,))
        for o in bad_obs:
            o.verdict = "violated" if hit else "sat-unreplayed"
        if hit:
            chk.violation("nonAdjacentForm", hit["what"], hit)
