"""L2: scalar multiplications in group mode (DESIGN.md 3.6 / C01)."""
import time
from . import exec as X, dom_lf, groupmode as GM, scalarmode
from .dom_lf import LF, LFCond
from .absmodes import Abs
from .check import Ob

E = "filippo.io/edwards25519."
L = GM.L


class L2:
    def __init__(self, base, chk, timeout_ms=120000):
        self.base, self.chk, self.prog = base, chk, base.prog
        self.dom = dom_lf.LFDomain(timeout_ms)
        self.dom.feas_relevant_only = True
        self.ex = base.executor(self.dom)
        self.ex.max_steps = 50_000_000
        self.st = scalarmode.install(self.ex, self.dom)
        self.grp = GM.Group(self.ex, self.dom)
        self.grp.install_recoders(self.st)
        self.heap = GM.convert_globals(self.ex, base.ex0.base_heap)
        self.ex.base_heap = self.heap
        for f in ("Point).VarTimeDoubleScalarBaseMult", "Point).VarTimeMultiScalarMult"):
            self.ex.merge_funcs.add(self.prog.find(f))

    def path(self):
        p = X.Path()
        p.heap = {k: X.clone_cells(v) for k, v in self.heap.items()}
        return p

    def scalar(self, path, name):
        k = self.dom.input(name, 0, L - 1)
        oid = self.ex.new_obj(path, self.prog.T(E + "Scalar"), name=name, init=[Abs(k, False, "mont")])
        return X.Ptr(oid), k

    def point(self, path, gen, name=""):
        oid = self.ex.new_obj(path, self.prog.T(E + "Point"), name=name or gen, init=GM.vec({gen: 1}) if gen else GM.UNINIT())
        return X.Ptr(oid)

    def ptr_slice(self, path, ptrs, tname):
        n = len(ptrs)
        oid = self.ex.new_obj(path, ("array", n, self.prog.T("*" + E + tname)), name="slice of *" + tname, init=list(ptrs))
        return X.SliceV(oid, (), 0, n, n), oid

    def result(self, path, v):
        return path.heap[v.obj][0]

    def check_result(self, label, fname, paths, v, want, t0, inputs_unwritten=()):
        """want: {gen: LF}; all paths must return with v = exactly that vector"""
        chk = self.chk
        bad = [p for p in paths if p.outcome[0] != "ret"]
        # panicking / erroring paths must be infeasible under the full path condition
        real_bad = []
        for p in bad:
            if self.dom.check(p, [], "feasibility of a non-returning path", timeout_ms=20000) != "unsat":
                real_bad.append(p)
        good = [p for p in paths if p.outcome[0] == "ret"]
        ob = chk.add(Ob("%s: returns normally on every feasible path (%d returning, %d infeasible abnormal paths pruned)" % (label, len(good), len(bad) - len(real_bad)),
                        "unsat" if not real_bad and good else "sat", 0, [fname], "group mode", detail=str([p.outcome for p in real_bad][:2])))
        obs = [ob]
        for i, p in enumerate(good):
            g = self.result(p, v)
            tag = "" if len(good) == 1 else " [path %d]" % i
            if not isinstance(g, GM.G) or g.kind != "vec":
                obs.append(chk.add(Ob("%s%s: result is a well-defined group element (never built from an uninitialised or stale value)" % (label, tag), "sat", 0, [fname], "group mode", detail=repr(g))))
                continue
            obs.append(chk.add(Ob("%s%s: result is a well-defined group element (never built from an uninitialised or stale value)" % (label, tag), "unsat", 0, [fname], "group mode")))
            for gen in sorted(set(g.v) | set(want)):
                tq = time.time()
                r = self.dom.prove_eq(p, g.v.get(gen, 0), want.get(gen, 0), "coeff")
                obs.append(chk.add(Ob("%s%s: coefficient of %s = %s" % (label, tag, gen, "the scalar's integer" if gen in want else "0 (prior receiver / foreign value does not contribute)"),
                                      r, time.time() - tq, [fname], "group mode / LIA")))
            obs.append(chk.add(Ob("%s%s: returns the receiver" % (label, tag), "unsat" if p.outcome[1][0] == v else "sat", 0, [fname], "structure")))
            wr = [w for w in p.log if w[0] == "w" and w[1] in inputs_unwritten]
            obs.append(chk.add(Ob("%s%s: inputs (scalars, points, slices) not written" % (label, tag), "unsat" if not wr else "sat", 0, [fname], "effects", detail=str(wr[:2]))))
        for what, x, pth in self.grp.pre_failed:
            obs.append(chk.add(Ob("%s: %s" % (label, what), "sat", 0, [fname], "contract precondition")))
        self.grp.pre_failed = []
        for what, x, pth in self.grp.pre:
            tq = time.time()
            r1 = self.dom.prove_le(pth, x, 8, "pre")
            r2 = self.dom.prove_le(pth, -8, x, "pre")
            obs.append(chk.add(Ob("%s: %s" % (label, what), "unsat" if r1 == r2 == "unsat" else "sat", time.time() - tq, [fname], "LIA")))
        self.grp.pre = []
        return obs
