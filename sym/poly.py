"""Sparse multivariate polynomials over Z (ring mode values) + multivariate division (certificate
search, untrusted) + conversion to z3 integer terms (certificate validation, the deciding step)."""
import z3

_names = []
_index = {}


def var_index(name):
    i = _index.get(name)
    if i is None:
        i = len(_names)
        _names.append(name)
        _index[name] = i
    return i


class Poly:
    __slots__ = ("t",)

    def __init__(self, t=None):
        self.t = t or {}

    # variable indices are process-local (forked workers number new variables independently): pickle by name
    def __getstate__(self):
        return [(tuple((_names[v], e) for v, e in m), c) for m, c in self.t.items()]

    def __setstate__(self, st):
        self.t = {}
        for m, c in st:
            mm = tuple(sorted((var_index(n), e) for n, e in m))
            self.t[mm] = self.t.get(mm, 0) + c

    @staticmethod
    def const(c):
        return Poly({(): c} if c else {})

    @staticmethod
    def var(name):
        return Poly({((var_index(name), 1),): 1})

    @staticmethod
    def of(x):
        if isinstance(x, Poly):
            return x
        return Poly.const(int(x))

    def is_zero(self):
        return not self.t

    def is_const(self):
        return not self.t or (len(self.t) == 1 and () in self.t)

    def const_value(self):
        return self.t.get((), 0)

    def __add__(self, o):
        o = Poly.of(o)
        t = dict(self.t)
        for m, c in o.t.items():
            v = t.get(m, 0) + c
            if v:
                t[m] = v
            else:
                t.pop(m, None)
        return Poly(t)

    __radd__ = __add__

    def __neg__(self):
        return Poly({m: -c for m, c in self.t.items()})

    def __sub__(self, o):
        return self + (-Poly.of(o))

    def __rsub__(self, o):
        return Poly.of(o) + (-self)

    def __mul__(self, o):
        if isinstance(o, int):
            if o == 0:
                return Poly()
            return Poly({m: c * o for m, c in self.t.items()})
        t = {}
        for m1, c1 in self.t.items():
            for m2, c2 in o.t.items():
                m = mono_mul(m1, m2)
                v = t.get(m, 0) + c1 * c2
                if v:
                    t[m] = v
                else:
                    t.pop(m, None)
        return Poly(t)

    __rmul__ = __mul__

    def __pow__(self, n):
        r = Poly.const(1)
        for _ in range(n):
            r = r * self
        return r

    def __eq__(self, o):
        return isinstance(o, Poly) and self.t == o.t

    def __hash__(self):
        return hash(frozenset(self.t.items()))

    def key(self):
        return tuple(sorted(self.t.items()))

    def vars(self):
        s = set()
        for m in self.t:
            for v, e in m:
                s.add(v)
        return s

    def degree_in(self, name):
        v = var_index(name)
        d = 0
        for m in self.t:
            for vv, e in m:
                if vv == v:
                    d = max(d, e)
        return d

    def subs(self, mapping):
        """mapping: var name -> Poly"""
        mp = {var_index(k): Poly.of(v) for k, v in mapping.items()}
        res = Poly()
        for m, c in self.t.items():
            term = Poly.const(c)
            rest = []
            for v, e in m:
                if v in mp:
                    term = term * (mp[v] ** e)
                else:
                    rest.append((v, e))
            if rest:
                term = term * Poly({tuple(rest): 1})
            res = res + term
        return res

    def eval_mod(self, env, p):
        """env: var name -> int"""
        e = {var_index(k): v for k, v in env.items()}
        tot = 0
        for m, c in self.t.items():
            t = c
            for v, ex in m:
                t = t * pow(e[v], ex, p) % p
            tot = (tot + t) % p
        return tot

    def to_z3(self, zvars):
        """expanded sum of monomials as a z3 Int term; zvars: var index -> z3 Int"""
        terms = []
        for m, c in sorted(self.t.items()):
            f = [z3.IntVal(c)] if c != 1 or not m else []
            for v, e in m:
                for _ in range(e):
                    f.append(zvars(v))
            terms.append(z3.Product(f) if len(f) > 1 else f[0])
        if not terms:
            return z3.IntVal(0)
        return z3.Sum(terms) if len(terms) > 1 else terms[0]

    def __repr__(self):
        if not self.t:
            return "0"
        out = []
        for m, c in sorted(self.t.items()):
            s = "*".join("%s^%d" % (_names[v], e) if e > 1 else _names[v] for v, e in m)
            out.append(("%+d" % c) + ("*" + s if s else ""))
        return " ".join(out[:40]) + (" ... (%d terms)" % len(out) if len(out) > 40 else "")


def mono_mul(a, b):
    if not a:
        return b
    if not b:
        return a
    d = dict(a)
    for v, e in b:
        d[v] = d.get(v, 0) + e
    return tuple(sorted(d.items()))


def mono_div(a, b):
    """a / b or None"""
    d = dict(a)
    for v, e in b:
        x = d.get(v, 0) - e
        if x < 0:
            return None
        if x:
            d[v] = x
        else:
            del d[v]
    return tuple(sorted(d.items()))


def lex_key(order):
    rank = {var_index(n): i for i, n in enumerate(order)}
    big = len(order)

    def key(m):
        # exponent vector in the given variable order (unlisted variables last, by index)
        vec = [0] * big
        rest = []
        for v, e in m:
            if v in rank:
                vec[rank[v]] = e
            else:
                rest.append((v, e))
        return (tuple(vec), tuple(sorted(rest)))
    return key


def divide(f, gens, order):
    """multivariate division of f by gens under lex order `order` (list of var names, most significant
    first).  Leading coefficients of the generators must be +-1.  Returns (quotients, remainder)."""
    key = lex_key(order)
    lts = []
    for g in gens:
        lm = max(g.t, key=key)
        lc = g.t[lm]
        if lc not in (1, -1):
            raise ValueError("leading coefficient %d" % lc)
        lts.append((lm, lc))
    qs = [Poly() for _ in gens]
    r = Poly()
    p = Poly(dict(f.t))
    while p.t:
        lm = max(p.t, key=key)
        lc = p.t[lm]
        done = False
        for i, (g, (glm, glc)) in enumerate(zip(gens, lts)):
            q = mono_div(lm, glm)
            if q is not None:
                c = lc * glc   # glc = +-1
                term = Poly({q: c})
                qs[i] = qs[i] + term
                p = p - term * g
                done = True
                break
        if not done:
            r = r + Poly({lm: lc})
            del p.t[lm]
    return qs, r


def z3_identity_unsat(lhs_terms, rhs_terms, timeout_ms=120000):
    """ask z3 to refute  sum(prod(factors)) != sum(prod(factors))  over the integers.
    Each side: list of products, each product a list of Poly factors (kept factored: the solver expands)."""
    zv = {}

    def zvars(v):
        x = zv.get(v)
        if x is None:
            x = zv[v] = z3.Int(_names[v])
        return x

    def side(terms):
        ts = []
        for fac in terms:
            fs = [f.to_z3(zvars) if isinstance(f, Poly) else z3.IntVal(int(f)) for f in fac]
            ts.append(z3.Product(fs) if len(fs) > 1 else fs[0])
        if not ts:
            return z3.IntVal(0)
        return z3.Sum(ts) if len(ts) > 1 else ts[0]
    s = z3.Solver()
    s.set("timeout", timeout_ms)
    l, r = side(lhs_terms), side(rhs_terms)
    s.add(l != r)
    res = s.check()
    from . import xsolve
    xsolve.cross(s, "polynomial identity", str(res))
    return str(res), s
