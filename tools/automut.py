#!/usr/bin/env python3
"""tools/automut.py <outdir> [N] [seed]: simple source-level mutants of /repo (operator / constant / operand swaps, deleted
statements) that still build and pass the existing test suite ("survivors"); each survivor is then run against the checks
of the properties its file is anchored in.  A survivor on which every check exits 0 is either an equivalent mutant or a
miss and is triaged by hand (log: <outdir>/automut.log)."""
import os, re, random, shutil, subprocess, sys

OUT = sys.argv[1] if len(sys.argv) > 1 else "/tmp/automut"
N = int(sys.argv[2]) if len(sys.argv) > 2 else 120
SEED = int(sys.argv[3]) if len(sys.argv) > 3 else 1
ENV = dict(os.environ, GOFLAGS="-mod=mod", GOPROXY="off", GOSUMDB="off", GOTOOLCHAIN="local")
FILES = {
    "field/fe.go": "C09 C10 C16 C02 C05",
    "field/fe_generic.go": "C09 C20 C10",
    "field/fe_extra.go": "C10 C09",
    "scalar.go": "C07 C08 C01 C03",
    "edwards25519.go": "C02 C04 C05 C06 C12 C15 C11",
    "extra.go": "C13 C17 C01 C15 C07 C12 C19 C11",
    "scalarmult.go": "C01 C03 C11 C12 C18",
    "tables.go": "C01 C03 C12",
}
SWAPS = [(r" \+ ", " - "), (r" - ", " + "), (r" << ", " >> "), (r" <= ", " < "), (r" < ", " <= "), (r" != ", " == "), (r" == ", " != "),
         (r" & ", " | "), (r" \| ", " & "), (r" >= ", " > "), (r" > ", " >= "), (r" \^ ", " | ")]


def candidates(path, text):
    lines = text.split("\n")
    out = []
    infunc = False
    for i, ln in enumerate(lines):
        s = ln.strip()
        if ln.startswith("func "):
            infunc = True
        if not infunc or not s or s.startswith("//") or s.startswith("func ") or "panic(" in s or s.startswith("import") or s.startswith("package"):
            continue
        code = ln.split("//")[0]
        for a, b in SWAPS:
            for m in re.finditer(a, code):
                out.append((i, code[:m.start()] + b + code[m.end():], "op %s->%s" % (a.strip(), b.strip())))
        for m in re.finditer(r"(?<![\w.])(\d+)(?![\w.])", code):
            v = int(m.group(1))
            for nv in {v + 1, max(v - 1, 0)} - {v}:
                out.append((i, code[:m.start()] + str(nv) + code[m.end():], "const %d->%d" % (v, nv)))
        m = re.match(r"^(\s*)([\w.\[\]&()]+)\.(\w+)\((.*)\)\s*$", code)
        if m and not code.strip().startswith("return") and "defer" not in code:
            out.append((i, m.group(1) + "_ = 0 // deleted", "delete call %s" % s[:40]))
            args = [a.strip() for a in m.group(4).split(",")]
            if len(args) >= 2 and args[0] != args[1]:
                sw = [args[1], args[0]] + args[2:]
                out.append((i, "%s%s.%s(%s)" % (m.group(1), m.group(2), m.group(3), ", ".join(sw)), "swap args of %s" % m.group(3)))
        if re.match(r"^\s*checkInitialized\(", code):
            out.append((i, re.match(r"^(\s*)", code).group(1) + "_ = 0 // deleted", "delete guard"))
    return lines, out


def main():
    rng = random.Random(SEED)
    os.makedirs(OUT + "/survivors", exist_ok=True)
    log = open(OUT + "/automut.log", "a")
    allc = []
    for f in FILES:
        text = open("/repo/" + f).read()
        lines, cs = candidates(f, text)
        allc += [(f, lines, c) for c in cs]
    rng.shuffle(allc)
    done = 0
    for f, lines, (i, newline, what) in allc[:N]:
        d = OUT + "/w"
        shutil.rmtree(d, ignore_errors=True)
        shutil.copytree("/repo", d, ignore=shutil.ignore_patterns(".git"))
        new = list(lines)
        new[i] = newline
        open(os.path.join(d, f), "w").write("\n".join(new))
        r = subprocess.run("cd %s && go build ./... 2>&1 | head -2" % d, shell=True, capture_output=True, text=True, env=ENV)
        if r.stdout.strip():
            continue
        r = subprocess.run("cd %s && go vet ./... >/dev/null 2>&1; timeout 300 go test -count=1 ./... 2>&1 | tail -3" % d, shell=True, capture_output=True, text=True, env=ENV)
        if "FAIL" in r.stdout or "ok" not in r.stdout:
            print("killed-by-tests %s:%d %s" % (f, i + 1, what), file=log, flush=True)
            continue
        name = "%s_%d_%d" % (f.replace("/", "_").replace(".go", ""), i + 1, done)
        done += 1
        subprocess.run("diff -u /repo/%s %s/%s > %s/survivors/%s.diff" % (f, d, f, OUT, name), shell=True)
        res = []
        for c in FILES[f].split():
            rr = subprocess.run("cd /verif && VERIF_REPO=%s timeout 1500 ./check %s 2>&1 | tail -4" % (d, c), shell=True, capture_output=True, text=True, env=ENV)
            rc = 1 if "VIOLATION" in rr.stdout else (2 if "INCONCLUSIVE" in rr.stdout else 0)
            res.append("%s:%d" % (c, rc))
            if rc == 1:
                break
        verdict = "CAUGHT" if any(x.endswith(":1") for x in res) else ("UNDECIDED" if any(x.endswith(":2") for x in res) else "SURVIVED-ALL-CHECKS")
        print("%s %s %s:%d [%s] | %s | %s" % (verdict, name, f, i + 1, what, lines[i].strip()[:70], " ".join(res)), file=log, flush=True)
        subprocess.run("rm -rf /verif/replays", shell=True)
    shutil.rmtree(OUT + "/w", ignore_errors=True)


main()
