#!/bin/bash
# run every registered quick (or $1=thorough) check; print one line each
tier=${1:-quick}
cd /verif
for id in $(python3 -c "import json;print(' '.join(c['property_id'] for c in json.load(open('MANIFEST.json'))['checks']))"); do
  s=$(date +%s)
  out=$(timeout 3600 ./check $id --tier $tier 2>&1); rc=$?
  e=$(date +%s)
  echo "$id rc=$rc $((e-s))s $(echo "$out" | grep "^$id tier" | tail -1)"
  echo "$out" | grep -E "^(VIOLATION|INCONCLUSIVE)" | head -3
done
