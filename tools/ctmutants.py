#!/usr/bin/env python3
"""tools/ctmutants.py [outdir]: generate a batch of source-level constant-time mutants of /repo (each keeps every result
correct and only adds a secret-dependent branch / index / shift / early exit) as diffs; used with tools/ctmut_eval.sh to
check that C03 reports every one of them."""
import subprocess, os, shutil, sys

M = [
    ("sbm_skipzero", "scalarmult.go", "\tfor i := 0; i < 64; i += 2 {\n\t\tbasepointTable[i/2].SelectInto(multiple, digits[i])\n", "\tfor i := 0; i < 64; i += 2 {\n\t\tif digits[i] == 0 {\n\t\t\tcontinue\n\t\t}\n\t\tbasepointTable[i/2].SelectInto(multiple, digits[i])\n"),
    ("msm_skipzero", "extra.go", "\t\t\ttables[j].SelectInto(multiple, digits[j][i])\n\t\t\ttmp1.Add(v, multiple)", "\t\t\tif digits[j][i] == 0 {\n\t\t\t\tcontinue\n\t\t\t}\n\t\t\ttables[j].SelectInto(multiple, digits[j][i])\n\t\t\ttmp1.Add(v, multiple)"),
    ("sel_break", "tables.go", "\t\tcond := subtle.ConstantTimeByteEq(xabs, uint8(j))\n\t\tdest.Select(&v.points[j-1], dest, cond)\n\t}", "\t\tcond := subtle.ConstantTimeByteEq(xabs, uint8(j))\n\t\tdest.Select(&v.points[j-1], dest, cond)\n\t\tif cond == 1 {\n\t\t\tbreak\n\t\t}\n\t}"),
    ("fe_select_if", "field/fe.go", "func (v *Element) Select(a, b *Element, cond int) *Element {\n", "func (v *Element) Select(a, b *Element, cond int) *Element {\n\tif cond == 1 {\n\t\treturn v.Set(a)\n\t}\n"),
    ("scalar_equal_early", "scalar.go", "func (s *Scalar) Equal(t *Scalar) int {\n", "func (s *Scalar) Equal(t *Scalar) int {\n\tif s.s[0] != t.s[0] {\n\t\treturn 0\n\t}\n"),
    ("point_equal_sc", "edwards25519.go", "\treturn t1.Equal(t2) & t3.Equal(t4)", "\tif t1.Equal(t2) == 0 {\n\t\treturn 0\n\t}\n\treturn t3.Equal(t4)"),
    ("cmov_if", "scalar_fiat.go", "func fiatScalarCmovznzU64(out1 *uint64, arg1 fiatScalarUint1, arg2 uint64, arg3 uint64) {\n", "func fiatScalarCmovznzU64(out1 *uint64, arg1 fiatScalarUint1, arg2 uint64, arg3 uint64) {\n\tif arg1 == 0 {\n\t\t*out1 = arg2\n\t\treturn\n\t}\n"),
    ("condneg_if", "edwards25519.go", "func (v *projCached) CondNeg(cond int) *projCached {\n", "func (v *projCached) CondNeg(cond int) *projCached {\n\tif cond == 0 {\n\t\treturn v\n\t}\n"),
    ("absolute_if", "field/fe.go", "func (v *Element) Absolute(u *Element) *Element {\n", "func (v *Element) Absolute(u *Element) *Element {\n\tif u.IsNegative() == 0 {\n\t\treturn v.Set(u)\n\t}\n"),
    ("invert_zero", "field/fe.go", "func (v *Element) Invert(z *Element) *Element {\n", "func (v *Element) Invert(z *Element) *Element {\n\tif z.l0 == 0 && z.l1 == 0 && z.l2 == 0 && z.l3 == 0 && z.l4 == 0 {\n\t\treturn v.Zero()\n\t}\n"),
    ("mult32_idx", "field/fe.go", "func (v *Element) Mult32(x *Element, y uint32) *Element {\n", "func (v *Element) Mult32(x *Element, y uint32) *Element {\n\tvar tbl [2]uint64\n\t_ = tbl[x.l0&1]\n"),
    ("isneg_shift", "field/fe.go", "func (v *Element) IsNegative() int {\n", "func (v *Element) IsNegative() int {\n\t_ = uint64(1) << (v.l0 & 63)\n"),
    ("swap_if", "field/fe.go", "func (v *Element) Swap(u *Element, cond int) {\n", "func (v *Element) Swap(u *Element, cond int) {\n\tif cond == 0 {\n\t\treturn\n\t}\n"),
    ("scalar_mul_zero", "scalar.go", "func (s *Scalar) Multiply(x, y *Scalar) *Scalar {\n", "func (s *Scalar) Multiply(x, y *Scalar) *Scalar {\n\tif *x == (Scalar{}) {\n\t\t*s = Scalar{}\n\t\treturn s\n\t}\n"),
    ("affine_sel_direct", "tables.go", "func (v *affineLookupTable) SelectInto(dest *affineCached, x int8) {\n", "func (v *affineLookupTable) SelectInto(dest *affineCached, x int8) {\n\tif x > 0 {\n\t\t*dest = v.points[x-1]\n\t\treturn\n\t}\n"),
    ("sm_tophalf", "scalarmult.go", "\tfor i := 62; i >= 0; i-- {\n", "\tfor i := 62; i >= 0; i-- {\n\t\tif digits[i] == 0 && i > 60 {\n\t\t\t_ = i\n\t\t}\n"),
    ("bytes_div", "field/fe.go", "func (v *Element) Bytes() []byte {\n", "func (v *Element) Bytes() []byte {\n\t_ = uint64(7) / (v.l1 | 1)\n"),
    ("negate_pt_if", "edwards25519.go", "func (v *Point) Negate(p *Point) *Point {\n\tcheckInitialized(p)\n", "func (v *Point) Negate(p *Point) *Point {\n\tcheckInitialized(p)\n\tif p.x.IsNegative() == 1 && p.x.Equal(&p.y) == 1 {\n\t\t_ = v\n\t}\n"),
]


def main():
    out = sys.argv[1] if len(sys.argv) > 1 else "/tmp/ctm"
    os.makedirs(out + "/diffs", exist_ok=True)
    env = dict(os.environ, GOFLAGS="-mod=mod", GOPROXY="off", GOSUMDB="off", GOTOOLCHAIN="local")
    for name, f, old, new in M:
        d = out + "/w"
        shutil.rmtree(d, ignore_errors=True)
        shutil.copytree("/repo", d)
        s = open(os.path.join(d, f)).read()
        if old not in s:
            print("NOMATCH", name)
            continue
        open(os.path.join(d, f), "w").write(s.replace(old, new, 1))
        r = subprocess.run("cd %s && go build ./... 2>&1 | head -3" % d, shell=True, capture_output=True, text=True, env=env)
        if r.stdout.strip():
            print("BUILDFAIL", name, r.stdout[:300])
            continue
        subprocess.run("cd %s && git diff > %s/diffs/%s.diff" % (d, out, name), shell=True)
        print("ok", name)
    shutil.rmtree(out + "/w", ignore_errors=True)


main()
