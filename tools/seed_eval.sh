#!/bin/bash
# tools/seed_eval.sh <ID> [checks...] : confirm a sub-agent's seeded change in a fresh scratch worktree and run checks against it
set -u
id=$1; shift
src=${SEEDSRC:-/tmp/seed_$id}/_seed; name=${SEEDNAME:-$id}
[ -f $src/patch.diff ] || { echo "no $src/patch.diff"; exit 2; }
export GOFLAGS=-mod=mod GOPROXY=off GOSUMDB=off GOTOOLCHAIN=local
ev=/tmp/ev_$id
git -C /repo worktree remove --force $ev 2>/dev/null
git -C /repo worktree add -f --detach $ev HEAD -q || exit 2
pkgline=$(grep -m1 '^package ' $src/demo_test.go | awk '{print $2}')
if [ "$pkgline" = "field" ]; then ddir=$ev/field; dpkg=./field/; else ddir=$ev; dpkg=.; fi
runflags=""
grep -q '"how_to_run".*-race' $src/meta.json 2>/dev/null && runflags="-race"
[ "$id" = "C18" ] && runflags="-race"
log=/tmp/ev_$id.log; : > $log
cp $src/demo_test.go $ddir/zz_demo_test.go
(cd $ev && go test $runflags -count=1 -run TestSeedDemo $dpkg) >>$log 2>&1; base_rc=$?
rm -f $ddir/zz_demo_test.go
(cd $ev && git apply $src/patch.diff) >>$log 2>&1 || { echo "patch does not apply"; tail -5 $log; exit 2; }
(cd $ev && go build ./... ) >>$log 2>&1; build_rc=$?
t1=$(cd $ev && go test -count=1 ./... 2>&1 | tail -3 | tr '\n' ' ')
t2=$(cd $ev && go test -count=1 ./... 2>&1 | tail -3 | tr '\n' ' ')
cp $src/demo_test.go $ddir/zz_demo_test.go
(cd $ev && go test $runflags -count=1 -run TestSeedDemo $dpkg) >>$log 2>&1; mut_rc=$?
rm -f $ddir/zz_demo_test.go
echo "== $id: demo on original rc=$base_rc (want 0); build rc=$build_rc; suite with change: [$t1] [$t2]; demo with change rc=$mut_rc (want != 0)"
res=""
for c in "$@"; do
  out=$(cd /verif && VERIF_REPO=$ev timeout 3600 ./check $c 2>&1); rc=$?
  line=$(echo "$out" | grep "^$c tier" | tail -1)
  echo "   check $c rc=$rc $line"
  echo "$out" | grep -E "^(VIOLATION|  what|INCONCLUSIVE)" | head -4 | cut -c1-260 | sed 's/^/      /'
  res="$res $c:$rc"
done
mkdir -p /verif/seeded/$name
cp $src/patch.diff $src/demo_test.go /verif/seeded/$name/
python3 - "$name" "$base_rc" "$build_rc" "$mut_rc" "$t1" "$res" <<'PY'
import json,sys
id,base,build,mut,t1,res=sys.argv[1:7]
import os
try: m=json.load(open(os.environ.get('SEEDSRC','/tmp/seed_%s'%id)+'/_seed/meta.json'))
except Exception as e: m={"property":id,"summary":"(meta.json unreadable: %s)"%e}
m["confirmed_by_me"]={"demo_on_original_rc":int(base),"build_rc":int(build),"demo_with_change_rc":int(mut),"existing_suite_with_change":t1,
  "checks_run (id:exit code; 1 = VIOLATION reported, 0 = missed, 2 = inconclusive)":res.split()}
json.dump(m,open('/verif/seeded/%s/meta.json'%id,'w'),indent=1)
PY
git -C /repo worktree remove --force $ev
rm -rf /verif/replays
