#!/bin/bash
# regression suite for the checks: every patch under tools/mutants/*.diff (first line "# checks: <ids>|NONE") and every
# seeded/<id>/patch.diff (checks = the property id) is applied to a scratch copy of /repo; the named checks must exit 1
# (or 0 for NONE = equivalent mutant).  Usage: tools/mutsuite.sh [name-filter]
cd /verif
filter=${1:-}
fail=0
run() { # name patch checks
  [ -n "$filter" ] && [[ "$1" != *$filter* ]] && return
  d=$(mktemp -d /tmp/ms.XXXXXX); cp -r /repo/. $d/
  if ! (cd $d && grep -v '^# checks:' "$2" | git apply - 2>/dev/null); then echo "SKIP $1 (patch does not apply)"; rm -rf $d; return; fi
  for c in $3; do
    if [ "$c" = NONE ]; then want=0; cs="C08"; else want=${WANT:-1}; cs=$c; fi
    out=$(VERIF_REPO=$d timeout 3600 ./check $cs 2>&1); rc=$?
    if [ $rc -eq $want ]; then echo "ok   $1 $cs rc=$rc"; else echo "FAIL $1 $cs rc=$rc (want $want)"; fail=1; fi
  done
  rm -rf $d replays
}
for p in tools/mutants/*.diff; do n=$(basename $p .diff); cks=$(head -1 $p | sed 's/# checks: //'); run "$n" "$PWD/$p" "$cks"; done
# seeded/<n>/expect_rc (optional): the exit code this seed is known to give (2 = recorded as undecided, see DESIGN.md 12.5)
for d in seeded/*/; do n=$(basename $d); id=${n:0:3}; WANT=$(cat $d/expect_rc 2>/dev/null || echo 1) run "seeded-$n" "$PWD/$d/patch.diff" "$id"; done
exit $fail
