#!/usr/bin/env python3
"""rewrite the seeded-changes table of DESIGN.md (section 12.5) from seeded/*/meta.json"""
import subprocess, os, re
here = os.path.dirname(os.path.abspath(__file__))
rows = subprocess.run(["python3", os.path.join(here, "seed_table.py")], capture_output=True, text=True).stdout.strip().split("\n")
p = os.path.join(here, "..", "DESIGN.md")
lines = open(p).read().split("\n")
i = next(k for k, l in enumerate(lines) if l.startswith("| seed | change"))
j = i + 2
while j < len(lines) and lines[j].startswith("|"):
    j += 1
lines[i + 2:j] = rows
open(p, "w").write("\n".join(lines))
print("table rows:", len(rows))
