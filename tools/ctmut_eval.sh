#!/bin/bash
# tools/ctmut_eval.sh [dir] : every constant-time mutant produced by tools/ctmutants.py must make C03 exit 1
dir=${1:-/tmp/ctm}
cd /verif
for p in $dir/diffs/*.diff; do
  n=$(basename $p .diff)
  d=$(mktemp -d /tmp/ctmw.XXXXXX); cp -r /repo/. $d/
  (cd $d && git apply $p) || { echo "SKIP $n"; rm -rf $d; continue; }
  s=$(date +%s); out=$(VERIF_REPO=$d timeout 1200 ./check C03 2>&1); rc=$?; e=$(date +%s)
  echo "$n rc=$rc $((e-s))s $(echo "$out" | grep -E '^  what' | head -1 | cut -c1-160)"
  [ $rc -ne 1 ] && echo "$out" | grep -E "^INCONCLUSIVE" | head -2 | cut -c1-250
  rm -rf $d replays
done
