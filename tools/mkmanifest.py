#!/usr/bin/env python3
"""Regenerates /verif/MANIFEST.json from the table below (keeps it schema-valid)."""
import json, os
V = os.path.dirname(os.path.dirname(os.path.abspath(__file__)))
props = [json.loads(l) for l in open(os.path.join(V, "properties.jsonl"))]

OTHER = "other"
CHECKS = {
    # id: (category, technique, level text, level note, design_ref)
}
NA = {}


def add(pid, cat, technique, text, note, ref):
    CHECKS[pid] = (cat, technique, text, note, ref)


exec(open(os.path.join(V, "tools", "manifest_table.py")).read())

checks = []
for p in props:
    pid = p["id"]
    if pid in CHECKS:
        cat, tech, text, note, ref = CHECKS[pid]
        checks.append({
            "property_id": pid,
            "quick_cmd": "./check %s --tier quick" % pid,
            "thorough_cmd": "./check %s --tier thorough" % pid,
            "evidence_file": "/verif/evidence/%s.json" % pid,
            "replay_cmd_template": "./check %s --replay {path}" % pid,
            "engine": "gosym",
            "level_claimed": {"category": cat, "text": text, "design_ref": ref},
            "level_note": note,
            "technique": tech,
        })
na = [{"property_id": p["id"], "reason": NA.get(p["id"], "check not built yet (work in progress)")} for p in props if p["id"] not in CHECKS]
m = {
    "version": 1,
    "setup_cmd": "./setup.sh",
    "hooks": {"guard": "verif", "enable": "no hook commits: harnesses address unexported functions through go/ssa; native replays/drivers are injected with `go test -overlay` (files under /verif/godrv)",
              "baseline_off_cmd": "cd /repo && go test -vet=off -count=1 ./...", "source_commits": [], "add_only": True},
    "engines": [{"name": "gosym", "path": "/verif/sym + /verif/engine/cmd/ssa2json", "serves_properties": sorted(CHECKS),
                 "kind_free_text": "go/ssa (x/tools v0.29.0) -> JSON -> Python symbolic executor; domains: z3 bit-vectors, Int-LF (linear integer forms with explicit wrap), ring/chain/dlog/group abstractions with contracts discharged in the same run; amd64 assembly subset interpreter; z3 5.1.0 (cross-checks: z3 4.8.12, cvc5 1.0.3)"}],
    "checks": checks,
    "notes": "Solver-based checking of the real code: every run regenerates the SSA from /repo's working tree (or $VERIF_REPO). Exit 0 = all obligations unsat; exit 1 + VIOLATION = counterexample reproduced on the real compiled package (solver model and structured candidates replayed through a driver injected with go test -overlay; oracle = independent big-integer reference); exit 2 = inconclusive (unknown/timeout/unsupported construct and the native safety-net battery found nothing), never reported as success. KNOWN-FINDING lines come from known_findings.txt. Thorough tier: larger term counts, 3 goroutines, every goal query cross-checked by z3 4.8.12 and cvc5, larger translator-validation samples. tools/mutsuite.sh re-runs the 15 own mutants and the 30+ seeded changes.",
    "not_applicable": na,
}
json.dump(m, open(os.path.join(V, "MANIFEST.json"), "w"), indent=1)
print("checks:", [c["property_id"] for c in checks], "n/a:", len(na))
