#!/usr/bin/env python3
"""print the DESIGN.md 12.5 table rows from seeded/*/meta.json"""
import json, glob, os, re
rows = []
last = {}   # results of the latest regression run over all seeds (tools/mutsuite.sh), which supersede the first evaluation
try:
    for line in open(os.path.join(os.path.dirname(__file__), "mutsuite_last.log")):
        f = line.split()
        if len(f) >= 4 and f[1].startswith("seeded-"):
            last.setdefault(f[1][7:], {})[f[2]] = f[3].split("=")[1]
except OSError:
    pass
for d in sorted(glob.glob(os.path.join(os.path.dirname(__file__), "..", "seeded", "*"))):
    try:
        m = json.load(open(os.path.join(d, "meta.json")))
    except Exception:
        continue
    name = os.path.basename(d)
    c = m.get("confirmed_by_me", {})
    res = next((v for k, v in c.items() if k.startswith("checks_run")), [])
    rs = dict(r.split(":") for r in res)
    rs.update(last.get(name, {}))
    hit = [k for k, v in rs.items() if v == "1"]
    miss = [k for k, v in rs.items() if v != "1"]
    summ = re.sub(r"\s+", " ", m.get("summary", ""))[:240].replace("|", "/")
    rows.append("| %s | %s | %s | %s |" % (name, summ, ", ".join(hit) or "-", ", ".join(miss) or "-"))
print("\n".join(rows))
