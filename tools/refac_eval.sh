#!/bin/bash
# tools/refac_eval.sh <diff> [check ids...] : apply a behaviour-preserving refactoring to a scratch copy of /repo and run the
# quick checks against it; every check must still exit 0 (a VIOLATION or an inconclusive result here is a false alarm / brittleness)
set -u
diff=$1; shift
checks=${*:-C01 C02 C03 C04 C05 C06 C07 C08 C09 C10 C11 C12 C13 C14 C15 C16 C17 C18 C19 C20}
export GOFLAGS=-mod=mod GOPROXY=off GOSUMDB=off GOTOOLCHAIN=local
d=$(mktemp -d /tmp/refev.XXXXXX)
cp -r /repo/. $d/
(cd $d && git apply $diff) || { echo "REFAC $diff: does not apply"; rm -rf $d; exit 2; }
t=$(cd $d && go test -count=1 ./... 2>&1 | tail -2 | tr '\n' ' ')
echo "REFAC $diff suite: $t"
bad=0
for c in $checks; do
  out=$(cd /verif && VERIF_REPO=$d timeout 1800 ./check $c 2>&1); rc=$?
  if [ $rc -ne 0 ]; then bad=1; echo "REFAC $diff $c rc=$rc"; echo "$out" | grep -E "^(VIOLATION|  what|INCONCLUSIVE)" | head -4 | cut -c1-300 | sed 's/^/      /'; fi
done
[ $bad = 0 ] && echo "REFAC $diff: all checks exit 0"
rm -rf $d /verif/replays
