#!/bin/bash
# tools/mut.sh '<sed-expr>' <file> <check ids...>   : apply a sed mutation to a scratch copy of /repo, run the repo tests and the given checks against it
set -u
expr="$1"; file="$2"; shift 2
d=$(mktemp -d /tmp/mut.XXXXXX)
cp -r /repo/. $d/
sed -i "$expr" $d/$file
(cd $d && git diff --stat | tail -1; git diff | grep '^[+-]' | grep -v '^+++\|^---' | head -6)
(cd $d && GOFLAGS=-mod=mod go test -count=1 ./... 2>&1 | tail -3)
for c in "$@"; do (cd /verif && VERIF_REPO=$d timeout 900 ./check $c 2>&1 | grep -v "^  what" | tail -4); done
rm -rf $d /verif/replays
