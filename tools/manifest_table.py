add("C09", OTHER, "SSA/asm -> SMT (Int-LF linear integer forms, z3): per-kernel contracts + chain-mode exponent check + inductive representation invariant",
    "Bounded-input-free solver verdict per field kernel (value mod p, no unintended wrap, output bounds) for every limb vector within the closed invariant limbs<=2^51+2^38, for the portable Go code and the amd64 assembly; Invert/Pow22523 by exponent arithmetic over the real loops. One inductive step per operation covers operation sequences of any length.",
    "Trusted: go/ssa lowering, the executor and Int-LF normaliser (differentially validated), asm semantics of 9 mnemonics, z3; Fermat's little theorem; arm64 assembly outside.",
    "DESIGN.md 5/C09")
