add("C09", OTHER, "SSA/asm -> SMT (Int-LF linear integer forms, z3): per-kernel contracts + chain-mode exponent check + inductive representation invariant",
    "Bounded-input-free solver verdict per field kernel (value mod p, no unintended wrap, output bounds) for every limb vector within the closed invariant limbs<=2^51+2^38, for the portable Go code and the amd64 assembly; Invert/Pow22523 by exponent arithmetic over the real loops. One inductive step per operation covers operation sequences of any length.",
    "Trusted: go/ssa lowering, the executor and Int-LF normaliser (differentially validated), asm semantics of 9 mnemonics, z3; Fermat's little theorem; arm64 assembly outside.",
    "DESIGN.md 5/C09")
add("C10", OTHER, "SSA -> SMT (z3 bit-vectors for (de)serialisation, masks and comparisons; Int-LF for reduce / wide reduction); symbolic slice length for rejects",
    "Solver verdict over all 2^256 / 2^512 input strings and all limb vectors within the invariant: canonical Bytes (reduce contract + bit-exact serialisation loop incl. encoding/binary SSA), SetBytes bit slices, SetWideBytes value mod p, Equal/IsNegative through the canonical encoding with crypto/subtle.ConstantTimeCompare executed from SSA, Select/Swap exact incl. aliasing, every wrong length rejected (one symbolic length).",
    "Trusted: go/ssa lowering, executor/encodings, z3. Bytes is summarised by its own contract inside Equal/IsNegative (assume/guarantee, discharged in the same run).",
    "DESIGN.md 5/C10")
add("C20", "translation_validation", "amd64 assembly interpreter + go/ssa -> SMT (Int-LF, shared product atoms): limb-for-limb equality of fe_amd64.s and the portable code; SSA diff of both build configurations",
    "feMul/feSquare from fe_amd64.s and feMulGeneric/feSquareGeneric produce identical limbs for every input within the invariant (incl. every aliasing pattern), each also meets the value/bounds contract; default and purego builds differ only in these two functions (file sets, hashes, SSA of all other functions compared).",
    "Trusted: my semantics of 9 amd64 mnemonics, go/packages build-tag resolution, z3. arm64 outside.",
    "DESIGN.md 5/C20")
add("C07", OTHER, "SSA -> SMT: fiat-crypto kernels in Int-LF (Montgomery congruences via quotient atoms, exact-division rule, fork on cmov selector), exported methods in scalar ring mode, Invert by exponent arithmetic, Equal in bit-vectors",
    "For all operands in [0,l): each fiat kernel meets its stated pre/postcondition (solver verdict, no sampling); Add/Subtract/Negate/Multiply/MultiplyAdd/Set executed from SSA on top of those contracts for every aliasing pattern; Invert's real loops give exponent l-2; Equal returns exactly 1/0 and decides equality.",
    "Trusted: go/ssa, executor, Int-LF relaxation (sat replayed), z3; Montgomery map is a ring isomorphism of Z/l; Fermat for l.",
    "DESIGN.md 5/C07")
add("C08", OTHER, "SSA -> SMT: isReduced path-forked in bit-vectors against the 256-bit comparison; setters in scalar ring mode (Int-LF congruences mod l) with fiat contracts discharged in the same run; symbolic slice length for rejects",
    "All 2^256 / 2^512 byte strings: SetCanonicalBytes accepts iff value < l (isReduced decided on each of its early-exit paths), SetUniformBytes = value mod l (21+21+22 split, constants 2^168, 2^336 checked), SetBytesWithClamping = RFC 8032 clamp mod l on a copy, Bytes = little-endian canonical value; every other length rejected atomically.",
    "Trusted: go/ssa, executor, z3; fiat preconditions (input < l) are proved per call site.",
    "DESIGN.md 5/C08")
add("C02", OTHER, "SSA -> ring-mode symbolic execution (integer polynomials) + ideal-membership certificates validated by z3 as integer polynomial identities; field calls justified by Int-LF kernel contracts",
    "For symbolic projective coordinates of valid points (no bound), Add/Subtract/Negate outputs satisfy the cross-multiplied affine Edwards law, the curve equation, XY=ZT and a Z factorisation whose factors are non-zero by completeness; all receiver/argument aliasings; internal conversions, doubling and cached additions likewise (MultByCofactor composes the doubling contract). Completeness lemmas validated as identities, Euler criterion concrete.",
    "Trusted: GF(p) is a field, the last step of the Bernstein-Lange argument, go/ssa, executor, z3. Certificate search (own multivariate division) is untrusted.",
    "DESIGN.md 5/C02")
add("C01", OTHER, "SSA -> group-mode symbolic execution (free abelian group with Int-LF coefficients, solver-decided merging of VarTime branches) on top of recoder (Int-LF / BV inductive), selector (BV) and formula (certificate) contracts discharged from the real SSA",
    "For all scalars in [0,l) and abstract points: each of the five routines returns sum k_j*P_j with coefficient 0 for the prior receiver, from a zero-value/identity/arbitrary/aliased receiver, n<=2 (quick) / n<=4 (thorough) terms, n=0 gives the identity; tables are built by executing the real constructors; 64-digit loops unrolled, 256-step NAF loops merged per iteration.",
    "Trusted: as C02 plus the linear-arithmetic reading of 'represents k*P'; n above the bound outside.",
    "DESIGN.md 5/C01")
add("C06", OTHER, "SSA -> ring-mode symbolic execution; Element.Equal as congruence atoms; z3 decides the boolean structure and the cross-product identities",
    "For symbolic valid points: Equal tests exactly X1Z2-X2Z1 and Y1Z2-Y2Z1 for zero and returns exactly 1 iff both vanish, else 0; self-comparison is 1; operands unwritten. Underlying Element.Equal (reduce, Bytes, ConstantTimeCompare from stdlib SSA) re-discharged.",
    "Trusted: GF(p) has no zero divisors (Z != 0), go/ssa, executor, z3.", "DESIGN.md 5/C06")
add("C13", OTHER, "SSA -> ring-mode symbolic execution of isOnCurve/SetExtendedCoordinates with congruence atoms; z3 decides accept <=> (Z != 0 and both equations) on every path",
    "All coordinate quadruples: every accepting path implies Z != 0, curve equation and XY = ZT; every rejecting path has one of them false; on accept the receiver is exactly (X,Y,Z,T); export returns the four coordinates in fresh cells.",
    "Trusted: Element.Equal <=> congruence (C10 contract, re-discharged), go/ssa, executor, z3.", "DESIGN.md 5/C13")
add("C05", OTHER, "SSA -> ring-mode symbolic execution with inverse/encoding/parity symbols; certificates for y*Z = Y, x*Z = X; bit-vector check of the sign-bit merge",
    "For every valid point in any representation: the encoded element is Y/Z, the sign bit is the parity of reduced X/Z, the 32 bytes are the canonical encoding with only bit 255 altered; buffer fresh, point unwritten. Canonical field encoding re-discharged (reduce, bytes).",
    "Trusted: Fermat inverse, composition with C04 for the round trip.", "DESIGN.md 5/C05")
add("C17", OTHER, "SSA -> ring-mode symbolic execution with two inverse symbols; certificates for u*(1-y) = 1+y and the y=1 case",
    "For every valid point: u*(1-y) = 1+y with y = Y/Z when y != 1, u = 0 when y = 1 (identity only, d != -1), u independent of X and T, output = canonical encoding of u.",
    "The X25519-equivalence consequence is outside the claim.", "DESIGN.md 5/C17")
add("C16", OTHER, "SSA -> discrete-log symbolic execution (exponents mod p-1 as linear integer forms, Equal as congruence, exhaustive split on residues mod 4), z3 LIA; exponent chain and field kernels by Int-LF / chain mode",
    "All (u,v): on every feasible path of the real SqrtRatio body wasSquare equals the quadratic character of u/v, v*r^2 = u resp. sqrt(-1)*u, zero cases (0,1)/(0,0), receiver returned; Pow22523 exponent, Absolute (even root), Select, Equal contracts re-discharged; sqrtM1 checked concretely.",
    "Trusted: GF(p)* cyclic of order p-1; go/ssa, executor, z3.", "DESIGN.md 5/C16")
add("C04", OTHER, "SSA -> ring-mode symbolic execution with SqrtRatio replaced by its contract (fork on wasSquare), certificates for the output equations, bit-vector path conditions for the sign bit; symbolic slice length",
    "All 2^256 strings: y is the field decoding (bit 255 ignored), SqrtRatio is called on (y^2-1, d*y^2+1), acceptance <=> wasSquare, output (+-r, y, 1, +-r*y) satisfies the curve and XY=ZT, x = -r exactly when bit 255 is set; rejects atomic; all other lengths rejected.",
    "Trusted: C16 contract for SqrtRatio (its own check), -1/d non-square (concrete), go/ssa, executor, z3.", "DESIGN.md 5/C04")
add("C12", OTHER, "one inductive step per Point-producing operation: ring-mode certificates (formulas, decoders) + group-mode execution (scalar multiplications) + API-surface coverage computed from SSA",
    "From arbitrary valid inputs and arbitrary receivers every exported producer yields a valid point: closure certificates incl. Z factorisations for Add/Subtract/Negate, accept => valid for SetBytes/SetExtendedCoordinates, scalar multiplications never build their result from an uninitialised or stale value; constructors copy valid constants. Histories of any length follow by induction.",
    "As C01/C02/C04/C13; n <= 2 (quick) / 4 (thorough) for multi-scalar routines.", "DESIGN.md 5/C12")
add("C14", OTHER, "SSA symbolic execution with effects log: symbolic contents and one symbolic length per setter; path feasibility by z3",
    "For the seven fallible setters: every error path returns (nil, error) with no write to the receiver or the input; every success path returns the receiver with the input unwritten.",
    "Data callees summarised by contracts as in C04/C08/C13.", "DESIGN.md 5/C14")
add("C15", OTHER, "group-mode symbolic execution with one input position set to the Go zero value; the limb-level guard checked separately in bit-vectors; symbolic mismatched lengths",
    "Every *Point input position of every exported operation (slice elements up to n=3): all feasible paths panic; mismatched slice lengths (both symbolic) panic; the real guard panics on the zero value and never on a point with a non-zero X or Y limb. Harness table checked against the API surface from SSA.",
    "n <= 3 for slice positions.", "DESIGN.md 5/C15")
add("C11", OTHER, "symbolic execution of every exported method under every aliasing partition (Int-LF for field/scalar kernels, chain/dlog/ring/group modes above) with effects log; same specification over the original argument values decided by z3",
    "Element arithmetic for all partitions of {v,a,b}, Select/Swap/Absolute/Invert/Pow22523/SqrtRatio aliasings, all Scalar methods, Point Add/Subtract/Negate/Equal/MultByCofactor and the five scalar multiplications with the receiver aliased to an input and duplicate slice elements: results meet the distinct-storage specification; non-receiver arguments, slices and their elements are never written.",
    "n <= 2 (quick) / 3 (thorough) for slices; value-level notion of 'same result'.", "DESIGN.md 5/C11")
add("C19", OTHER, "symbolic execution of all 51 exported operations with an effects log (allocation sites, writes, retained references); solver used for path feasibility and the two-call equality",
    "Every result of the constructors, ExtendedCoordinates and the Bytes methods targets storage allocated by the call, distinct per result and not retained by package state or arguments; no operation writes package-level state except the Once-guarded tables inside their initialiser, nor any non-receiver argument; a second ScalarBaseMult call gives the identical result.",
    "Data callees abstracted (does not change which objects are written).", "DESIGN.md 5/C19")
add("C18", OTHER, "effects/event extraction by symbolic execution of all exported operations + happens-before schedule query in z3 (Once.Do modelled by its contract); cold-start `go test -race` replay in the thorough tier / on alarm",
    "Package-level state is written only inside a table's own Once.Do initialiser; tables are read only after Do returned; for 2 (quick) / 3 (thorough) goroutines and every multiset of table-using operations no schedule leaves a table write unordered with another goroutine's access.",
    "Sequentially consistent events, sync.Once contract trusted, one call per goroutine, object granularity.", "DESIGN.md 5/C18")
add("C03", OTHER, "per-function leakage-mode symbolic execution (bit-vectors, all data secret) over the static call graph of the constant-time API with assume/guarantee summaries; each non-constant leak site decided by a self-composition query in z3; assembly shape check",
    "For every function reachable from the constant-time API and all pairs of secrets with equal public shape: every branch condition, index, slice bound, shift count and division operand is secret-independent (unsat self-composition), except the recorded known finding in checkInitialized; no constant-time entry reaches a VarTime routine; fe_amd64.s is straight-line with constant addressing. Decoder validity decisions are exempt.",
    "Leakage model = the property's; below go/ssa (compiler lowering, memequal, hardware) outside; callee contracts from C01/C07-C10.", "DESIGN.md 5/C03")
