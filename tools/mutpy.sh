#!/bin/bash
# tools/mutpy.sh '<python snippet editing files under cwd>' <check ids...>
set -u
snip="$1"; shift
d=$(mktemp -d /tmp/mut.XXXXXX)
cp -r /repo/. $d/
(cd $d && python3 -c "$snip" && git diff --stat | tail -1)
(cd $d && GOFLAGS=-mod=mod go test -count=1 ./... 2>&1 | tail -3)
for c in "$@"; do (cd /verif && VERIF_REPO=$d timeout 1800 ./check $c 2>&1 | grep -v "^  what" | tail -4); done
rm -rf $d /verif/replays
