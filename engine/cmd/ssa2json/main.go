// ssa2json loads a Go module's packages (by default /repo), builds go/ssa for
// them and writes the SSA of every function of the target packages - plus the
// transitive static callees inside a small whitelist of standard-library
// packages - as one JSON document.  The Python symbolic executor in
// /verif/sym consumes this file; it is regenerated from the working tree on
// every check run.
package main

import (
	"crypto/sha256"
	"encoding/hex"
	"encoding/json"
	"flag"
	"fmt"
	"go/constant"
	"go/token"
	"go/types"
	"os"
	"path/filepath"
	"sort"
	"strings"

	"golang.org/x/tools/go/packages"
	"golang.org/x/tools/go/ssa"
	"golang.org/x/tools/go/ssa/ssautil"
)

type J = map[string]interface{}

var (
	typeTab = map[string]J{}
	fset    *token.FileSet
)

func typeID(t types.Type) string {
	t = types.Unalias(t)
	id := types.TypeString(t, nil)
	if _, ok := typeTab[id]; ok {
		return id
	}
	typeTab[id] = J{} // placeholder (recursion guard)
	var d J
	switch tt := t.(type) {
	case *types.Basic:
		d = J{"k": "basic", "name": tt.Name()}
	case *types.Pointer:
		d = J{"k": "ptr", "elem": typeID(tt.Elem())}
	case *types.Named:
		d = J{"k": "named", "name": id, "under": typeID(tt.Underlying())}
	case *types.Struct:
		fs := []J{}
		for i := 0; i < tt.NumFields(); i++ {
			f := tt.Field(i)
			fs = append(fs, J{"name": f.Name(), "type": typeID(f.Type())})
		}
		d = J{"k": "struct", "fields": fs}
	case *types.Array:
		d = J{"k": "array", "len": tt.Len(), "elem": typeID(tt.Elem())}
	case *types.Slice:
		d = J{"k": "slice", "elem": typeID(tt.Elem())}
	case *types.Tuple:
		es := []string{}
		for i := 0; i < tt.Len(); i++ {
			es = append(es, typeID(tt.At(i).Type()))
		}
		d = J{"k": "tuple", "elems": es}
	case *types.Signature:
		d = J{"k": "func"}
	case *types.Interface:
		d = J{"k": "iface"}
	default:
		d = J{"k": "other", "go": fmt.Sprintf("%T", t)}
	}
	typeTab[id] = d
	return id
}

func pos(p token.Pos) string {
	if !p.IsValid() {
		return ""
	}
	pp := fset.Position(p)
	return fmt.Sprintf("%s:%d", pp.Filename, pp.Line)
}

func val(v ssa.Value) J {
	if v == nil {
		return nil
	}
	switch x := v.(type) {
	case *ssa.Const:
		j := J{"k": "const", "type": typeID(x.Type())}
		if x.Value == nil {
			j["v"] = nil // zero value / nil
			j["zero"] = true
		} else {
			switch x.Value.Kind() {
			case constant.Bool:
				j["v"] = constant.BoolVal(x.Value)
			case constant.String:
				j["v"] = constant.StringVal(x.Value)
				j["str"] = true
				j["hex"] = hex.EncodeToString([]byte(constant.StringVal(x.Value)))
			case constant.Int:
				j["v"] = x.Value.ExactString()
			default:
				j["v"] = x.Value.ExactString()
				j["float"] = true
			}
		}
		return j
	case *ssa.Global:
		return J{"k": "global", "n": x.String(), "type": typeID(x.Type())}
	case *ssa.Function:
		return J{"k": "func", "n": x.String()}
	case *ssa.Parameter:
		return J{"k": "param", "n": x.Name()}
	case *ssa.FreeVar:
		return J{"k": "freevar", "n": x.Name()}
	case *ssa.Builtin:
		return J{"k": "builtin", "n": x.Name()}
	default:
		return J{"k": "local", "n": v.Name()}
	}
}

func vals(vs []ssa.Value) []J {
	out := []J{}
	for _, v := range vs {
		out = append(out, val(v))
	}
	return out
}

func instr(in ssa.Instruction) J {
	j := J{"pos": pos(in.Pos())}
	if v, ok := in.(ssa.Value); ok {
		j["name"] = v.Name()
		j["type"] = typeID(v.Type())
	}
	switch x := in.(type) {
	case *ssa.Alloc:
		j["op"] = "Alloc"
		j["heap"] = x.Heap
		j["comment"] = x.Comment
	case *ssa.BinOp:
		j["op"] = "BinOp"
		j["binop"] = x.Op.String()
		j["x"] = val(x.X)
		j["y"] = val(x.Y)
		j["xtype"] = typeID(x.X.Type())
		j["ytype"] = typeID(x.Y.Type())
	case *ssa.UnOp:
		j["op"] = "UnOp"
		j["unop"] = x.Op.String()
		j["x"] = val(x.X)
		j["commaok"] = x.CommaOk
	case *ssa.Call:
		j["op"] = "Call"
		c := x.Call
		cj := J{"args": vals(c.Args)}
		if c.IsInvoke() {
			cj["mode"] = "invoke"
			cj["method"] = c.Method.Name()
			cj["recv"] = val(c.Value)
		} else {
			switch f := c.Value.(type) {
			case *ssa.Function:
				cj["mode"] = "static"
				cj["fn"] = f.String()
			case *ssa.Builtin:
				cj["mode"] = "builtin"
				cj["fn"] = f.Name()
			default:
				cj["mode"] = "dynamic"
				cj["fnval"] = val(c.Value)
			}
		}
		at := []string{}
		for _, a := range c.Args {
			at = append(at, typeID(a.Type()))
		}
		cj["argtypes"] = at
		j["call"] = cj
	case *ssa.Defer:
		j["op"] = "Defer"
		c := x.Call
		cj := J{"args": vals(c.Args)}
		if c.IsInvoke() {
			cj["mode"] = "invoke"
			cj["method"] = c.Method.Name()
			cj["recv"] = val(c.Value)
		} else {
			switch f := c.Value.(type) {
			case *ssa.Function:
				cj["mode"] = "static"
				cj["fn"] = f.String()
			case *ssa.Builtin:
				cj["mode"] = "builtin"
				cj["fn"] = f.Name()
			default:
				cj["mode"] = "dynamic"
				cj["fnval"] = val(c.Value)
			}
		}
		j["call"] = cj
	case *ssa.RunDefers:
		j["op"] = "RunDefers"
	case *ssa.ChangeType:
		j["op"] = "ChangeType"
		j["x"] = val(x.X)
	case *ssa.Convert:
		j["op"] = "Convert"
		j["x"] = val(x.X)
		j["xtype"] = typeID(x.X.Type())
	case *ssa.Extract:
		j["op"] = "Extract"
		j["x"] = val(x.Tuple)
		j["index"] = x.Index
	case *ssa.FieldAddr:
		j["op"] = "FieldAddr"
		j["x"] = val(x.X)
		j["field"] = x.Field
		j["xtype"] = typeID(x.X.Type())
	case *ssa.Field:
		j["op"] = "Field"
		j["x"] = val(x.X)
		j["field"] = x.Field
	case *ssa.If:
		j["op"] = "If"
		j["cond"] = val(x.Cond)
	case *ssa.Index:
		j["op"] = "Index"
		j["x"] = val(x.X)
		j["index"] = val(x.Index)
		j["itype"] = typeID(x.Index.Type())
		j["xtype"] = typeID(x.X.Type())
	case *ssa.IndexAddr:
		j["op"] = "IndexAddr"
		j["x"] = val(x.X)
		j["index"] = val(x.Index)
		j["itype"] = typeID(x.Index.Type())
		j["xtype"] = typeID(x.X.Type())
	case *ssa.Jump:
		j["op"] = "Jump"
	case *ssa.MakeInterface:
		j["op"] = "MakeInterface"
		j["x"] = val(x.X)
		j["xtype"] = typeID(x.X.Type())
	case *ssa.MakeSlice:
		j["op"] = "MakeSlice"
		j["len"] = val(x.Len)
		j["cap"] = val(x.Cap)
	case *ssa.MakeClosure:
		j["op"] = "MakeClosure"
		j["fn"] = x.Fn.(*ssa.Function).String()
		j["bindings"] = vals(x.Bindings)
	case *ssa.Panic:
		j["op"] = "Panic"
		j["x"] = val(x.X)
	case *ssa.Phi:
		j["op"] = "Phi"
		j["edges"] = vals(x.Edges)
		j["comment"] = x.Comment
	case *ssa.Return:
		j["op"] = "Return"
		j["results"] = vals(x.Results)
	case *ssa.Slice:
		j["op"] = "Slice"
		j["x"] = val(x.X)
		j["low"] = val(x.Low)
		j["high"] = val(x.High)
		j["max"] = val(x.Max)
		j["xtype"] = typeID(x.X.Type())
	case *ssa.SliceToArrayPointer:
		j["op"] = "SliceToArrayPointer"
		j["x"] = val(x.X)
	case *ssa.Store:
		j["op"] = "Store"
		j["addr"] = val(x.Addr)
		j["val"] = val(x.Val)
		j["valtype"] = typeID(x.Val.Type())
	case *ssa.DebugRef:
		j["op"] = "DebugRef"
	case *ssa.TypeAssert:
		j["op"] = "TypeAssert"
		j["x"] = val(x.X)
		j["asserted"] = typeID(x.AssertedType)
		j["commaok"] = x.CommaOk
		_, isIface := x.AssertedType.Underlying().(*types.Interface)
		j["toiface"] = isIface
	default:
		j["op"] = "Unsupported"
		j["go"] = fmt.Sprintf("%T", in)
		j["text"] = in.String()
	}
	return j
}

// homePkg: the package a function belongs to, also for functions without fn.Pkg: instances of generic functions (their
// origin's package), bound-method closures and thunks (the method's package), anonymous functions (their parent's)
func homePkg(fn *ssa.Function) string {
	if fn == nil {
		return ""
	}
	if fn.Pkg != nil {
		return fn.Pkg.Pkg.Path()
	}
	if o := fn.Origin(); o != nil && o != fn {
		return homePkg(o)
	}
	if p := fn.Parent(); p != nil {
		return homePkg(p)
	}
	if obj := fn.Object(); obj != nil && obj.Pkg() != nil {
		return obj.Pkg().Path()
	}
	return ""
}

func function(fn *ssa.Function) J {
	j := J{"name": fn.String(), "pos": pos(fn.Pos()), "synthetic": fn.Synthetic, "short": fn.Name()}
	if hp := homePkg(fn); hp != "" {
		j["pkg"] = hp
	}
	ps := []J{}
	for _, p := range fn.Params {
		ps = append(ps, J{"name": p.Name(), "type": typeID(p.Type())})
	}
	j["params"] = ps
	fv := []J{}
	for _, p := range fn.FreeVars {
		fv = append(fv, J{"name": p.Name(), "type": typeID(p.Type())})
	}
	j["freevars"] = fv
	rs := []string{}
	res := fn.Signature.Results()
	for i := 0; i < res.Len(); i++ {
		rs = append(rs, typeID(res.At(i).Type()))
	}
	j["results"] = rs
	j["hasrecv"] = fn.Signature.Recv() != nil
	j["variadic"] = fn.Signature.Variadic()
	if obj := fn.Object(); obj != nil && fn.Synthetic == "" {
		j["exported"] = obj.Exported()
	}
	if fn.Blocks == nil {
		j["external"] = true
		return j
	}
	bs := []J{}
	if fn.Recover != nil {
		j["recover_block"] = fn.Recover.Index
	}
	for _, b := range fn.Blocks {
		bj := J{"index": b.Index, "comment": b.Comment}
		pr := []int{}
		for _, p := range b.Preds {
			pr = append(pr, p.Index)
		}
		su := []int{}
		for _, s := range b.Succs {
			su = append(su, s.Index)
		}
		bj["preds"] = pr
		bj["succs"] = su
		if b.Idom() != nil {
			bj["idom"] = b.Idom().Index
		}
		is := []J{}
		for _, in := range b.Instrs {
			is = append(is, instr(in))
		}
		bj["instrs"] = is
		bs = append(bs, bj)
	}
	j["blocks"] = bs
	return j
}

func main() {
	dir := flag.String("dir", "/repo", "module directory")
	tags := flag.String("tags", "", "build tags")
	out := flag.String("o", "", "output file")
	stdpk := flag.String("std", "crypto/subtle,encoding/binary,bytes,encoding/hex", "std packages whose reached functions are dumped with bodies")
	flag.Parse()

	cfg := &packages.Config{
		Mode: packages.LoadAllSyntax,
		Dir:  *dir,
		Env:  append(os.Environ(), "GOFLAGS=-mod=mod", "GOPROXY=off", "GOSUMDB=off", "GOTOOLCHAIN=local"),
	}
	if *tags != "" {
		cfg.BuildFlags = []string{"-tags=" + *tags}
	}
	pkgs, err := packages.Load(cfg, "./...")
	if err != nil {
		fmt.Fprintln(os.Stderr, "load:", err)
		os.Exit(2)
	}
	if packages.PrintErrors(pkgs) > 0 {
		os.Exit(2)
	}
	fset = pkgs[0].Fset
	prog, spkgs := ssautil.AllPackages(pkgs, ssa.InstantiateGenerics)
	prog.Build()

	target := map[string]bool{}
	pkginfo := []J{}
	for i, p := range pkgs {
		target[p.PkgPath] = true
		files := []J{}
		all := append(append([]string{}, p.CompiledGoFiles...), p.OtherFiles...)
		for _, f := range all {
			data, _ := os.ReadFile(f)
			h := sha256.Sum256(data)
			files = append(files, J{"file": filepath.Base(f), "path": f, "sha256": hex.EncodeToString(h[:])})
		}
		gl := []J{}
		if spkgs[i] != nil {
			names := []string{}
			for n, m := range spkgs[i].Members {
				if _, ok := m.(*ssa.Global); ok {
					names = append(names, n)
				}
			}
			sort.Strings(names)
			for _, n := range names {
				g := spkgs[i].Members[n].(*ssa.Global)
				gl = append(gl, J{"name": g.String(), "type": typeID(g.Type()), "pos": pos(g.Pos())})
			}
		}
		pkginfo = append(pkginfo, J{"path": p.PkgPath, "files": files, "globals": gl})
	}
	std := map[string]bool{}
	for _, s := range strings.Split(*stdpk, ",") {
		std[s] = true
	}

	all := ssautil.AllFunctions(prog)
	done := map[*ssa.Function]bool{}
	var work []*ssa.Function
	for fn := range all {
		if hp := homePkg(fn); hp != "" && target[hp] {
			work = append(work, fn)
		}
	}
	funcs := []J{}
	for len(work) > 0 {
		fn := work[len(work)-1]
		work = work[:len(work)-1]
		if done[fn] {
			continue
		}
		done[fn] = true
		hp := homePkg(fn)
		inTarget := hp != "" && (target[hp] || std[hp])
		if !inTarget {
			j := J{"name": fn.String(), "external": true, "short": fn.Name()}
			if hp != "" {
				j["pkg"] = hp
			}
			funcs = append(funcs, j)
			continue
		}
		funcs = append(funcs, function(fn))
		for _, b := range fn.Blocks {
			for _, in := range b.Instrs {
				var ops [16]*ssa.Value
				for _, op := range in.Operands(ops[:0]) {
					if op == nil || *op == nil {
						continue
					}
					if f, ok := (*op).(*ssa.Function); ok && !done[f] {
						work = append(work, f)
					}
				}
			}
		}
		for _, af := range fn.AnonFuncs {
			if !done[af] {
				work = append(work, af)
			}
		}
	}
	sort.Slice(funcs, func(i, j int) bool { return funcs[i]["name"].(string) < funcs[j]["name"].(string) })

	doc := J{"dir": *dir, "tags": *tags, "packages": pkginfo, "types": typeTab, "funcs": funcs}
	var w *os.File = os.Stdout
	if *out != "" {
		w, err = os.Create(*out)
		if err != nil {
			fmt.Fprintln(os.Stderr, err)
			os.Exit(2)
		}
		defer w.Close()
	}
	enc := json.NewEncoder(w)
	if err := enc.Encode(doc); err != nil {
		fmt.Fprintln(os.Stderr, err)
		os.Exit(2)
	}
}
